import SqlProofs.Group.Lead
import SqlProofs.Group.TotalDriver
/-!
# SqlProofs.Group.LeadDriver — the parent-level loop of `_group` respects a protected prefix

`L = A ++ tail`.  If no child in `A` is a match (`A` is *inert*) and the last non-whitespace child of `A` cannot be
taken as `prev_` when the first child of `tail` matches, then the loop never groups across the boundary:
`PrefRel |A| L result`.  Needs the alignment invariant (the snapshot and the list stay in step), so it covers the
configurations whose `post` groups `[pidx|tidx, tidx|nidx]` — all but `group_assignment`.
-/
namespace Sql

structure PostAl3 (cfg : DrvCfg) : Prop where
  post : ∀ cur p t n r, cfg.post cur p t n = .ok r →
    (r.2.1 = p ∨ r.2.1 = t) ∧ (r.2.2 = t ∨ ∃ n', n = some n' ∧ r.2.2 = n') ∧
      r.1.length = cur.length ∧ r.1.drop (t + 1) = cur.drop (t + 1) ∧ (∀ s, s ≤ t → PrefRel s cur r.1)

/-- `post` always groups from `tidx` (so `prev_` is never absorbed) -/
def FromT (cfg : DrvCfg) : Prop := ∀ cur p t n r, cfg.post cur p t n = .ok r → r.2.1 = t

/-- the alignment facts for `m` pending stale whitespace elements -/
structure Al (s : Nat) (snap : List Node) (idx : Nat) (st : DrvSt) (m : Nat) : Prop where
  ws : ∀ x ∈ snap.take m, x.isWhitespace = true
  off : st.off ≤ (idx : Int) + m
  drop : snap.drop (m + 1) = st.cur.drop (((idx : Int) + m - st.off).toNat + 1)
  prev : ∀ pidx p, st.prev = some (pidx, p) → (pidx : Int) ≤ (idx : Int) + m - st.off
  range : snap ≠ [] → ((idx : Int) + m - st.off).toNat < st.cur.length
  low : s ≤ ((idx : Int) + m - st.off).toNat

theorem al_skip {s : Nat} {token : Node} {tl : List Node} {idx k : Nat} {st : DrvSt} (r : List Bool)
    (h : Al s (token :: tl) idx st (k + 1)) : Al s tl (idx + 1) { st with reached := r } k := by
  obtain ⟨hws, hoff, hal, hprev, hrange, hlow⟩ := h
  have e : ((idx + 1 : Nat) : Int) + (k : Nat) - st.off = (idx : Int) + ((k + 1 : Nat) : Int) - st.off := by
    push_cast; omega
  refine ⟨?_, ?_, ?_, ?_, ?_, ?_⟩
  · intro x hx
    exact hws x (by simp only [List.take_succ_cons]; exact List.mem_cons_of_mem _ hx)
  · simp only; push_cast at hoff ⊢; omega
  · simp only [List.drop_succ_cons] at hal
    simp only
    rw [e]; exact hal
  · intro pidx p hpp
    have := hprev pidx p hpp
    push_cast at this ⊢; omega
  · intro _
    simp only
    rw [e]; exact hrange (by simp)
  · simp only
    rw [e]; exact hlow

theorem al_next {s : Nat} {tl : List Node} {idx tidx : Nat} {st : DrvSt}
    (htid : (tidx : Int) = (idx : Int) - st.off) (hal : tl = st.cur.drop (tidx + 1)) (hlow : s ≤ tidx)
    (pv : Option (Nat × Node)) (r : List Bool) (hpv : ∀ pidx p, pv = some (pidx, p) → pidx ≤ tidx + 1) :
    Al s tl (idx + 1) { st with reached := r, prev := pv } 0 := by
  have e : (((idx + 1 : Nat) : Int) - st.off).toNat = tidx + 1 := by push_cast; omega
  refine ⟨by simp, ?_, ?_, ?_, ?_, ?_⟩
  · simp only; push_cast; omega
  · simp only [Int.natCast_zero, Int.add_zero]
    rw [e, hal, drop_drop_add]
  · intro pidx p hpp
    have := hpv pidx p hpp
    simp only [Int.natCast_zero, Int.add_zero]
    push_cast; omega
  · intro hne
    simp only [Int.natCast_zero, Int.add_zero]
    rw [e]
    rw [hal] at hne
    have : (st.cur.drop (tidx + 1)).length ≠ 0 := fun h => hne (List.eq_nil_of_length_eq_zero h)
    simp only [List.length_drop] at this
    omega
  · simp only [Int.natCast_zero, Int.add_zero]
    rw [e]; omega

/-- one step.  `hprev` is the only place where the boundary could be crossed: a `prev_` below `s` must be unusable
for the current token. -/
theorem drvStep_lead {cfg : DrvCfg} (hp : PostAl3 cfg) {s : Nat} {L0 : List Node} {st st' : DrvSt} {idx m : Nat}
    {token : Node} {tl : List Node}
    (hrel : PrefRel s L0 st.cur) (hal : Al s (token :: tl) idx st m)
    (hprev : ∀ pidx p, st.prev = some (pidx, p) →
      s ≤ pidx ∨ FromT cfg ∨ cfg.validPrev p = false ∨ cfg.isMatch token = false)
    (h : drvStep cfg st idx token = .ok st') :
    PrefRel s L0 st'.cur ∧ (∃ m', Al s tl (idx + 1) st' m') ∧
      (st'.prev = st.prev ∨ ∀ pidx p, st'.prev = some (pidx, p) → s ≤ pidx) ∧
      (m = 0 → token.isWhitespace = false → ∀ pidx p, st'.prev = some (pidx, p) → s ≤ pidx) := by
  cases m with
  | succ k =>
    obtain ⟨r, hr⟩ := drvStep_ws (cfg := cfg) (st := st) (idx := idx) (hal.ws token (by simp))
    rw [hr] at h
    cases h
    exact ⟨hrel, ⟨k, al_skip r hal⟩, Or.inl rfl, fun h => by cases h⟩
  | zero =>
    obtain ⟨hws, hoff, hdrop, hprevle, hrange, hlow⟩ := hal
    simp only [Int.natCast_zero, Int.add_zero, List.take_zero, List.drop_succ_cons, List.drop_zero]
      at hws hoff hdrop hprevle hrange hlow
    have hrange := hrange (by simp)
    unfold drvStep at h
    split at h
    · rename_i hneg; omega
    · simp only at h
      have htid : ((((idx : Int) - st.off).toNat : Nat) : Int) = (idx : Int) - st.off := by omega
      generalize ((idx : Int) - st.off).toNat = tidx at h htid hdrop hrange hlow
      have hplain : Al s tl (idx + 1) { st with reached := true :: st.reached, prev := some (tidx, token) } 0 :=
        al_next htid hdrop hlow _ _
          (by intro pidx p hpp; simp only [Option.some.injEq, Prod.mk.injEq] at hpp; omega)
      have hplainP : ∀ pidx p, some (tidx, token) = some (pidx, p) → s ≤ pidx := by
        intro pidx p hpp
        simp only [Option.some.injEq, Prod.mk.injEq] at hpp
        omega
      split at h
      · rename_i hws'
        cases h
        refine ⟨hrel, ⟨0, ?_⟩, Or.inl rfl, fun _ hnw => by rw [hws'] at hnw; cases hnw⟩
        have := al_next (s := s) htid hdrop hlow st.prev (true :: st.reached)
          (by intro pidx p hpp; have := hprevle pidx p hpp; omega)
        simpa using this
      · split at h
        · rename_i hmatch
          cases hpv : st.prev with
          | none =>
            simp only [hpv] at h; cases h
            exact ⟨hrel, ⟨0, hplain⟩, Or.inr hplainP, fun _ _ => hplainP⟩
          | some q =>
            obtain ⟨pidx, prev⟩ := q
            simp only [hpv] at h
            split at h
            · rename_i hvalid
              simp only [Bool.and_eq_true] at hvalid
              cases hpost : cfg.post st.cur pidx tidx (Option.map (·.1) (tokenNext st.cur tidx)) with
              | error e => simp [hpost] at h
              | ok r =>
                obtain ⟨cur1, fromIdx, toIdx⟩ := r
                simp only [hpost] at h
                cases hgt : groupTokens' cur1 cfg.cls fromIdx toIdx true cfg.extend with
                | error e => simp [hgt] at h
                | ok r2 =>
                  obtain ⟨cur2, grp⟩ := r2
                  simp only [hgt, Except.ok.injEq] at h
                  subst h
                  obtain ⟨hf, hto, hlen1, hdrop1, hpref1⟩ := hp.post _ _ _ _ _ hpost
                  simp only at hf hto hlen1 hdrop1 hpref1
                  have hple : pidx ≤ tidx := by have := hprevle pidx prev hpv; omega
                  -- the group starts at or after `s`
                  have hfs : s ≤ fromIdx ∧ fromIdx ≤ tidx := by
                    rcases hf with hf | hf
                    · subst hf
                      rcases hprev _ _ hpv with h1 | h1 | h1 | h1
                      · exact ⟨h1, hple⟩
                      · have := h1 _ _ _ _ _ hpost
                        simp only at this
                        omega
                      · rw [h1] at hvalid; cases hvalid.1
                      · rw [h1] at hmatch; cases hmatch
                    · omega
                  obtain ⟨hsf, hpa⟩ := hfs
                  have hrel2 : PrefRel s L0 cur2 :=
                    (hrel.trans (hpref1 s hlow)).trans (groupTokens'_prefRel hgt hsf)
                  have hprevP : ∀ pidx' p', some (fromIdx, grp) = some (pidx', p') → s ≤ pidx' := by
                    intro pidx' p' hpp
                    simp only [Option.some.injEq, Prod.mk.injEq] at hpp
                    omega
                  refine ⟨hrel2, ?_, Or.inr hprevP, fun _ _ => hprevP⟩
                  rcases hto with hto | ⟨n2, hn, hto⟩
                  · -- grouped `[from, tidx]`
                    have hto' : tidx = toIdx := hto.symm
                    subst hto'
                    have hshape := groupTokens'_shape hgt hpa
                    simp only at hshape
                    have hc2 : cur2.drop (fromIdx + 1) = tl := by
                      rw [hshape, drop_splice _ _ (by omega), hdrop1, hdrop]
                    have e : (((idx + 1 : Nat) : Int) - (st.off + ((tidx : Int) - (fromIdx : Int)))).toNat =
                        fromIdx + 1 := by push_cast; omega
                    refine ⟨0, by simp, ?_, ?_, ?_, ?_, ?_⟩
                    · simp only; push_cast; omega
                    · simp only [Int.natCast_zero, Int.add_zero]
                      rw [e, ← drop_drop_add cur2 (fromIdx + 1) 1, hc2]
                    · intro pidx' p' hpp
                      simp only [Option.some.injEq, Prod.mk.injEq] at hpp
                      obtain ⟨rfl, rfl⟩ := hpp
                      simp only [Int.natCast_zero, Int.add_zero]
                      push_cast; omega
                    · intro hne
                      simp only [Int.natCast_zero, Int.add_zero]
                      rw [e]
                      have : (cur2.drop (fromIdx + 1)).length ≠ 0 := by
                        rw [hc2]; exact fun h => hne (List.eq_nil_of_length_eq_zero h)
                      simp only [List.length_drop] at this
                      omega
                    · simp only [Int.natCast_zero, Int.add_zero]
                      rw [e]; omega
                  · -- grouped `[from, nidx]`
                    subst hto
                    cases hq : tokenNext st.cur tidx with
                    | none => simp [hq] at hn
                    | some q =>
                      obtain ⟨n3, k2⟩ := q
                      simp only [hq, Option.map_some, Option.some.injEq] at hn
                      subst hn
                      obtain ⟨hlt, _, hbetween⟩ := tokenNext_hit hq
                      have hshape := groupTokens'_shape hgt (by omega : fromIdx ≤ n3)
                      simp only at hshape
                      obtain ⟨_, _, hfl⟩ := groupTokens'_at hgt
                      have e : (((idx + 1 : Nat) : Int) + ((n3 - tidx - 1 : Nat) : Int) -
                          (st.off + ((n3 : Int) - (fromIdx : Int)))).toNat = fromIdx := by
                        push_cast; omega
                      refine ⟨n3 - tidx - 1, ?_, ?_, ?_, ?_, ?_, ?_⟩
                      · intro x hx
                        rw [hdrop] at hx
                        obtain ⟨i, hi, hxi⟩ := List.getElem_of_mem hx
                        simp only [List.length_take, List.length_drop] at hi
                        have : st.cur[tidx + 1 + i]? = some x := by
                          rw [← hxi]
                          simp [List.getElem_take, List.getElem_drop]
                        exact hbetween (tidx + 1 + i) x (by omega) (by omega) this
                      · simp only; push_cast; omega
                      · simp only
                        rw [e, hshape, drop_splice _ _ (by omega), hdrop, drop_drop_add]
                        have e2 : tidx + 1 + (n3 - tidx - 1 + 1) = n3 + 1 := by omega
                        have := drop_congr_add hdrop1 (n3 - tidx - 1 + 1)
                        rw [e2] at this ⊢
                        exact this.symm
                      · intro pidx' p' hpp
                        simp only [Option.some.injEq, Prod.mk.injEq] at hpp
                        obtain ⟨rfl, rfl⟩ := hpp
                        push_cast; omega
                      · intro _
                        simp only
                        rw [e, hshape]
                        simp only [List.length_append, List.length_take, List.length_cons]
                        omega
                      · simp only
                        rw [e]; exact hsf
            · cases h
              exact ⟨hrel, ⟨0, hplain⟩, Or.inr hplainP, fun _ _ => hplainP⟩
        · cases h
          exact ⟨hrel, ⟨0, hplain⟩, Or.inr hplainP, fun _ _ => hplainP⟩

end Sql
