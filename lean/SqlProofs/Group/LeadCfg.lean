import SqlProofs.Group.LeadDrv
import SqlProofs.Group.DriverPasses
/-!
# SqlProofs.Group.LeadCfg — the leading DML/DDL keyword is inert for the ten aligned `_group` configurations
-/
namespace Sql

/-- the non-whitespace children that can occur in the protected prefix: comment leaves, `Comment` groups, and the
leading keyword itself (a leaf of type `Keyword.DML` or `Keyword.DDL` whose normalised value is neither `NULL` nor `AS`) -/
inductive LeadElt (u : Text → Text) : Node → Prop
  | cmt {tt : TType} {v : Text} : tt.isIn T.Comment = true → LeadElt u (Node.tok tt v)
  | grp {k : List Node} : LeadElt u (Node.grp .Comment k)
  | kw {tt : TType} {v : Text} : tt = T.DML ∨ tt = T.DDL → u v ≠ txt "NULL" → u v ≠ txt "AS" → LeadElt u (Node.tok tt v)

theorem isIn_comment {tt : TType} (h : tt.isIn T.Comment = true) : ∃ r, tt = "Comment" :: r := by
  cases tt with
  | nil => simp [TType.isIn, T.Comment, List.isPrefixOf] at h
  | cons a r =>
    simp only [TType.isIn, T.Comment, List.isPrefixOf, Bool.and_eq_true, beq_iff_eq] at h
    exact ⟨r, by rw [h.1]⟩

theorem skippable_cases {u : Text → Text} {x : Node} (h : x.skippable = true) :
    x.isWhitespace = true ∨ LeadElt u x := by
  cases x with
  | tok tt v =>
    simp only [Node.skippable, skipMatcher, Bool.true_and, Bool.not_not, Bool.or_eq_true, Node.isWhitespace,
      Node.ttIn, Node.isInst, Bool.or_false] at h
    rcases h with h | h
    · exact Or.inl h
    · exact Or.inr (.cmt h)
  | grp c k =>
    simp only [Node.skippable, skipMatcher, Bool.true_and, Bool.not_not, Bool.or_eq_true, Node.isWhitespace,
      Node.ttIn, Node.isInst, Bool.false_or, beq_iff_eq] at h
    rcases h with h | h
    · cases h
    · subst h; exact Or.inr .grp

/-- a leaf whose type is none of the pattern types matches none of the patterns -/
theorem matchAny_false_of_tt {u : Text → Text} {tt : TType} {v : Text} {ps : List MPat}
    (h : ∀ p ∈ ps, p.tt ≠ tt) : (Node.tok tt v).matchAny u ps = false := by
  simp only [Node.matchAny, List.any_eq_false]
  intro p hp
  simp only [Node.matchP, Node.match]
  have := h p hp
  rw [if_pos (by simpa [bne_iff_ne] using fun hh => this hh.symm)]
  simp

theorem ne_of_comment {tt : TType} (h : tt.isIn T.Comment = true) {t2 : TType} (h2 : t2.head? ≠ some "Comment") :
    t2 ≠ tt := by
  obtain ⟨r, rfl⟩ := isIn_comment h
  intro heq
  subst heq
  simp at h2

/-- unfolding set for the tactic below -/
macro "lead_simp" : tactic => `(tactic| simp (config := { decide := true }) [Node.matchAny, Node.matchP, Node.match, imt, imtOpt,
  Node.isInstAny, Node.isInst, Node.ttEqAny, Node.ttIn, Node.ttype?, Node.isKeyword, Node.normalized, TType.isIn,
  T.DML, T.DDL, T.Keyword, T.Comment, isSomeTok, validComparison, validOperator, validIdentifierList, validAssignment,
  Gen.group_typecasts_match0, Gen.group_tzcasts_ttype_cmp0, Gen.group_typed_literal_imt0_m,
  Gen.group_typed_literal_isinstance0, Gen.group_period_match_for, Gen.group_comparison_ttype_cmp0,
  Gen.group_arrays_isinstance0, Gen.group_operator_imt0_t, Gen.group_identifier_list_match0,
  Gen.group_period_valid_prev_sqlcls, Gen.group_period_valid_prev_ttypes, Gen.group_comparison_sqlcls,
  Gen.group_comparison_ttypes, Gen.group_arrays_sqlcls, Gen.group_arrays_ttypes, Gen.group_operator_sqlcls,
  Gen.group_operator_ttypes, Gen.group_operator_match0, Gen.group_identifier_list_sqlcls,
  Gen.group_identifier_list_m_role, Gen.group_identifier_list_ttypes, List.isPrefixOf])

macro "lead_cases" h:ident : tactic => `(tactic| (
  cases $h:ident with
  | cmt hc => obtain ⟨r, hr⟩ := isIn_comment hc; subst hr; lead_simp
  | grp => lead_simp
  | kw ht h1 h2 => rcases ht with ht | ht <;> subst ht <;> lead_simp <;> simp_all))

theorem typecasts_inert {u : Text → Text} {x : Node} (h : LeadElt u x) : (cfgTypecasts u).isMatch x = false := by
  simp only [cfgTypecasts]; lead_cases h
theorem tzcasts_inert {u : Text → Text} {x : Node} (h : LeadElt u x) : (cfgTzcasts u).isMatch x = false := by
  simp only [cfgTzcasts]; lead_cases h
theorem typedLiteral0_inert {u : Text → Text} {x : Node} (h : LeadElt u x) :
    (cfgTypedLiteral0 u).isMatch x = false := by
  simp only [cfgTypedLiteral0]; lead_cases h
theorem typedLiteral1_inert {u : Text → Text} {x : Node} (h : LeadElt u x) :
    (cfgTypedLiteral1 u).isMatch x = false := by
  simp only [cfgTypedLiteral1]; lead_cases h
theorem period_inert {u : Text → Text} {x : Node} (h : LeadElt u x) : (cfgPeriod u).isMatch x = false := by
  simp only [cfgPeriod]; lead_cases h
theorem as_inert {u : Text → Text} {x : Node} (h : LeadElt u x) : (cfgAs u).isMatch x = false := by
  simp only [cfgAs]; lead_cases h
theorem comparison_inert {u : Text → Text} {x : Node} (h : LeadElt u x) : (cfgComparison u).isMatch x = false := by
  simp only [cfgComparison]; lead_cases h
theorem arrays_inert {u : Text → Text} {x : Node} (h : LeadElt u x) : (cfgArrays u).isMatch x = false := by
  simp only [cfgArrays]; lead_cases h
theorem operator_inert {u : Text → Text} {x : Node} (h : LeadElt u x) : (cfgOperator u).isMatch x = false := by
  simp only [cfgOperator]; lead_cases h
theorem identifierList_inert {u : Text → Text} {x : Node} (h : LeadElt u x) :
    (cfgIdentifierList u).isMatch x = false := by
  simp only [cfgIdentifierList]; lead_cases h

/-! ### the leading keyword is not a valid `prev_` -/
macro "kw_simp" ht:ident : tactic => `(tactic| (rcases $ht:ident with ht | ht <;> subst ht <;> lead_simp <;> simp_all))

theorem period_prevK {u : Text → Text} {tt : TType} {v : Text} (ht : tt = T.DML ∨ tt = T.DDL) :
    (cfgPeriod u).validPrev (Node.tok tt v) = false := by
  simp only [cfgPeriod]; kw_simp ht

theorem as_prevK {u : Text → Text} {tt : TType} {v : Text} (ht : tt = T.DML ∨ tt = T.DDL) (h1 : u v ≠ txt "NULL") :
    (cfgAs u).validPrev (Node.tok tt v) = false := by
  simp only [cfgAs]; kw_simp ht

theorem comparison_prevK {u : Text → Text} {tt : TType} {v : Text} (ht : tt = T.DML ∨ tt = T.DDL)
    (h1 : u v ≠ txt "NULL") : (cfgComparison u).validPrev (Node.tok tt v) = false := by
  simp only [cfgComparison]; kw_simp ht

theorem arrays_prevK {u : Text → Text} {tt : TType} {v : Text} (ht : tt = T.DML ∨ tt = T.DDL) :
    (cfgArrays u).validPrev (Node.tok tt v) = false := by
  simp only [cfgArrays]; kw_simp ht

theorem operator_prevK {u : Text → Text} {tt : TType} {v : Text} (ht : tt = T.DML ∨ tt = T.DDL) :
    (cfgOperator u).validPrev (Node.tok tt v) = false := by
  simp only [cfgOperator]; kw_simp ht

theorem identifierList_prevK {u : Text → Text} {tt : TType} {v : Text} (ht : tt = T.DML ∨ tt = T.DDL) :
    (cfgIdentifierList u).validPrev (Node.tok tt v) = false := by
  simp only [cfgIdentifierList]; kw_simp ht

theorem fromT_typedLiteral0 (u) : FromT (cfgTypedLiteral0 u) := by
  intro cur p t n r h
  change postTokNext cur p t n = .ok r at h
  unfold postTokNext at h
  cases n with
  | none => cases h
  | some n' => cases h; rfl

theorem fromT_typedLiteral1 (u) : FromT (cfgTypedLiteral1 u) := by
  intro cur p t n r h
  change postTokNext cur p t n = .ok r at h
  unfold postTokNext at h
  cases n with
  | none => cases h
  | some n' => cases h; rfl

/-- the children that must not follow the leading keyword: the `::` punctuation and a `Keyword.TZCast` leaf
(`group_typecasts` / `group_tzcasts` take *any* previous token) -/
def badSecond (u : Text → Text) (x : Node) : Bool :=
  (cfgTypecasts u).isMatch x || (cfgTzcasts u).isMatch x

theorem badSecond_grp (u : Text → Text) : BadLeaf (badSecond u) := by
  intro c k
  simp [badSecond, cfgTypecasts, cfgTzcasts, Node.matchAny, Node.matchP, Node.match, Node.ttype?]

theorem badSecond_stable (u : Text → Text) : BadStable (badSecond u) := by
  intro x x' hrel hw hb
  rcases hrel with rfl | hg | rfl
  · exact ⟨hw, hb⟩
  · cases x' with
    | tok _ _ => cases hg
    | grp c k => exact ⟨rfl, badSecond_grp u c k⟩
  · cases x with
    | grp c k => exact ⟨hw, hb⟩
    | tok tt v =>
      refine ⟨by simp (config := { decide := true }) [Node.setTType, Node.isWhitespace, TType.isIn, T.Operator, T.Whitespace], ?_⟩
      simp (config := { decide := true }) [badSecond, cfgTypecasts, cfgTzcasts, Node.setTType, Node.matchAny, Node.matchP,
        Node.match, Node.ttype?, T.Operator, Gen.group_typecasts_match0, Gen.group_tzcasts_ttype_cmp0]

/-! ### `PostAl3` -/
theorem PostAl3.of_id {cfg : DrvCfg}
    (h : ∀ cur p t n r, cfg.post cur p t n = .ok r →
      r.1 = cur ∧ (r.2.1 = p ∨ r.2.1 = t) ∧ (r.2.2 = t ∨ ∃ n', n = some n' ∧ r.2.2 = n')) : PostAl3 cfg := by
  refine ⟨?_⟩
  intro cur p t n r hp
  obtain ⟨h1, h2, h3⟩ := h _ _ _ _ _ hp
  exact ⟨h2, h3, by rw [h1], by rw [h1], fun s _ => by rw [h1]; exact PrefRel.refl _ _⟩

theorem postPrevNext_al3 {cur : List Node} {p t : Nat} {n : Option Nat} {r : List Node × Nat × Nat}
    (h : postPrevNext cur p t n = .ok r) :
    r.1 = cur ∧ (r.2.1 = p ∨ r.2.1 = t) ∧ (r.2.2 = t ∨ ∃ n', n = some n' ∧ r.2.2 = n') := by
  unfold postPrevNext at h
  cases n with
  | none => cases h
  | some n' => cases h; exact ⟨rfl, Or.inl rfl, Or.inr ⟨n', rfl, rfl⟩⟩

theorem postTokNext_al3 {cur : List Node} {p t : Nat} {n : Option Nat} {r : List Node × Nat × Nat}
    (h : postTokNext cur p t n = .ok r) :
    r.1 = cur ∧ (r.2.1 = p ∨ r.2.1 = t) ∧ (r.2.2 = t ∨ ∃ n', n = some n' ∧ r.2.2 = n') := by
  unfold postTokNext at h
  cases n with
  | none => cases h
  | some n' => cases h; exact ⟨rfl, Or.inr rfl, Or.inr ⟨n', rfl, rfl⟩⟩

theorem postAl3_typecasts (u) : PostAl3 (cfgTypecasts u) := .of_id fun _ _ _ _ _ h => postPrevNext_al3 h
theorem postAl3_tzcasts (u) : PostAl3 (cfgTzcasts u) := .of_id fun _ _ _ _ _ h => postPrevNext_al3 h
theorem postAl3_typedLiteral0 (u) : PostAl3 (cfgTypedLiteral0 u) := .of_id fun _ _ _ _ _ h => postTokNext_al3 h
theorem postAl3_typedLiteral1 (u) : PostAl3 (cfgTypedLiteral1 u) := .of_id fun _ _ _ _ _ h => postTokNext_al3 h
theorem postAl3_as (u) : PostAl3 (cfgAs u) := .of_id fun _ _ _ _ _ h => postPrevNext_al3 h
theorem postAl3_comparison (u) : PostAl3 (cfgComparison u) := .of_id fun _ _ _ _ _ h => postPrevNext_al3 h
theorem postAl3_identifierList (u) : PostAl3 (cfgIdentifierList u) := .of_id fun _ _ _ _ _ h => postPrevNext_al3 h

theorem postAl3_arrays (u) : PostAl3 (cfgArrays u) := .of_id fun cur p t n r h => by
  change postPrevTok cur p t n = .ok r at h
  cases h; exact ⟨rfl, Or.inl rfl, Or.inl rfl⟩

theorem postAl3_period (u) : PostAl3 (cfgPeriod u) := .of_id fun cur p t n r h => by
  change postPeriod u cur p t n = .ok r at h
  unfold postPeriod at h
  cases n with
  | none => cases h; exact ⟨rfl, Or.inl rfl, Or.inl rfl⟩
  | some n' =>
    simp only at h
    split at h
    · cases h
    · split at h
      · cases h; exact ⟨rfl, Or.inl rfl, Or.inr ⟨n', rfl, rfl⟩⟩
      · cases h; exact ⟨rfl, Or.inl rfl, Or.inl rfl⟩

theorem postAl3_operator (u) : PostAl3 (cfgOperator u) := by
  refine ⟨?_⟩
  intro cur p t n r h
  change postOperator cur p t n = .ok r at h
  unfold postOperator at h
  cases hx : cur[t]? with
  | none => simp [hx] at h
  | some x =>
    simp only [hx] at h
    cases n with
    | none => cases h
    | some n' =>
      cases h
      refine ⟨Or.inl rfl, Or.inr ⟨n', rfl, rfl⟩, by simp, ?_, fun s hs => retype_prefRel hx hs⟩
      simp only
      rw [List.drop_set_of_lt (by omega)]

end Sql
