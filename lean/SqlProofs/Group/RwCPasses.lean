import SqlProofs.Group.RwC
/-!
# SqlProofs.Group.RwCPasses — every pass except `group_comments` and `align_comments` is a strict sequence (`RwC`)
-/
namespace Sql

theorem groupTokens_rwC {mt : Bool} {ks ks' : List Node} {cls : Cls} {a b : Nat} {ie ext : Bool}
    (h : groupTokens ks cls a b ie ext = .ok ks') (h1 : cls ≠ .Comment) (h2 : cls ≠ .TokenList)
    (h3 : mt = true ∨ sixCls cls = false) : RwC mt ks ks' := by
  obtain ⟨r, hr, rfl⟩ := groupTokens_eq h
  exact .group hr h1 h2 h3

def KidsRwC (mt : Bool) (f : Cls → List Node → Except PyErr (List Node)) : Prop :=
  ∀ c ks ks', f c ks = .ok ks' → RwC mt ks ks'

def PassRwC (mt : Bool) (p : Pass) : Prop := ∀ fuel, KidsRwC mt (p fuel)

theorem mapGroups_rwC {mt : Bool} {elig : Node → Bool} {f} (hf : KidsRwC mt f) :
    ∀ ks ks', mapGroups elig f ks = .ok ks' → RwC mt ks ks' := by
  intro ks
  induction ks with
  | nil => intro ks' h; simp [mapGroups] at h; subst h; exact .refl _
  | cons k rest ih =>
    intro ks' h
    cases k with
    | tok tt v =>
      simp only [mapGroups] at h
      cases hr : mapGroups elig f rest with
      | error e => simp [hr] at h
      | ok rest' =>
        simp only [hr, Except.ok.injEq] at h
        subst h
        exact (ih _ hr).cons _
    | grp c kids =>
      simp only [mapGroups] at h
      by_cases he : elig (.grp c kids) = true
      · rw [if_pos he] at h
        cases hk : f c kids with
        | error e => simp [hk] at h
        | ok kids' =>
          simp only [hk] at h
          cases hr : mapGroups elig f rest with
          | error e => simp [hr] at h
          | ok rest' =>
            simp only [hr, Except.ok.injEq] at h
            subst h
            exact .trans (RwC.head rest (hf _ _ _ hk)) ((ih _ hr).cons _)
      · rw [if_neg he] at h
        cases hr : mapGroups elig f rest with
        | error e => simp [hr] at h
        | ok rest' =>
          simp only [hr, Except.ok.injEq] at h
          subst h
          exact (ih _ hr).cons _

theorem mapGroupsWhere_rwC {mt : Bool} {f} (hf : KidsRwC mt f) :
    ∀ bs ks ks', mapGroupsWhere f bs ks = .ok ks' → RwC mt ks ks' := by
  intro bs ks
  induction ks generalizing bs with
  | nil => intro ks' h; simp [mapGroupsWhere] at h; subst h; exact .refl _
  | cons k rest ih =>
    intro ks' h
    cases bs with
    | nil => simp [mapGroupsWhere] at h; subst h; exact .refl _
    | cons b bs =>
      cases k with
      | tok tt v =>
        simp only [mapGroupsWhere] at h
        cases hr : mapGroupsWhere f bs rest with
        | error e => simp [hr] at h
        | ok rest' =>
          simp only [hr, Except.ok.injEq] at h
          subst h
          exact (ih _ _ hr).cons _
      | grp c kids =>
        simp only [mapGroupsWhere] at h
        by_cases hb : b = true
        · rw [if_pos hb] at h
          cases hk : f c kids with
          | error e => simp [hk] at h
          | ok kids' =>
            simp only [hk] at h
            cases hr : mapGroupsWhere f bs rest with
            | error e => simp [hr] at h
            | ok rest' =>
              simp only [hr, Except.ok.injEq] at h
              subst h
              exact .trans (RwC.head rest (hf _ _ _ hk)) ((ih _ _ hr).cons _)
        · rw [if_neg hb] at h
          cases hr : mapGroupsWhere f bs rest with
          | error e => simp [hr] at h
          | ok rest' =>
            simp only [hr, Except.ok.injEq] at h
            subst h
            exact (ih _ _ hr).cons _

theorem recursePass_rwC {mt : Bool} {skip : List Cls} {f} (hf : KidsRwC mt f) : PassRwC mt (recursePass skip f) := by
  intro fuel
  induction fuel with
  | zero => intro c ks ks' h; simp [recursePass] at h
  | succ n ih =>
    intro c ks ks' h
    simp only [recursePass] at h
    cases hm : mapGroups (fun k => !k.isInstAny skip) (recursePass skip f n) ks with
    | error e => simp [hm] at h
    | ok ks1 =>
      simp only [hm] at h
      exact .trans (mapGroups_rwC ih _ _ hm) (hf _ _ _ h)

theorem adHocPass_rwC {mt : Bool} (skip : Option (List Cls)) {body} (hb : KidsRwC mt body) :
    PassRwC mt (adHocPass skip body) := by
  unfold adHocPass
  split
  · exact recursePass_rwC hb
  · exact fun _ => hb

/-! ### the loop passes -/
macro "rwc_step" h:ident ih:ident : tactic => `(tactic| (
  repeat' (split at $h:ident)
  all_goals first
    | (cases $h:ident; done)
    | (cases $h:ident; exact RwC.refl _)
    | exact $ih _ _ _ $h
    | (refine RwC.trans (groupTokens_rwC ‹_› (by decide) (by decide) (Or.inr (by decide))) ($ih _ _ _ $h))))

macro "loop_rwc" f:ident : tactic => `(tactic| (
  intro n
  induction n with
  | zero =>
    intro ks pend ks' h
    cases pend with
    | none => simp [$f:ident] at h; subst h; exact RwC.refl _
    | some p => simp [$f:ident] at h
  | succ n ih =>
    intro ks pend ks' h
    cases pend with
    | none => simp [$f:ident] at h; subst h; exact RwC.refl _
    | some p =>
      obtain ⟨tidx, tok⟩ := p
      simp only [$f:ident] at h
      rwc_step h ih))

theorem identifierLoop_rwC {u : Text → Text} : ∀ (n : Nat) (ks : List Node) (pend : Option (Nat × Node))
    (ks' : List Node), identifierLoop u n ks pend = .ok ks' → RwC false ks ks' := by
  loop_rwc identifierLoop
theorem overLoop_rwC {u : Text → Text} : ∀ (n : Nat) (ks : List Node) (pend : Option (Nat × Node))
    (ks' : List Node), overLoop u n ks pend = .ok ks' → RwC false ks ks' := by
  loop_rwc overLoop
theorem whereLoop_rwC {u : Text → Text} {c : Cls} : ∀ (n : Nat) (ks : List Node) (pend : Option (Nat × Node))
    (ks' : List Node), whereLoop u c n ks pend = .ok ks' → RwC false ks ks' := by
  loop_rwc whereLoop
theorem aliasedLoop_rwC {u : Text → Text} : ∀ (n : Nat) (ks : List Node) (pend : Option (Nat × Node))
    (ks' : List Node), aliasedLoop u n ks pend = .ok ks' → RwC false ks ks' := by
  loop_rwc aliasedLoop
theorem functionsLoop_rwC {u : Text → Text} : ∀ (n : Nat) (ks : List Node) (pend : Option (Nat × Node))
    (ks' : List Node), functionsLoop u n ks pend = .ok ks' → RwC false ks ks' := by
  loop_rwc functionsLoop
theorem orderLoop_rwC {u : Text → Text} : ∀ (n : Nat) (ks : List Node) (pend : Option (Nat × Node))
    (ks' : List Node), orderLoop u n ks pend = .ok ks' → RwC false ks ks' := by
  loop_rwc orderLoop

theorem groupFunctionsBody_rwC (u : Text → Text) : KidsRwC false (groupFunctionsBody u) := by
  intro c ks ks' h
  unfold groupFunctionsBody at h
  split at h
  · cases h; exact .refl _
  · exact functionsLoop_rwC _ _ _ _ h

theorem groupValuesBody_rwC (u : Text → Text) : KidsRwC false (groupValuesBody u) := by
  intro c ks ks' h
  unfold groupValuesBody at h
  split at h
  · cases h; exact .refl _
  · split at h
    · cases h
    · cases h; exact .refl _
    · exact groupTokens_rwC h (by decide) (by decide) (Or.inr (by decide))

/-! ### `_group_matching` -/
theorem matchStep_rwC {u : Text → Text} {cls : Cls} {mOpen mClose : List MPat} (h1 : cls ≠ .Comment)
    (h2 : cls ≠ .TokenList) {st st' : MatchSt} {idx : Nat} {token : Node}
    (h : matchStep u cls mOpen mClose st idx token = .ok st') : RwC true st.cur st'.cur := by
  unfold matchStep at h
  simp only at h
  split at h
  · cases h; exact .refl _
  · split at h
    · cases h; exact .refl _
    · split at h
      · cases h; exact .refl _
      · split at h
        · split at h
          · cases h; exact .refl _
          · split at h
            · cases h
            · rename_i cur' hg
              cases h
              exact groupTokens_rwC hg h1 h2 (Or.inl rfl)
        · cases h; exact .refl _

theorem matchLoop_rwC {u : Text → Text} {cls : Cls} {mOpen mClose : List MPat} (h1 : cls ≠ .Comment)
    (h2 : cls ≠ .TokenList) : ∀ (snap : List Node) (idx : Nat) (st st' : MatchSt),
      matchLoop u cls mOpen mClose snap idx st = .ok st' → RwC true st.cur st'.cur := by
  intro snap
  induction snap with
  | nil => intro idx st st' h; simp [matchLoop] at h; subst h; exact .refl _
  | cons token snap ih =>
    intro idx st st' h
    simp only [matchLoop] at h
    cases hs : matchStep u cls mOpen mClose st idx token with
    | error e => simp [hs] at h
    | ok st1 =>
      simp only [hs] at h
      exact .trans (matchStep_rwC h1 h2 hs) (ih _ _ _ h)

theorem groupMatching_rwC {u : Text → Text} {cls : Cls} {mOpen mClose : List MPat} (h1 : cls ≠ .Comment)
    (h2 : cls ≠ .TokenList) : ∀ (fuel : Nat), KidsRwC true (fun _ ks => groupMatching u cls mOpen mClose fuel ks) := by
  intro fuel
  induction fuel with
  | zero => intro c ks ks' h; simp [groupMatching] at h
  | succ n ih =>
    intro c ks ks' h
    simp only [groupMatching] at h
    cases hm : mapGroups (fun k => !k.isInst cls) (fun _ kids => groupMatching u cls mOpen mClose n kids) ks with
    | error e => simp [hm] at h
    | ok ks1 =>
      simp only [hm] at h
      cases hl : matchLoop u cls mOpen mClose ks1 0 { cur := ks1, opens := [], off := 0 } with
      | error e => simp [hl] at h
      | ok st =>
        simp only [hl, Except.ok.injEq] at h
        subst h
        exact .trans (mapGroups_rwC ih _ _ hm) (matchLoop_rwC h1 h2 _ _ _ _ hl)

theorem matchingPassOf_rwC (u : Text → Text) (c : Cls) : PassRwC true (matchingPassOf u c) := by
  intro fuel
  cases c <;> first
    | exact groupMatching_rwC (by decide) (by decide) fuel
    | (intro c' ks ks' h; simp [matchingPassOf, matchingTables, unknownPass] at h)

/-! ### `_group` with a `post` that leaves the list alone -/
structure PostId (cfg : DrvCfg) : Prop where
  notC : cfg.cls ≠ .Comment
  notTL : cfg.cls ≠ .TokenList
  notSix : sixCls cfg.cls = false
  post : ∀ cur p t n r, cfg.post cur p t n = .ok r → r.1 = cur

theorem drvStep_rwC {cfg : DrvCfg} (hp : PostId cfg) {st st' : DrvSt} {idx : Nat} {token : Node}
    (h : drvStep cfg st idx token = .ok st') : RwC false st.cur st'.cur := by
  unfold drvStep at h
  split at h
  · cases h; exact .refl _
  · simp only at h
    split at h
    · cases h; exact .refl _
    · split at h
      · split at h
        · cases h; exact .refl _
        · split at h
          · split at h
            · cases h
            · rename_i cur1 fromIdx toIdx hpost
              split at h
              · cases h
              · rename_i cur2 grp hg
                cases h
                have := hp.post _ _ _ _ _ hpost
                simp only at this
                subst this
                exact .group hg hp.notC hp.notTL (Or.inr hp.notSix)
          · cases h; exact .refl _
      · cases h; exact .refl _

theorem drvLoop_rwC {cfg : DrvCfg} (hp : PostId cfg) :
    ∀ (snap : List Node) (idx : Nat) (st st' : DrvSt), drvLoop cfg snap idx st = .ok st' → RwC false st.cur st'.cur := by
  intro snap
  induction snap with
  | nil => intro idx st st' h; simp [drvLoop] at h; subst h; exact .refl _
  | cons token snap ih =>
    intro idx st st' h
    simp only [drvLoop] at h
    cases hs : drvStep cfg st idx token with
    | error e => simp [hs] at h
    | ok st1 =>
      simp only [hs] at h
      exact .trans (drvStep_rwC hp hs) (ih _ _ _ h)

/-- a configuration whose parent-level loop is a strict sequence from the initial state -/
def LoopRwC (cfg : DrvCfg) : Prop :=
  ∀ ks st, drvLoop cfg ks 0 (drvInit ks) = .ok st → RwC false ks st.cur

theorem groupDriver_rwC_aux : ∀ (fuel : Nat) (cfg : DrvCfg), LoopRwC cfg → LoopRwC { cfg with recurse := true } →
    KidsRwC false (fun _ ks => groupDriver cfg fuel ks) := by
  intro fuel
  induction fuel with
  | zero => intro cfg _ _ c ks ks' h; simp [groupDriver] at h
  | succ n ih =>
    intro cfg hl hl' c ks ks' h
    simp only [groupDriver] at h
    split at h
    · cases hd : drvLoop cfg ks 0 (drvInit ks) with
      | error e => simp [hd] at h
      | ok dry =>
        simp only [hd] at h
        cases hm : mapGroupsWhere (fun _ kids => groupDriver { cfg with recurse := true } n kids)
            (drvEligible cfg.cls dry.reached.reverse ks) ks with
        | error e => simp [hm] at h
        | ok ks1 =>
          simp only [hm] at h
          cases hlp : drvLoop cfg ks1 0 (drvInit ks1) with
          | error e => simp [hlp] at h
          | ok st =>
            simp only [hlp, Except.ok.injEq] at h
            subst h
            exact .trans (mapGroupsWhere_rwC (ih _ hl' hl') _ _ _ hm) (hl _ _ hlp)
    · cases hlp : drvLoop cfg ks 0 (drvInit ks) with
      | error e => simp [hlp] at h
      | ok st =>
        simp only [hlp, Except.ok.injEq] at h
        subst h
        exact hl _ _ hlp

theorem loopRwC_of_postId {cfg : DrvCfg} (hp : PostId cfg) : LoopRwC cfg :=
  fun ks st h => drvLoop_rwC hp _ _ _ _ h

theorem driverPass_rwC_id {cfg : DrvCfg} (hp : PostId cfg) : PassRwC false (driverPass cfg) :=
  fun fuel => groupDriver_rwC_aux fuel cfg (loopRwC_of_postId hp)
    (loopRwC_of_postId (cfg := { cfg with recurse := true }) ⟨hp.notC, hp.notTL, hp.notSix, hp.post⟩)

theorem postId_typecasts (u) : PostId (cfgTypecasts u) :=
  ⟨(by intro h; cases h), (by intro h; cases h), rfl, fun _ _ t _ _ h => postPrevNext_id (t := t) h⟩
theorem postId_tzcasts (u) : PostId (cfgTzcasts u) :=
  ⟨(by intro h; cases h), (by intro h; cases h), rfl, fun _ _ t _ _ h => postPrevNext_id (t := t) h⟩
theorem postId_typedLiteral0 (u) : PostId (cfgTypedLiteral0 u) :=
  ⟨(by intro h; cases h), (by intro h; cases h), rfl, fun _ p _ _ _ h => postTokNext_id (p := p) h⟩
theorem postId_typedLiteral1 (u) : PostId (cfgTypedLiteral1 u) :=
  ⟨(by intro h; cases h), (by intro h; cases h), rfl, fun _ p _ _ _ h => postTokNext_id (p := p) h⟩
theorem postId_period (u) : PostId (cfgPeriod u) :=
  ⟨(by intro h; cases h), (by intro h; cases h), rfl, fun _ _ _ _ _ h => postPeriod_id h⟩
theorem postId_as (u) : PostId (cfgAs u) :=
  ⟨(by intro h; cases h), (by intro h; cases h), rfl, fun _ _ t _ _ h => postPrevNext_id (t := t) h⟩
theorem postId_assignment (u) : PostId (cfgAssignment u) :=
  ⟨(by intro h; cases h), (by intro h; cases h), rfl, fun _ _ t _ _ h => postAssignment_id (t := t) h⟩
theorem postId_comparison (u) : PostId (cfgComparison u) :=
  ⟨(by intro h; cases h), (by intro h; cases h), rfl, fun _ _ t _ _ h => postPrevNext_id (t := t) h⟩
theorem postId_arrays (u) : PostId (cfgArrays u) :=
  ⟨(by intro h; cases h), (by intro h; cases h), rfl, fun _ _ _ n _ h => postPrevTok_id (n := n) h⟩
theorem postId_identifierList (u) : PostId (cfgIdentifierList u) :=
  ⟨(by intro h; cases h), (by intro h; cases h), rfl, fun _ _ t _ _ h => postPrevNext_id (t := t) h⟩

/-! ### `group_operator`: the re-typed child is the matched token -/
theorem drvStep_rwC_operator {u : Text → Text} {st st' : DrvSt} {idx : Nat} {token : Node} {tl : List Node}
    (hinv : OpInv (cfgOperator u) (token :: tl) idx st) (h : drvStep (cfgOperator u) st idx token = .ok st') :
    RwC false st.cur st'.cur := by
  unfold drvStep at h
  split at h
  · cases h; exact .refl _
  · rename_i hneg
    simp only at h
    split at h
    · cases h; exact .refl _
    · split at h
      · rename_i hmatch
        split at h
        · cases h; exact .refl _
        · split at h
          · split at h
            · cases h
            · rename_i cur1 fromIdx toIdx hpost
              split at h
              · cases h
              · rename_i cur2 grp hg
                cases h
                -- the list handed to `post` has the matched token at `tidx`
                have hal := hinv.2 0 token (by simp) (by simp) hmatch
                simp only [Int.natCast_zero, Int.add_zero] at hal
                have hx := hal.2
                change postOperator st.cur _ _ _ = .ok (cur1, fromIdx, toIdx) at hpost
                unfold postOperator at hpost
                rw [hx] at hpost
                simp only at hpost
                split at hpost
                · cases hpost
                · cases hpost
                  obtain ⟨v, hv⟩ := operator_isMatch_cases hmatch
                  refine .trans ?_ (.group hg (by intro h; cases h) (by intro h; cases h) (Or.inr rfl))
                  rcases hv with rfl | rfl
                  · exact .retype (Or.inl hx)
                  · exact .retype (Or.inr hx)
          · cases h; exact .refl _
      · cases h; exact .refl _

theorem drvLoop_rwC_operator {u : Text → Text} :
    ∀ (snap : List Node) (idx : Nat) (st st' : DrvSt), OpInv (cfgOperator u) snap idx st →
      drvLoop (cfgOperator u) snap idx st = .ok st' → RwC false st.cur st'.cur := by
  intro snap
  induction snap with
  | nil => intro idx st st' _ h; simp [drvLoop] at h; subst h; exact .refl _
  | cons token snap ih =>
    intro idx st st' hinv h
    simp only [drvLoop] at h
    cases hs : drvStep (cfgOperator u) st idx token with
    | error e => simp [hs] at h
    | ok st1 =>
      simp only [hs] at h
      have hinv1 : OpInv (cfgOperator u) snap (idx + 1) st1 :=
        ⟨drvStep_A2 (postAl2_operator u) hinv.1 hs, drvStep_matchAligned (opCfg_operator u) hinv.1 hinv.2 hs⟩
      exact .trans (drvStep_rwC_operator hinv hs) (ih _ _ _ hinv1 h)

theorem loopRwC_operator (u : Text → Text) : LoopRwC (cfgOperator u) :=
  fun ks st h => drvLoop_rwC_operator _ _ _ _ ⟨aInv2_init ks, matchAligned_init _ ks⟩ h

theorem driverPass_rwC_operator (u : Text → Text) : PassRwC false (driverPass (cfgOperator u)) :=
  fun fuel => groupDriver_rwC_aux fuel _ (loopRwC_operator u) (loopRwC_operator u)

theorem typedLiteralPass_rwC (u : Text → Text) : PassRwC false (typedLiteralPass u) := by
  intro fuel c ks ks' h
  unfold typedLiteralPass at h
  split at h
  · cases h
  · rename_i ks1 h1
    exact .trans (driverPass_rwC_id (postId_typedLiteral0 u) fuel c _ _ h1)
      (driverPass_rwC_id (postId_typedLiteral1 u) fuel c _ _ h)

end Sql
