import SqlProofs.Group.Rw
import SqlProofs.Group.DriverPasses
/-!
# SqlProofs.Group.RwPasses — the `_group` passes and `passByName` as `Rw` sequences
-/
namespace Sql

/-- the hypothesis on a `_group` configuration -/
structure PostRw (cfg : DrvCfg) : Prop where
  plain : plainCls cfg.cls = true
  post : ∀ cur p t n r, cfg.post cur p t n = .ok r → Rw false cur r.1

theorem drvStep_rw {cfg : DrvCfg} (hp : PostRw cfg) {st st' : DrvSt} {idx : Nat} {token : Node}
    (h : drvStep cfg st idx token = .ok st') : Rw false st.cur st'.cur := by
  unfold drvStep at h
  split at h
  · cases h; exact .refl _
  · simp only at h
    split at h
    · cases h; exact .refl _
    · split at h
      · split at h
        · cases h; exact .refl _
        · split at h
          · split at h
            · cases h
            · rename_i cur1 fromIdx toIdx hpost
              split at h
              · cases h
              · rename_i cur2 grp hg
                cases h
                exact .trans (hp.post _ _ _ _ _ hpost) (.group hg hp.plain)
          · cases h; exact .refl _
      · cases h; exact .refl _

theorem drvLoop_rw {cfg : DrvCfg} (hp : PostRw cfg) :
    ∀ (snap : List Node) (idx : Nat) (st st' : DrvSt), drvLoop cfg snap idx st = .ok st' → Rw false st.cur st'.cur := by
  intro snap
  induction snap with
  | nil => intro idx st st' h; simp [drvLoop] at h; subst h; exact .refl _
  | cons token snap ih =>
    intro idx st st' h
    simp only [drvLoop] at h
    cases hs : drvStep cfg st idx token with
    | error e => simp [hs] at h
    | ok st1 =>
      simp only [hs] at h
      exact .trans (drvStep_rw hp hs) (ih _ _ _ h)

theorem groupDriver_rw_aux : ∀ (fuel : Nat) (cfg : DrvCfg), PostRw cfg →
    KidsRw false (fun _ ks => groupDriver cfg fuel ks) := by
  intro fuel
  induction fuel with
  | zero => intro cfg _ c ks ks' h; simp [groupDriver] at h
  | succ n ih =>
    intro cfg hp c ks ks' h
    simp only [groupDriver] at h
    split at h
    · cases hd : drvLoop cfg ks 0 (drvInit ks) with
      | error e => simp [hd] at h
      | ok dry =>
        simp only [hd] at h
        cases hm : mapGroupsWhere (fun _ kids => groupDriver { cfg with recurse := true } n kids)
            (drvEligible cfg.cls dry.reached.reverse ks) ks with
        | error e => simp [hm] at h
        | ok ks1 =>
          simp only [hm] at h
          cases hl : drvLoop cfg ks1 0 (drvInit ks1) with
          | error e => simp [hl] at h
          | ok st =>
            simp only [hl, Except.ok.injEq] at h
            subst h
            have hp' : PostRw { cfg with recurse := true } := ⟨hp.plain, hp.post⟩
            exact .trans (mapGroupsWhere_rw (ih _ hp') _ _ _ hm) (drvLoop_rw hp _ _ _ _ hl)
    · cases hl : drvLoop cfg ks 0 (drvInit ks) with
      | error e => simp [hl] at h
      | ok st =>
        simp only [hl, Except.ok.injEq] at h
        subst h
        exact drvLoop_rw hp _ _ _ _ hl

theorem driverPass_rw {cfg : DrvCfg} (hp : PostRw cfg) : PassRw false (driverPass cfg) :=
  fun fuel => groupDriver_rw_aux fuel cfg hp

theorem PostRw.of_id {cfg : DrvCfg} (hpl : plainCls cfg.cls = true)
    (h : ∀ cur p t n r, cfg.post cur p t n = .ok r → r.1 = cur) : PostRw cfg :=
  ⟨hpl, fun cur p t n r hp => by rw [h _ _ _ _ _ hp]; exact .refl _⟩

theorem postRw_typecasts (u) : PostRw (cfgTypecasts u) := .of_id rfl fun _ _ t _ _ h => postPrevNext_id (t := t) h
theorem postRw_tzcasts (u) : PostRw (cfgTzcasts u) := .of_id rfl fun _ _ t _ _ h => postPrevNext_id (t := t) h
theorem postRw_typedLiteral0 (u) : PostRw (cfgTypedLiteral0 u) := .of_id rfl fun _ p _ _ _ h => postTokNext_id (p := p) h
theorem postRw_typedLiteral1 (u) : PostRw (cfgTypedLiteral1 u) := .of_id rfl fun _ p _ _ _ h => postTokNext_id (p := p) h
theorem postRw_period (u) : PostRw (cfgPeriod u) := .of_id rfl fun _ _ _ _ _ h => postPeriod_id h
theorem postRw_as (u) : PostRw (cfgAs u) := .of_id rfl fun _ _ t _ _ h => postPrevNext_id (t := t) h
theorem postRw_assignment (u) : PostRw (cfgAssignment u) := .of_id rfl fun _ _ t _ _ h => postAssignment_id (t := t) h
theorem postRw_comparison (u) : PostRw (cfgComparison u) := .of_id rfl fun _ _ t _ _ h => postPrevNext_id (t := t) h
theorem postRw_arrays (u) : PostRw (cfgArrays u) := .of_id rfl fun _ _ _ n _ h => postPrevTok_id (n := n) h
theorem postRw_identifierList (u) : PostRw (cfgIdentifierList u) :=
  .of_id rfl fun _ _ t _ _ h => postPrevNext_id (t := t) h

theorem postRw_operator (u) : PostRw (cfgOperator u) := by
  refine ⟨rfl, ?_⟩
  intro cur p t n r h
  change postOperator cur p t n = .ok r at h
  unfold postOperator at h
  cases hx : cur[t]? with
  | none => simp [hx] at h
  | some x =>
    simp only [hx] at h
    cases n with
    | none => cases h
    | some n' => cases h; exact .retype hx

/-! ### `passByName` -/
theorem PassRw.weaken {al : Bool} {p : Pass} (h : PassRw false p) : PassRw al p := by
  cases al with
  | false => exact h
  | true => exact fun fuel c ks ks' hk => (h fuel c ks ks' hk).mono

theorem unknownPass_rw {al : Bool} : PassRw al unknownPass := by
  intro fuel c ks ks' h
  simp [unknownPass] at h

theorem adHocPass_rw {al : Bool} (skip : Option (List Cls)) {body} (hb : KidsRw al body) :
    PassRw al (adHocPass skip body) := by
  unfold adHocPass
  split
  · exact recursePass_rw hb
  · exact fun _ => hb

theorem typedLiteralPass_rw (u : Text → Text) : PassRw false (typedLiteralPass u) := by
  intro fuel c ks ks' h
  unfold typedLiteralPass at h
  split at h
  · cases h
  · rename_i ks1 h1
    exact .trans (groupDriver_rw_aux fuel _ (postRw_typedLiteral0 u) c _ _ h1)
      (groupDriver_rw_aux fuel _ (postRw_typedLiteral1 u) c _ _ h)

/-- the names of the six `_group_matching` wrappers -/
def isMatchingName (name : String) : Bool :=
  ["group_brackets", "group_parenthesis", "group_case", "group_if", "group_for", "group_begin"].contains name

theorem PassRw.ite' {al : Bool} {c : Prop} [Decidable c] {a b : Pass} (ha : c → PassRw al a) (hb : ¬c → PassRw al b) :
    PassRw al (if c then a else b) := by
  by_cases h : c
  · rw [if_pos h]; exact ha h
  · rw [if_neg h]; exact hb h

/-- every pass other than the six matching passes is an `Rw` sequence; only `align_comments` uses `align` steps -/
theorem passByName_rw (u : Text → Text) (name : String) (al : Bool) (hm : isMatchingName name = false)
    (hal : name = "align_comments" → al = true) : PassRw al (passByName u name) := by
  unfold passByName
  repeat' (first | apply PassRw.ite' | intro (_ : (_ == _) = true) | intro (_ : ¬ ((_ == _) = true)))
  all_goals first
    | exact unknownPass_rw
    | exact typedLiteralPass_rw _ |>.weaken
    | exact adHocPass_rw _ (fun _ _ _ h => (commentsLoop_rw _ _ _ _ h : Rw false _ _)) |>.weaken
    | exact adHocPass_rw _ (fun _ _ _ h => (overLoop_rw _ _ _ _ h : Rw false _ _)) |>.weaken
    | exact adHocPass_rw _ (groupFunctionsBody_rw u) |>.weaken
    | exact adHocPass_rw _ (fun _ _ _ h => (whereLoop_rw _ _ _ _ h : Rw false _ _)) |>.weaken
    | exact adHocPass_rw _ (fun _ _ _ h => (identifierLoop_rw _ _ _ _ h : Rw false _ _)) |>.weaken
    | exact adHocPass_rw _ (fun _ _ _ h => (orderLoop_rw _ _ _ _ h : Rw false _ _)) |>.weaken
    | exact adHocPass_rw _ (fun _ _ _ h => (aliasedLoop_rw _ _ _ _ h : Rw false _ _)) |>.weaken
    | exact adHocPass_rw _ (groupValuesBody_rw u) |>.weaken
    | exact driverPass_rw (postRw_period u) |>.weaken
    | exact driverPass_rw (postRw_arrays u) |>.weaken
    | exact driverPass_rw (postRw_typecasts u) |>.weaken
    | exact driverPass_rw (postRw_tzcasts u) |>.weaken
    | exact driverPass_rw (postRw_operator u) |>.weaken
    | exact driverPass_rw (postRw_comparison u) |>.weaken
    | exact driverPass_rw (postRw_as u) |>.weaken
    | exact driverPass_rw (postRw_assignment u) |>.weaken
    | exact driverPass_rw (postRw_identifierList u) |>.weaken
    | (have hname : name = "align_comments" := by simp_all
       have : al = true := hal hname
       subst this
       exact adHocPass_rw _ (fun _ _ _ h => alignLoop_rw _ _ _ _ h))
    | (exfalso; simp_all [isMatchingName])

end Sql
