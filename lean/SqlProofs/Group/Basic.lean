import SqlModel.GroupTokens
/-!
# SqlProofs.Group.Basic — leaves and text of a tree; the relation `LeafRel`; `group_tokens` keeps the leaves
-/
namespace Sql

open Node

/-! ### text is the concatenation of the leaf values -/
mutual
theorem Node.text_eq_leaves : (n : Node) → n.text = (n.leaves.map (·.val)).flatten
  | .tok tt v => by simp [Node.text, Node.leaves]
  | .grp c ks => by
    simp only [Node.text, Node.leaves]
    exact text_eq_leaves ks
theorem text_eq_leaves : (ks : List Node) → Node.textL ks = ((Node.leavesL ks).map (·.val)).flatten
  | [] => by simp [Node.textL, Node.leavesL]
  | k :: ks => by
    simp only [Node.textL, Node.leavesL, List.map_append, List.flatten_append]
    rw [Node.text_eq_leaves k, text_eq_leaves ks]
end

@[simp] theorem leavesL_nil : Node.leavesL [] = [] := by simp [Node.leavesL]

@[simp] theorem leavesL_cons (k : Node) (ks : List Node) : Node.leavesL (k :: ks) = k.leaves ++ Node.leavesL ks := by
  simp [Node.leavesL]

@[simp] theorem leaves_grp (c : Cls) (ks : List Node) : (Node.grp c ks).leaves = Node.leavesL ks := by
  simp [Node.leaves]

@[simp] theorem leaves_tok (tt : TType) (v : Text) : (Node.tok tt v).leaves = [⟨tt, v⟩] := by
  simp [Node.leaves]

theorem leavesL_append (a b : List Node) : Node.leavesL (a ++ b) = Node.leavesL a ++ Node.leavesL b := by
  induction a with
  | nil => simp
  | cons k a ih => simp [ih]

/-! ### `LeafRel`: same values in the same order, same types except re-typing to Operator -/

/-- the relation between one leaf before and after grouping -/
def LeafRel1 (a b : Tok) : Prop := a.val = b.val ∧ (a.tt = b.tt ∨ b.tt = T.Operator)

/-- pointwise (`Forall₂ LeafRel1`; core Lean has no `List.Forall₂`): same values in the same order; same types,
except that a token may have been re-typed to Operator -/
inductive LeafRel : List Tok → List Tok → Prop
  | nil : LeafRel [] []
  | cons {a b : Tok} {as bs : List Tok} : LeafRel1 a b → LeafRel as bs → LeafRel (a :: as) (b :: bs)

theorem LeafRel1.refl (a : Tok) : LeafRel1 a a := ⟨rfl, Or.inl rfl⟩

theorem LeafRel1.trans {a b c : Tok} (h1 : LeafRel1 a b) (h2 : LeafRel1 b c) : LeafRel1 a c := by
  refine ⟨h1.1.trans h2.1, ?_⟩
  rcases h2.2 with h | h
  · rcases h1.2 with h' | h'
    · exact Or.inl (h'.trans h)
    · exact Or.inr (h ▸ h')
  · exact Or.inr h

theorem LeafRel.refl (a : List Tok) : LeafRel a a := by
  induction a with
  | nil => exact .nil
  | cons x a ih => exact .cons (LeafRel1.refl x) ih

theorem LeafRel.of_eq {a b : List Tok} (h : a = b) : LeafRel a b := h ▸ LeafRel.refl a

theorem LeafRel.trans {a b c : List Tok} (h1 : LeafRel a b) (h2 : LeafRel b c) : LeafRel a c := by
  induction h1 generalizing c with
  | nil => cases h2; exact .nil
  | cons hab _ ih =>
    cases h2 with
    | cons hbc h2' => exact .cons (hab.trans hbc) (ih h2')

theorem LeafRel.append {a a' b b' : List Tok} (h1 : LeafRel a a') (h2 : LeafRel b b') :
    LeafRel (a ++ b) (a' ++ b') := by
  induction h1 with
  | nil => simpa using h2
  | cons hx _ ih => exact .cons hx ih

/-- related leaf lists spell the same text -/
theorem LeafRel.vals {a b : List Tok} (h : LeafRel a b) : a.map (·.val) = b.map (·.val) := by
  induction h with
  | nil => rfl
  | cons hx _ ih => simp [hx.1, ih]

theorem LeafRel.length {a b : List Tok} (h : LeafRel a b) : a.length = b.length := by
  induction h with
  | nil => rfl
  | cons _ _ ih => simp [ih]

/-- `LeafRel` on the leaves implies equal text -/
theorem textL_eq_of_leafRel {ks ks' : List Node} (h : LeafRel (Node.leavesL ks) (Node.leavesL ks')) :
    Node.textL ks' = Node.textL ks := by
  rw [text_eq_leaves, text_eq_leaves, h.vals]

/-! ### Python slices partition the list -/
theorem pySlice_partition {α : Type} (l : List α) (a b : Nat) :
    l.take a ++ pySlice l a b ++ l.drop (max a b) = l := by
  unfold pySlice
  by_cases h : a ≤ b
  · have h1 : l.take a = (l.take b).take a := by rw [List.take_take]; simp [Nat.min_eq_left h]
    rw [h1, List.take_append_drop, Nat.max_eq_right h, List.take_append_drop]
  · have hb : b ≤ a := Nat.le_of_not_le h
    have : (l.take b).drop a = [] := by
      apply List.drop_eq_nil_of_le
      simp only [List.length_take]
      omega
    rw [this, Nat.max_eq_left hb, List.append_nil, List.take_append_drop]

/-! ### `group_tokens` keeps the leaves -/
theorem groupTokens'_leaves {ks : List Node} {cls : Cls} {a b : Nat} {ie ext : Bool} {r : List Node × Node}
    (h : groupTokens' ks cls a b ie ext = .ok r) : Node.leavesL r.1 = Node.leavesL ks := by
  have hnew : ∀ e, Node.leavesL (ks.take a ++ Node.grp cls (pySlice ks a e) :: ks.drop (max a e)) = Node.leavesL ks := by
    intro e
    conv => rhs; rw [← pySlice_partition ks a e]
    simp [leavesL_append]
  unfold groupTokens' at h
  cases hst : ks[a]? with
  | none => simp [hst] at h
  | some st =>
    simp only [hst] at h
    generalize (b + if ie = true then 1 else 0) = e at h
    cases st with
    | tok tt v =>
      simp only [Except.ok.injEq] at h
      subst h
      exact hnew e
    | grp c kids =>
      simp only at h
      by_cases hc : (ext && (Node.grp c kids).isInst cls) = true
      · rw [if_pos hc] at h
        simp only [Except.ok.injEq] at h
        subst h
        have htake : ks.take (a + 1) = ks.take a ++ [Node.grp c kids] := by
          rw [List.take_add_one, hst]; rfl
        conv => rhs; rw [← pySlice_partition ks (a + 1) e, htake]
        simp [leavesL_append]
      · rw [if_neg hc] at h
        simp only [Except.ok.injEq] at h
        subst h
        exact hnew e

theorem groupTokens_leaves {ks ks' : List Node} {cls : Cls} {a b : Nat} {ie ext : Bool}
    (h : groupTokens ks cls a b ie ext = .ok ks') : Node.leavesL ks' = Node.leavesL ks := by
  unfold groupTokens at h
  split at h
  · rename_i r hr
    cases h
    exact groupTokens'_leaves hr
  · cases h

end Sql
