import SqlModel.Grouping.Basic
import SqlProofs.Group.GoodTokens
/-!
# SqlProofs.Group.GoodLift — recursion into sub-groups preserves well-formedness
-/
namespace Sql

/-- a function on the children of a node keeps them well-formed (and non-empty) -/
def KidsGood (f : Cls → List Node → Except PyErr (List Node)) : Prop :=
  ∀ c ks ks', f c ks = .ok ks' → GoodKids c ks → GoodKids c ks' ∧ (ks ≠ [] → ks' ≠ [])

/-- a pass keeps the children well-formed -/
def PassGood (p : Pass) : Prop := ∀ fuel, KidsGood (p fuel)

theorem good_grp_of_kids {c : Cls} {kids kids' : List Node} (hk : (Node.grp c kids).good = true)
    {f : Cls → List Node → Except PyErr (List Node)} (hf : KidsGood f) (h : f c kids = .ok kids') :
    (Node.grp c kids').good = true := by
  simp only [good_grp, Bool.and_eq_true, Bool.or_eq_true, Bool.not_eq_true', List.isEmpty_eq_false_iff] at hk ⊢
  have hgk : GoodKids c kids := by
    refine ⟨hk.2, fun hi => ?_⟩
    rcases hk.1.2 with h1 | h1
    · rw [h1] at hi; cases hi
    · exact h1
  obtain ⟨⟨h1, h2⟩, h3⟩ := hf c kids kids' h hgk
  refine ⟨⟨h3 hk.1.1, ?_⟩, h1⟩
  cases hi : innerCls c with
  | false => exact Or.inl rfl
  | true => exact Or.inr (h2 hi)

theorem mapGroups_good {elig : Node → Bool} {f} (hf : KidsGood f) :
    ∀ ks ks', mapGroups elig f ks = .ok ks' → goodL ks = true →
      goodL ks' = true ∧ lastOk ks' = lastOk ks ∧ (ks = [] ↔ ks' = []) := by
  intro ks
  induction ks with
  | nil => intro ks' h _; simp [mapGroups] at h; subst h; simp
  | cons k rest ih =>
    intro ks' h hg
    simp only [goodL_cons, Bool.and_eq_true] at hg
    have key : ∀ (k' : Node) (rest' : List Node), mapGroups elig f rest = .ok rest' → k'.good = true →
        k'.isKwTok = k.isKwTok →
        goodL (k' :: rest') = true ∧ lastOk (k' :: rest') = lastOk (k :: rest) ∧ (k :: rest = [] ↔ k' :: rest' = []) := by
      intro k' rest' hr hk' hkw
      obtain ⟨h1, h2, h3⟩ := ih _ hr hg.2
      refine ⟨by simp [hk', h1], ?_, by simp⟩
      by_cases hrest : rest = []
      · have : rest' = [] := h3.1 hrest
        subst hrest; subst this
        simp [lastOk_singleton, hkw]
      · have hrest' : rest' ≠ [] := fun h => hrest (h3.2 h)
        rw [lastOk_cons_of_ne hrest, lastOk_cons_of_ne hrest', h2]
    cases k with
    | tok tt v =>
      simp only [mapGroups] at h
      cases hr : mapGroups elig f rest with
      | error e => simp [hr] at h
      | ok rest' =>
        simp only [hr, Except.ok.injEq] at h
        subst h
        exact key _ _ hr (by simp) rfl
    | grp c kids =>
      simp only [mapGroups] at h
      by_cases he : elig (.grp c kids) = true
      · rw [if_pos he] at h
        cases hk : f c kids with
        | error e => simp [hk] at h
        | ok kids' =>
          simp only [hk] at h
          cases hr : mapGroups elig f rest with
          | error e => simp [hr] at h
          | ok rest' =>
            simp only [hr, Except.ok.injEq] at h
            subst h
            exact key _ _ hr (good_grp_of_kids hg.1 hf hk) rfl
      · rw [if_neg he] at h
        cases hr : mapGroups elig f rest with
        | error e => simp [hr] at h
        | ok rest' =>
          simp only [hr, Except.ok.injEq] at h
          subst h
          exact key _ _ hr hg.1 rfl

theorem mapGroupsWhere_good {f} (hf : KidsGood f) :
    ∀ bs ks ks', mapGroupsWhere f bs ks = .ok ks' → goodL ks = true →
      goodL ks' = true ∧ lastOk ks' = lastOk ks ∧ (ks = [] ↔ ks' = []) := by
  intro bs ks
  induction ks generalizing bs with
  | nil => intro ks' h _; simp [mapGroupsWhere] at h; subst h; simp
  | cons k rest ih =>
    intro ks' h hg
    cases bs with
    | nil => simp [mapGroupsWhere] at h; subst h; exact ⟨hg, rfl, Iff.rfl⟩
    | cons b bs =>
      simp only [goodL_cons, Bool.and_eq_true] at hg
      have key : ∀ (k' : Node) (rest' : List Node), mapGroupsWhere f bs rest = .ok rest' → k'.good = true →
          k'.isKwTok = k.isKwTok →
          goodL (k' :: rest') = true ∧ lastOk (k' :: rest') = lastOk (k :: rest) ∧
            (k :: rest = [] ↔ k' :: rest' = []) := by
        intro k' rest' hr hk' hkw
        obtain ⟨h1, h2, h3⟩ := ih _ _ hr hg.2
        refine ⟨by simp [hk', h1], ?_, by simp⟩
        by_cases hrest : rest = []
        · have : rest' = [] := h3.1 hrest
          subst hrest; subst this
          simp [lastOk_singleton, hkw]
        · have hrest' : rest' ≠ [] := fun h => hrest (h3.2 h)
          rw [lastOk_cons_of_ne hrest, lastOk_cons_of_ne hrest', h2]
      cases k with
      | tok tt v =>
        simp only [mapGroupsWhere] at h
        cases hr : mapGroupsWhere f bs rest with
        | error e => simp [hr] at h
        | ok rest' =>
          simp only [hr, Except.ok.injEq] at h
          subst h
          exact key _ _ hr (by simp) rfl
      | grp c kids =>
        simp only [mapGroupsWhere] at h
        by_cases hb : b = true
        · rw [if_pos hb] at h
          cases hk : f c kids with
          | error e => simp [hk] at h
          | ok kids' =>
            simp only [hk] at h
            cases hr : mapGroupsWhere f bs rest with
            | error e => simp [hr] at h
            | ok rest' =>
              simp only [hr, Except.ok.injEq] at h
              subst h
              exact key _ _ hr (good_grp_of_kids hg.1 hf hk) rfl
        · rw [if_neg hb] at h
          cases hr : mapGroupsWhere f bs rest with
          | error e => simp [hr] at h
          | ok rest' =>
            simp only [hr, Except.ok.injEq] at h
            subst h
            exact key _ _ hr hg.1 rfl

/-- from the three facts about a `mapGroups`-like step to `GoodKids` -/
theorem GoodKids.of_map {c : Cls} {ks ks' : List Node} (hk : GoodKids c ks)
    (h : goodL ks' = true ∧ lastOk ks' = lastOk ks ∧ (ks = [] ↔ ks' = [])) :
    GoodKids c ks' ∧ (ks ≠ [] → ks' ≠ []) :=
  ⟨⟨h.1, fun hi => h.2.1 ▸ hk.2 hi⟩, fun hne h' => hne (h.2.2.2 h')⟩

theorem recursePass_good {skip : List Cls} {f} (hf : KidsGood f) : PassGood (recursePass skip f) := by
  intro fuel
  induction fuel with
  | zero => intro c ks ks' h; simp [recursePass] at h
  | succ n ih =>
    intro c ks ks' h hk
    simp only [recursePass] at h
    cases hm : mapGroups (fun k => !k.isInstAny skip) (recursePass skip f n) ks with
    | error e => simp [hm] at h
    | ok ks1 =>
      simp only [hm] at h
      obtain ⟨h1, h1'⟩ := hk.of_map (mapGroups_good ih _ _ hm hk.1)
      obtain ⟨h2, h2'⟩ := hf c ks1 ks' h h1
      exact ⟨h2, fun hne => h2' (h1' hne)⟩

end Sql
