import SqlModel.Grouping.DriverPasses
import SqlProofs.Group.GoodDriver
/-!
# SqlProofs.Group.GoodDriverPasses — `PostIdx` / `PostAl` for the eleven `_group` configurations
-/
namespace Sql

theorem postPrevNext_idx {cur : List Node} {p t : Nat} {n : Option Nat} {r : List Node × Nat × Nat}
    (hn : ∀ n', n = some n' → t < n') (h : postPrevNext cur p t n = .ok r) :
    r.1 = cur ∧ t ≤ r.2.2 ∧ r.2.1 = p := by
  unfold postPrevNext at h
  cases n with
  | none => cases h
  | some n' => cases h; exact ⟨rfl, Nat.le_of_lt (hn n' rfl), rfl⟩

theorem postTokNext_idx {cur : List Node} {p t : Nat} {n : Option Nat} {r : List Node × Nat × Nat}
    (hn : ∀ n', n = some n' → t < n') (h : postTokNext cur p t n = .ok r) :
    r.1 = cur ∧ t ≤ r.2.2 ∧ r.2.1 = t := by
  unfold postTokNext at h
  cases n with
  | none => cases h
  | some n' => cases h; exact ⟨rfl, Nat.le_of_lt (hn n' rfl), rfl⟩

theorem postPrevTok_idx {cur : List Node} {p t : Nat} {n : Option Nat} {r : List Node × Nat × Nat}
    (h : postPrevTok cur p t n = .ok r) : r.1 = cur ∧ t ≤ r.2.2 ∧ r.2.1 = p := by
  unfold postPrevTok at h
  cases h; exact ⟨rfl, Nat.le_refl _, rfl⟩

theorem postPeriod_idx {upper : Text → Text} {cur : List Node} {p t : Nat} {n : Option Nat}
    {r : List Node × Nat × Nat} (hn : ∀ n', n = some n' → t < n') (h : postPeriod upper cur p t n = .ok r) :
    r.1 = cur ∧ t ≤ r.2.2 ∧ r.2.1 = p := by
  unfold postPeriod at h
  cases n with
  | none => cases h; exact ⟨rfl, Nat.le_refl _, rfl⟩
  | some n' =>
    simp only at h
    split at h
    · cases h
    · split at h
      · cases h; exact ⟨rfl, Nat.le_of_lt (hn n' rfl), rfl⟩
      · cases h; exact ⟨rfl, Nat.le_refl _, rfl⟩

theorem postAssignment_idx {upper : Text → Text} {cur : List Node} {p t : Nat} {n : Option Nat}
    {r : List Node × Nat × Nat} (hn : ∀ n', n = some n' → t < n') (h : postAssignment upper cur p t n = .ok r) :
    r.1 = cur ∧ t ≤ r.2.2 ∧ r.2.1 = p := by
  unfold postAssignment at h
  cases n with
  | none => cases h
  | some n' =>
    have := hn n' rfl
    simp only at h
    cases hs : tokenNextBy upper cur [] Gen.group_assignment_post_m_semicolon .none (n' + 1) with
    | none => simp only [hs] at h; cases h; exact ⟨rfl, by simp only; omega, rfl⟩
    | some q =>
      obtain ⟨sn, sk⟩ := q
      have := (tokenNextBy_spec hs).1
      simp only [hs] at h
      cases h
      refine ⟨rfl, ?_, rfl⟩
      simp only
      split <;> omega

theorem postIdx_typecasts (u) : PostIdx (cfgTypecasts u) :=
  ⟨rfl, (by intro h; cases h), fun _ _ _ _ _ hn h => by
    obtain ⟨h1, h2, h3⟩ := postPrevNext_idx hn h; exact ⟨h1, h2, Or.inr ⟨h3, rfl⟩⟩⟩

theorem postIdx_tzcasts (u) : PostIdx (cfgTzcasts u) :=
  ⟨rfl, (by intro h; cases h), fun _ _ _ _ _ hn h => by
    obtain ⟨h1, h2, h3⟩ := postPrevNext_idx hn h; exact ⟨h1, h2, Or.inr ⟨h3, rfl⟩⟩⟩

theorem postIdx_typedLiteral0 (u) : PostIdx (cfgTypedLiteral0 u) :=
  ⟨rfl, (by intro h; cases h), fun _ p _ _ _ hn h => by
    obtain ⟨h1, h2, h3⟩ := postTokNext_idx (p := p) hn h; exact ⟨h1, h2, Or.inl h3⟩⟩

theorem postIdx_typedLiteral1 (u) : PostIdx (cfgTypedLiteral1 u) :=
  ⟨rfl, (by intro h; cases h), fun _ p _ _ _ hn h => by
    obtain ⟨h1, h2, h3⟩ := postTokNext_idx (p := p) hn h; exact ⟨h1, h2, Or.inl h3⟩⟩

theorem postIdx_period (u) : PostIdx (cfgPeriod u) :=
  ⟨rfl, (by intro h; cases h), fun _ _ _ _ _ hn h => by
    obtain ⟨h1, h2, h3⟩ := postPeriod_idx hn h; exact ⟨h1, h2, Or.inr ⟨h3, rfl⟩⟩⟩

theorem postIdx_as (u) : PostIdx (cfgAs u) :=
  ⟨rfl, (by intro h; cases h), fun _ _ _ _ _ hn h => by
    obtain ⟨h1, h2, h3⟩ := postPrevNext_idx hn h; exact ⟨h1, h2, Or.inr ⟨h3, rfl⟩⟩⟩

theorem postIdx_assignment (u) : PostIdx (cfgAssignment u) :=
  ⟨rfl, (by intro h; cases h), fun _ _ _ _ _ hn h => by
    obtain ⟨h1, h2, h3⟩ := postAssignment_idx hn h; exact ⟨h1, h2, Or.inr ⟨h3, rfl⟩⟩⟩

theorem postIdx_arrays (u) : PostIdx (cfgArrays u) :=
  ⟨rfl, (by intro h; cases h), fun _ _ _ n _ _ h => by
    obtain ⟨h1, h2, h3⟩ := postPrevTok_idx (n := n) h; exact ⟨h1, h2, Or.inr ⟨h3, rfl⟩⟩⟩

theorem postIdx_identifierList (u) : PostIdx (cfgIdentifierList u) :=
  ⟨rfl, (by intro h; cases h), fun _ _ _ _ _ hn h => by
    obtain ⟨h1, h2, h3⟩ := postPrevNext_idx hn h; exact ⟨h1, h2, Or.inr ⟨h3, rfl⟩⟩⟩

/-! ### the two configurations that do not extend and group from `pidx` -/
theorem postAl_comparison (u) : PostAl (cfgComparison u) := by
  refine ⟨rfl, (by intro h; cases h), ?_⟩
  intro cur p t n r h
  change postPrevNext cur p t n = .ok r at h
  unfold postPrevNext at h
  cases n with
  | none => cases h
  | some n' => cases h; exact ⟨n', rfl, rfl, rfl, id, id, id, rfl, rfl⟩

theorem setTType_good (x : Node) (tt : TType) : (x.setTType tt).good = x.good := by
  cases x <;> simp [Node.setTType, Node.good]

theorem setTType_operator_notKw (x : Node) : (x.setTType T.Operator).isKwTok = false := by
  cases x with
  | tok tt v => simp [Node.setTType, Node.isKwTok]; decide
  | grp c ks => rfl

theorem goodL_set {l : List Node} (hl : goodL l = true) (i : Nat) {x : Node} (hx : x.good = true) :
    goodL (l.set i x) = true := by
  rw [goodL_iff]
  intro k hk
  rcases List.mem_or_eq_of_mem_set hk with h | h
  · exact goodL_of_mem hl h
  · exact h ▸ hx

theorem lastOk_set {l : List Node} (hl : lastOk l = true) (i : Nat) {x : Node} (hx : x.isKwTok = false) :
    lastOk (l.set i x) = true := by
  unfold lastOk at hl ⊢
  rw [List.getLast?_eq_getElem?, List.length_set, List.getElem?_set]
  rw [List.getLast?_eq_getElem?] at hl
  by_cases h1 : i = l.length - 1
  · by_cases h2 : i < l.length
    · simp [h1]
      rw [if_pos (by omega)]
      simp [hx]
    · simp [h1]
      rw [if_neg (by omega)]
  · rw [if_neg h1]; exact hl

theorem postAl_operator (u) : PostAl (cfgOperator u) := by
  refine ⟨rfl, (by intro h; cases h), ?_⟩
  intro cur p t n r h
  change postOperator cur p t n = .ok r at h
  unfold postOperator at h
  cases hx : cur[t]? with
  | none => simp [hx] at h
  | some x =>
    simp only [hx] at h
    cases n with
    | none => cases h
    | some n' =>
      cases h
      refine ⟨n', rfl, rfl, rfl, ?_, ?_, ?_, by simp, ?_⟩
      · intro hg
        exact goodL_set hg t (by rw [setTType_good]; exact good_of_getElem? hg hx)
      · intro hl
        exact lastOk_set hl t (setTType_operator_notKw x)
      · intro hne hs
        have := congrArg List.length hs
        simp at this
        exact hne this
      · simp only
        rw [List.drop_set_of_lt (by omega)]

end Sql
