import SqlProofs.Group.TotalDriverPasses
import SqlProofs.GroupNonEmpty
/-!
# SqlProofs.Group.Safe — a pass on a well-formed list either returns, or fails with `RecursionError` because the
fuel does not exceed the nesting depth

`Inv c ks` = `GoodKids c ks ∧ FKids c ks` (Good.lean, First.lean).  `Safe fuel bound r`: `r` is `.ok _`, or
`.error .recursionError` with `fuel ≤ bound`.
-/
namespace Sql

/-- the invariant of the child list `ks` of a node of class `c` under which no pass raises -/
def Inv (c : Cls) (ks : List Node) : Prop := GoodKids c ks ∧ FKids c ks

theorem inv_of_mem {ks : List Node} {c : Cls} {kids : List Node} (hg : goodL ks = true) (hf : fgoodL ks = true)
    (hm : Node.grp c kids ∈ ks) : Inv c kids := by
  have h1 := goodL_of_mem hg hm
  have h2 := fgoodL_iff.1 hf _ hm
  simp only [good_grp, Bool.and_eq_true, Bool.or_eq_true, Bool.not_eq_true'] at h1
  refine ⟨⟨h1.2, fun hi => ?_⟩, (fgood_grp_iff _ _).1 h2⟩
  rcases h1.1.2 with h | h
  · rw [h] at hi; cases hi
  · exact h

def Safe (fuel bound : Nat) (r : Except PyErr (List Node)) : Prop :=
  (∃ ks', r = .ok ks') ∨ (r = .error .recursionError ∧ fuel ≤ bound)

theorem Safe.of_ok {fuel bound : Nat} {ks' : List Node} : Safe fuel bound (.ok ks') := Or.inl ⟨ks', rfl⟩

theorem depth_grp_le {ks : List Node} {c : Cls} {kids : List Node} (hm : Node.grp c kids ∈ ks) :
    depthL kids + 1 ≤ depthL ks := by
  have := depth_le_of_mem hm
  simpa [Node.depth] using this

theorem mapGroups_safe {elig : Node → Bool} {f : Cls → List Node → Except PyErr (List Node)} {n : Nat} :
    ∀ (ks : List Node), (∀ c kids, Node.grp c kids ∈ ks → Safe n (depthL kids) (f c kids)) →
      Safe (n + 1) (depthL ks) (mapGroups elig f ks) := by
  intro ks
  induction ks with
  | nil => intro _; simp [mapGroups]; exact Safe.of_ok
  | cons k rest ih =>
    intro hf
    have ihr := ih (fun c kids hm => hf c kids (List.mem_cons_of_mem _ hm))
    have hle : depthL rest ≤ depthL (k :: rest) := by simp only [depthL]; exact Nat.le_max_right _ _
    have tailcase : ∀ (k' : Node),
        Safe (n + 1) (depthL (k :: rest))
          (match mapGroups elig f rest with
            | .error e => .error e
            | .ok rest' => .ok (k' :: rest')) := by
      intro k'
      rcases ihr with ⟨r, hr⟩ | ⟨hr, hb⟩
      · rw [hr]; exact Safe.of_ok
      · rw [hr]; exact Or.inr ⟨rfl, Nat.le_trans hb hle⟩
    cases k with
    | tok tt v => simp only [mapGroups]; exact tailcase _
    | grp c kids =>
      simp only [mapGroups]
      by_cases he : elig (.grp c kids) = true
      · rw [if_pos he]
        rcases hf c kids List.mem_cons_self with ⟨r, hr⟩ | ⟨hr, hb⟩
        · rw [hr]; exact tailcase _
        · rw [hr]
          refine Or.inr ⟨rfl, ?_⟩
          have := depth_grp_le (ks := Node.grp c kids :: rest) (c := c) (kids := kids) List.mem_cons_self
          omega
      · rw [if_neg he]; exact tailcase _

theorem mapGroupsWhere_safe {f : Cls → List Node → Except PyErr (List Node)} {n : Nat} :
    ∀ (bs : List Bool) (ks : List Node), (∀ c kids, Node.grp c kids ∈ ks → Safe n (depthL kids) (f c kids)) →
      Safe (n + 1) (depthL ks) (mapGroupsWhere f bs ks) := by
  intro bs ks
  induction ks generalizing bs with
  | nil => intro _; simp [mapGroupsWhere]; exact Safe.of_ok
  | cons k rest ih =>
    intro hf
    cases bs with
    | nil => simp [mapGroupsWhere]; exact Safe.of_ok
    | cons b bs =>
      have ihr := ih bs (fun c kids hm => hf c kids (List.mem_cons_of_mem _ hm))
      have hle : depthL rest ≤ depthL (k :: rest) := by simp only [depthL]; exact Nat.le_max_right _ _
      have tailcase : ∀ (k' : Node),
          Safe (n + 1) (depthL (k :: rest))
            (match mapGroupsWhere f bs rest with
              | .error e => .error e
              | .ok rest' => .ok (k' :: rest')) := by
        intro k'
        rcases ihr with ⟨r, hr⟩ | ⟨hr, hb⟩
        · rw [hr]; exact Safe.of_ok
        · rw [hr]; exact Or.inr ⟨rfl, Nat.le_trans hb hle⟩
      cases k with
      | tok tt v => simp only [mapGroupsWhere]; exact tailcase _
      | grp c kids =>
        simp only [mapGroupsWhere]
        by_cases hb' : b = true
        · rw [if_pos hb']
          rcases hf c kids List.mem_cons_self with ⟨r, hr⟩ | ⟨hr, hb⟩
          · rw [hr]; exact tailcase _
          · rw [hr]
            refine Or.inr ⟨rfl, ?_⟩
            have := depth_grp_le (ks := Node.grp c kids :: rest) (c := c) (kids := kids) List.mem_cons_self
            omega
        · rw [if_neg hb']; exact tailcase _

/-- a pass is safe on every well-formed list -/
def PassSafe (p : Pass) : Prop := ∀ fuel c ks, Inv c ks → Safe fuel (depthL ks) (p fuel c ks)

/-- a pass body (one level) never raises on a well-formed list -/
def BodyTotal (body : Cls → List Node → Except PyErr (List Node)) : Prop :=
  ∀ c ks e, Inv c ks → body c ks = .error e → False

theorem recursePass_safe {al : Bool} {skip : List Cls} {body} (hgood : KidsGood body) (hrw : KidsRw al body)
    (htot : BodyTotal body) : PassSafe (recursePass skip body) := by
  intro fuel
  induction fuel with
  | zero => intro c ks _; simp only [recursePass]; exact Or.inr ⟨rfl, Nat.zero_le _⟩
  | succ n ih =>
    intro c ks hinv
    simp only [recursePass]
    have hm := mapGroups_safe (elig := fun k => !k.isInstAny skip) (f := recursePass skip body n) (n := n) ks
      (fun c' kids hmem => ih c' kids (inv_of_mem hinv.1.1 hinv.2.1 hmem))
    rcases hm with ⟨ks1, h1⟩ | ⟨h1, hb⟩
    · rw [h1]
      simp only
      have hg1 := hinv.1.of_map (mapGroups_good (recursePass_good hgood n) _ _ h1 hinv.1.1)
      have hf1 := (mapGroups_rw (recursePass_rw hrw n) _ _ h1).fstep.fkids hinv.2
      cases hb : body c ks1 with
      | ok r => exact Safe.of_ok
      | error e => exact (htot c ks1 e ⟨hg1.1, hf1⟩ hb).elim
    · rw [h1]; exact Or.inr ⟨rfl, hb⟩

theorem adHocPass_safe {al : Bool} (skip : Option (List Cls)) {body} (hgood : KidsGood body) (hrw : KidsRw al body)
    (htot : BodyTotal body) : PassSafe (adHocPass skip body) := by
  unfold adHocPass
  split
  · exact recursePass_safe hgood hrw htot
  · intro fuel c ks hinv
    show Safe fuel (depthL ks) (body c ks)
    cases hb : body c ks with
    | ok r => exact Safe.of_ok
    | error e => exact (htot c ks e hinv hb).elim

/-! ### `_group_matching` -/
theorem groupMatching_safe {upper : Text → Text} {cls : Cls} {mOpen mClose : List MPat} :
    ∀ (fuel : Nat) (ks : List Node), Safe fuel (depthL ks) (groupMatching upper cls mOpen mClose fuel ks) := by
  intro fuel
  induction fuel with
  | zero => intro ks; simp only [groupMatching]; exact Or.inr ⟨rfl, Nat.zero_le _⟩
  | succ n ih =>
    intro ks
    simp only [groupMatching]
    have hm := mapGroups_safe (elig := fun k => !k.isInst cls)
      (f := fun _ kids => groupMatching upper cls mOpen mClose n kids) (n := n) ks (fun _ kids _ => ih kids)
    rcases hm with ⟨ks1, h1⟩ | ⟨h1, hb⟩
    · rw [h1]
      simp only
      obtain ⟨st, hst⟩ := matchLoop_total upper cls mOpen mClose ks1
      rw [hst]
      exact Safe.of_ok
    · rw [h1]; exact Or.inr ⟨rfl, hb⟩

/-! ### `_group` -/
/-- everything the proofs need to know about a `_group` configuration -/
structure DrvOk (cfg : DrvCfg) : Prop where
  total : PostAl2 cfg ∨ PostB cfg
  good : PostIdx cfg ∨ PostAl cfg
  rw : PostRw cfg

theorem DrvOk.recurse {cfg : DrvCfg} (h : DrvOk cfg) : DrvOk { cfg with recurse := true } := by
  obtain ⟨ht, hg, hr⟩ := h
  refine ⟨?_, ?_, ⟨hr.plain, hr.post⟩⟩
  · rcases ht with h1 | h1
    · exact Or.inl ⟨h1.post, h1.total⟩
    · exact Or.inr ⟨⟨h1.idx.inner, h1.idx.notTL, h1.idx.post⟩, h1.vnone, h1.total⟩
  · rcases hg with h1 | h1
    · exact Or.inl ⟨h1.inner, h1.notTL, h1.post⟩
    · exact Or.inr ⟨h1.inner, h1.notTL, h1.post⟩

theorem DrvOk.loopTotal {cfg : DrvCfg} (h : DrvOk cfg) : LoopTotal cfg := by
  rcases h.total with h1 | h1
  · exact loopTotal_of_postAl2 h1
  · exact loopTotal_of_postB h1

theorem DrvOk.kidsGood {cfg : DrvCfg} (h : DrvOk cfg) (fuel : Nat) : KidsGood (fun _ ks => groupDriver cfg fuel ks) := by
  rcases h.good with h1 | h1
  · exact groupDriver_good_idx h1 fuel
  · exact groupDriver_good_al h1 fuel

theorem groupDriver_safe : ∀ (fuel : Nat) (cfg : DrvCfg), DrvOk cfg → ∀ c ks, Inv c ks →
    Safe fuel (depthL ks) (groupDriver cfg fuel ks) := by
  intro fuel
  induction fuel with
  | zero => intro cfg _ c ks _; simp only [groupDriver]; exact Or.inr ⟨rfl, Nat.zero_le _⟩
  | succ n ih =>
    intro cfg hok c ks hinv
    simp only [groupDriver]
    have hloop : ∀ ks1, goodL ks1 = true →
        Safe (n + 1) (depthL ks) (match drvLoop cfg ks1 0 (drvInit ks1) with
          | .error e => .error e
          | .ok st => .ok st.cur) := by
      intro ks1 hg1
      cases hl : drvLoop cfg ks1 0 (drvInit ks1) with
      | ok st => exact Safe.of_ok
      | error e => exact (hok.loopTotal ks1 e hg1 hl).elim
    split
    · cases hd : drvLoop cfg ks 0 (drvInit ks) with
      | error e => exact (hok.loopTotal ks e hinv.1.1 hd).elim
      | ok dry =>
        simp only
        have hm := mapGroupsWhere_safe (f := fun _ kids => groupDriver { cfg with recurse := true } n kids) (n := n)
          (drvEligible cfg.cls dry.reached.reverse ks) ks
          (fun c' kids hmem => ih _ hok.recurse c' kids (inv_of_mem hinv.1.1 hinv.2.1 hmem))
        rcases hm with ⟨ks1, h1⟩ | ⟨h1, hb⟩
        · rw [h1]
          simp only
          have hg1 := (mapGroupsWhere_good (hok.recurse.kidsGood n) _ _ _ h1 hinv.1.1).1
          exact hloop ks1 hg1
        · rw [h1]; exact Or.inr ⟨rfl, hb⟩
    · exact hloop ks hinv.1.1

theorem driverPass_safe {cfg : DrvCfg} (h : DrvOk cfg) : PassSafe (driverPass cfg) :=
  fun fuel c ks hinv => groupDriver_safe fuel cfg h c ks hinv

end Sql
