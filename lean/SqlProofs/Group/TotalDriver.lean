import SqlProofs.Group.GoodDriver
import SqlProofs.Group.TotalAdHoc
/-!
# SqlProofs.Group.TotalDriver — the parent-level loop of `_group` never raises

Two arguments again.
* `PostAl2` (every configuration whose `post` groups `[pidx, nidx]` or `[pidx, tidx]`, i.e. all but
  `group_assignment` and `group_typed_literal`): the alignment invariant `AInv2` — after `m` stale whitespace
  elements the rest of the snapshot is `cur.drop (a+1)`, `pidx ≤ a`, and `a` is in range — gives
  `from_idx ≤ tidx < len` at every grouping, so `group_tokens` and `tlist[tidx]` are in range.
* `PostB` (`post` needs `nidx`, and `valid_next(None)` is false): a grouping only happens when `token_next` found
  something, hence `tidx < len`; `from_idx` is `tidx`, or `pidx` which is `≤ tidx` or the index of the group just made.
-/
namespace Sql

structure PostAl2 (cfg : DrvCfg) : Prop where
  post : ∀ cur p t n r, cfg.post cur p t n = .ok r →
    r.2.1 = p ∧ (r.2.2 = t ∨ ∃ n', n = some n' ∧ r.2.2 = n') ∧
      r.1.length = cur.length ∧ r.1.drop (t + 1) = cur.drop (t + 1)
  total : ∀ cur p t e, t < cur.length → cfg.validNext ((tokenNext cur t).map (·.2)) = true →
    cfg.post cur p t ((tokenNext cur t).map (·.1)) = .error e → False

def AInv2 (snap : List Node) (idx : Nat) (st : DrvSt) : Prop :=
  ∃ m : Nat, (∀ x ∈ snap.take m, x.isWhitespace = true) ∧ st.off ≤ (idx : Int) + m ∧
    snap.drop (m + 1) = st.cur.drop (((idx : Int) + m - st.off).toNat + 1) ∧
    (∀ pidx p, st.prev = some (pidx, p) → (pidx : Int) ≤ (idx : Int) + m - st.off) ∧
    (snap ≠ [] → ((idx : Int) + m - st.off).toNat < st.cur.length)

theorem aInv2_init (ks : List Node) : AInv2 ks 0 (drvInit ks) := by
  refine ⟨0, by simp, by simp [drvInit], by simp [drvInit], by intro pidx p hpp; simp [drvInit] at hpp, ?_⟩
  intro hne
  simp only [drvInit, Int.natCast_zero, Int.add_zero, Int.sub_zero, Int.toNat_zero]
  exact List.length_pos_iff.2 hne

/-- in a run of stale whitespace the step is a skip -/
theorem drvStep_ws {cfg : DrvCfg} {st : DrvSt} {idx : Nat} {token : Node} (hws : token.isWhitespace = true) :
    ∃ r, drvStep cfg st idx token = .ok { st with reached := r } := by
  unfold drvStep
  split
  · exact ⟨_, rfl⟩
  · simp only at *
    exact ⟨_, rfl⟩

theorem aInv2_skip {token : Node} {tl : List Node} {idx k : Nat} {st : DrvSt} (r : List Bool)
    (hws : ∀ x ∈ (token :: tl).take (k + 1), x.isWhitespace = true)
    (hoff : st.off ≤ (idx : Int) + ((k + 1 : Nat) : Int))
    (hal : (token :: tl).drop (k + 1 + 1) = st.cur.drop (((idx : Int) + ((k + 1 : Nat) : Int) - st.off).toNat + 1))
    (hprev : ∀ pidx p, st.prev = some (pidx, p) → (pidx : Int) ≤ (idx : Int) + ((k + 1 : Nat) : Int) - st.off)
    (hrange : ((idx : Int) + ((k + 1 : Nat) : Int) - st.off).toNat < st.cur.length) :
    AInv2 tl (idx + 1) { st with reached := r } := by
  have e : ((idx + 1 : Nat) : Int) + (k : Nat) - st.off = (idx : Int) + ((k + 1 : Nat) : Int) - st.off := by
    push_cast; omega
  refine ⟨k, ?_, ?_, ?_, ?_, ?_⟩
  · intro x hx
    exact hws x (by simp only [List.take_succ_cons]; exact List.mem_cons_of_mem _ hx)
  · simp only; push_cast at hoff ⊢; omega
  · simp only [List.drop_succ_cons] at hal
    simp only
    rw [e]; exact hal
  · intro pidx p hpp
    have := hprev pidx p hpp
    push_cast at this ⊢; omega
  · intro _
    simp only
    rw [e]; exact hrange

/-- the aligned state one element further, when the list did not change (`skip` or plain step) -/
theorem aInv2_next {tl : List Node} {idx tidx : Nat} {st : DrvSt}
    (htid : (tidx : Int) = (idx : Int) - st.off) (hal : tl = st.cur.drop (tidx + 1))
    (pv : Option (Nat × Node)) (r : List Bool) (hpv : ∀ pidx p, pv = some (pidx, p) → pidx ≤ tidx + 1) :
    AInv2 tl (idx + 1) { st with reached := r, prev := pv } := by
  have e : (((idx + 1 : Nat) : Int) - st.off).toNat = tidx + 1 := by push_cast; omega
  refine ⟨0, by simp, ?_, ?_, ?_, ?_⟩
  · simp only; push_cast; omega
  · simp only [Int.natCast_zero, Int.add_zero]
    rw [e, hal, drop_drop_add]
  · intro pidx p hpp
    have := hpv pidx p hpp
    simp only [Int.natCast_zero, Int.add_zero]
    push_cast; omega
  · intro hne
    simp only [Int.natCast_zero, Int.add_zero]
    rw [e]
    rw [hal] at hne
    have : (st.cur.drop (tidx + 1)).length ≠ 0 := fun h => hne (List.eq_nil_of_length_eq_zero h)
    simp only [List.length_drop] at this
    omega

theorem drvStep_A2 {cfg : DrvCfg} (hp : PostAl2 cfg) {st st' : DrvSt} {idx : Nat} {token : Node} {tl : List Node}
    (hinv : AInv2 (token :: tl) idx st) (h : drvStep cfg st idx token = .ok st') : AInv2 tl (idx + 1) st' := by
  obtain ⟨m, hws, hoff, hal, hprev, hrange⟩ := hinv
  cases m with
  | succ k =>
    obtain ⟨r, hr⟩ := drvStep_ws (cfg := cfg) (st := st) (idx := idx) (hws token (by simp))
    rw [hr] at h
    cases h
    exact aInv2_skip r hws hoff hal hprev (hrange (by simp))
  | zero =>
    simp only [Int.natCast_zero, Int.add_zero, List.take_zero, List.drop_succ_cons, List.drop_zero] at hws hoff hal hprev hrange
    have hrange := hrange (by simp)
    unfold drvStep at h
    split at h
    · rename_i hneg; omega
    · simp only at h
      have htid : ((((idx : Int) - st.off).toNat : Nat) : Int) = (idx : Int) - st.off := by omega
      generalize ((idx : Int) - st.off).toNat = tidx at h htid hal hrange
      have hskip : ∀ r, AInv2 tl (idx + 1) { st with reached := r } := by
        intro r
        have := aInv2_next htid hal st.prev r
          (by intro pidx p hpp; have := hprev pidx p hpp; omega)
        simpa using this
      have hplain : AInv2 tl (idx + 1) { st with reached := true :: st.reached, prev := some (tidx, token) } :=
        aInv2_next htid hal _ _
          (by intro pidx p hpp; simp only [Option.some.injEq, Prod.mk.injEq] at hpp; omega)
      split at h
      · cases h; exact hskip _
      · split at h
        · cases hpv : st.prev with
          | none => simp only [hpv] at h; cases h; exact hplain
          | some q =>
            obtain ⟨pidx, prev⟩ := q
            simp only [hpv] at h
            split at h
            · cases hpost : cfg.post st.cur pidx tidx (Option.map (·.1) (tokenNext st.cur tidx)) with
              | error e => simp [hpost] at h
              | ok r =>
                obtain ⟨cur1, fromIdx, toIdx⟩ := r
                simp only [hpost] at h
                cases hgt : groupTokens' cur1 cfg.cls fromIdx toIdx true cfg.extend with
                | error e => simp [hgt] at h
                | ok r2 =>
                  obtain ⟨cur2, grp⟩ := r2
                  simp only [hgt, Except.ok.injEq] at h
                  subst h
                  obtain ⟨hf, hto, hlen1, hdrop1⟩ := hp.post _ _ _ _ _ hpost
                  simp only at hf hto hlen1 hdrop1
                  subst hf
                  have hpa : fromIdx ≤ tidx := by have := hprev fromIdx prev hpv; omega
                  obtain ⟨_, _, hfl⟩ := groupTokens'_at hgt
                  rcases hto with hto | ⟨n2, hn, hto⟩
                  · -- grouped `[pidx, tidx]`
                    have hto' : tidx = toIdx := hto.symm
                    subst hto'
                    have hshape := groupTokens'_shape hgt hpa
                    simp only at hshape
                    have hc2 : cur2.drop (fromIdx + 1) = tl := by
                      rw [hshape, drop_splice _ _ (by omega), hdrop1, hal]
                    refine ⟨0, by simp, ?_, ?_, ?_, ?_⟩
                    · simp only; push_cast; omega
                    · simp only [Int.natCast_zero, Int.add_zero]
                      have e : (((idx + 1 : Nat) : Int) - (st.off + ((tidx : Int) - (fromIdx : Int)))).toNat =
                          fromIdx + 1 := by push_cast; omega
                      rw [e, ← drop_drop_add cur2 (fromIdx + 1) 1, hc2]
                    · intro pidx' p' hpp
                      simp only [Option.some.injEq, Prod.mk.injEq] at hpp
                      obtain ⟨rfl, rfl⟩ := hpp
                      simp only [Int.natCast_zero, Int.add_zero]
                      push_cast; omega
                    · intro hne
                      simp only [Int.natCast_zero, Int.add_zero]
                      have e : (((idx + 1 : Nat) : Int) - (st.off + ((tidx : Int) - (fromIdx : Int)))).toNat =
                          fromIdx + 1 := by push_cast; omega
                      rw [e]
                      have : (cur2.drop (fromIdx + 1)).length ≠ 0 := by
                        rw [hc2]; exact fun h => hne (List.eq_nil_of_length_eq_zero h)
                      simp only [List.length_drop] at this
                      omega
                  · -- grouped `[pidx, nidx]`
                    subst hto
                    cases hq : tokenNext st.cur tidx with
                    | none => simp [hq] at hn
                    | some q =>
                      obtain ⟨n3, k2⟩ := q
                      simp only [hq, Option.map_some, Option.some.injEq] at hn
                      subst hn
                      obtain ⟨hlt, _, hbetween⟩ := tokenNext_hit hq
                      have hshape := groupTokens'_shape hgt (by omega : fromIdx ≤ n3)
                      simp only at hshape
                      have e : (((idx + 1 : Nat) : Int) + ((n3 - tidx - 1 : Nat) : Int) -
                          (st.off + ((n3 : Int) - (fromIdx : Int)))).toNat = fromIdx := by
                        push_cast; omega
                      refine ⟨n3 - tidx - 1, ?_, ?_, ?_, ?_, ?_⟩
                      · intro x hx
                        rw [hal] at hx
                        obtain ⟨i, hi, hxi⟩ := List.getElem_of_mem hx
                        simp only [List.length_take, List.length_drop] at hi
                        have : st.cur[tidx + 1 + i]? = some x := by
                          rw [← hxi]
                          simp [List.getElem_take, List.getElem_drop]
                        exact hbetween (tidx + 1 + i) x (by omega) (by omega) this
                      · simp only; push_cast; omega
                      · simp only
                        rw [e, hshape, drop_splice _ _ (by omega), hal, drop_drop_add]
                        have e2 : tidx + 1 + (n3 - tidx - 1 + 1) = n3 + 1 := by omega
                        have := drop_congr_add hdrop1 (n3 - tidx - 1 + 1)
                        rw [e2] at this ⊢
                        exact this.symm
                      · intro pidx' p' hpp
                        simp only [Option.some.injEq, Prod.mk.injEq] at hpp
                        obtain ⟨rfl, rfl⟩ := hpp
                        push_cast; omega
                      · intro _
                        simp only
                        rw [e, hshape]
                        simp only [List.length_append, List.length_take, List.length_cons]
                        omega
            · cases h; exact hplain
        · cases h; exact hplain

theorem drvStep_A2_noerr {cfg : DrvCfg} (hp : PostAl2 cfg) {st : DrvSt} {idx : Nat} {token : Node} {tl : List Node}
    {e : PyErr} (hinv : AInv2 (token :: tl) idx st) (h : drvStep cfg st idx token = .error e) : False := by
  obtain ⟨m, hws, hoff, hal, hprev, hrange⟩ := hinv
  cases m with
  | succ k =>
    obtain ⟨r, hr⟩ := drvStep_ws (cfg := cfg) (st := st) (idx := idx) (hws token (by simp))
    rw [hr] at h
    cases h
  | zero =>
    simp only [Int.natCast_zero, Int.add_zero, List.take_zero, List.drop_succ_cons, List.drop_zero] at hws hoff hal hprev hrange
    have hrange := hrange (by simp)
    unfold drvStep at h
    split at h
    · cases h
    · simp only at h
      have htid : ((((idx : Int) - st.off).toNat : Nat) : Int) = (idx : Int) - st.off := by omega
      generalize ((idx : Int) - st.off).toNat = tidx at h htid hal hrange
      split at h
      · cases h
      · split at h
        · cases hpv : st.prev with
          | none => simp only [hpv] at h; cases h
          | some q =>
            obtain ⟨pidx, prev⟩ := q
            simp only [hpv] at h
            split at h
            · rename_i hvalid
              simp only [Bool.and_eq_true] at hvalid
              cases hpost : cfg.post st.cur pidx tidx (Option.map (·.1) (tokenNext st.cur tidx)) with
              | error e2 => exact hp.total _ _ _ _ hrange hvalid.2 hpost
              | ok r =>
                obtain ⟨cur1, fromIdx, toIdx⟩ := r
                simp only [hpost] at h
                obtain ⟨hf, _, hlen1, _⟩ := hp.post _ _ _ _ _ hpost
                simp only at hf hlen1
                subst hf
                have hpa : fromIdx ≤ tidx := by have := hprev fromIdx prev hpv; omega
                cases hgt : groupTokens' cur1 cfg.cls fromIdx toIdx true cfg.extend with
                | error e2 => exact groupTokens'_noerr hgt (by omega)
                | ok r2 => simp [hgt] at h
            · cases h
        · cases h

theorem drvLoop_A2_noerr {cfg : DrvCfg} (hp : PostAl2 cfg) :
    ∀ (snap : List Node) (idx : Nat) (st : DrvSt) (e : PyErr), AInv2 snap idx st →
      drvLoop cfg snap idx st = .error e → False := by
  intro snap
  induction snap with
  | nil => intro idx st e _ h; simp [drvLoop] at h
  | cons token snap ih =>
    intro idx st e hinv h
    simp only [drvLoop] at h
    cases hs : drvStep cfg st idx token with
    | error e2 => exact drvStep_A2_noerr hp hinv hs
    | ok st1 =>
      simp only [hs] at h
      exact ih _ _ _ (drvStep_A2 hp hinv hs) h

/-! ## the configurations whose `post` needs `nidx` -/
structure PostB (cfg : DrvCfg) : Prop where
  idx : PostIdx cfg
  vnone : cfg.validNext none = false
  total : ∀ cur p t n' e, cfg.post cur p t (some n') = .error e → False

theorem drvStep_B_noerr {cfg : DrvCfg} (hp : PostB cfg) {st : DrvSt} {idx : Nat} {token : Node} {e : PyErr}
    (hinv : BInv cfg idx st) (h : drvStep cfg st idx token = .error e) : False := by
  obtain ⟨hg, hprev⟩ := hinv
  unfold drvStep at h
  split at h
  · cases h
  · simp only at h
    have htid : ((((idx : Int) - st.off).toNat : Nat) : Int) = (idx : Int) - st.off := by omega
    generalize ((idx : Int) - st.off).toNat = tidx at h htid
    split at h
    · cases h
    · split at h
      · cases hpv : st.prev with
        | none => simp only [hpv] at h; cases h
        | some q =>
          obtain ⟨pidx, prev⟩ := q
          simp only [hpv] at h
          split at h
          · rename_i hvalid
            simp only [Bool.and_eq_true] at hvalid
            cases hq : tokenNext st.cur tidx with
            | none =>
              rw [hq] at hvalid
              simp only [Option.map_none] at hvalid
              rw [hp.vnone] at hvalid
              cases hvalid.2
            | some q2 =>
              obtain ⟨n2, k2⟩ := q2
              obtain ⟨hlt, hnl⟩ := tokenNext_range hq
              simp only [hq, Option.map_some] at h
              cases hpost : cfg.post st.cur pidx tidx (some n2) with
              | error e2 => exact hp.total _ _ _ _ _ hpost
              | ok r =>
                obtain ⟨cur1, fromIdx, toIdx⟩ := r
                simp only [hpost] at h
                obtain ⟨hcur, _, hfrom⟩ := hp.idx.post _ _ _ _ _
                  (by intro n' hn; cases hn; exact hlt) hpost
                simp only at hcur hfrom
                subst hcur
                cases hgt : groupTokens' st.cur cfg.cls fromIdx toIdx true cfg.extend with
                | error e2 =>
                  refine groupTokens'_noerr hgt ?_
                  rcases hfrom with hf | ⟨hf, _⟩
                  · omega
                  · rcases hprev pidx prev hpv with h1 | h1
                    · omega
                    · rw [hf]; exact (List.getElem?_eq_some_iff.1 h1.1).1
                | ok r2 => rw [hgt] at h; cases h
          · cases h
      · cases h

theorem drvLoop_B_noerr {cfg : DrvCfg} (hp : PostB cfg) :
    ∀ (snap : List Node) (idx : Nat) (st : DrvSt) (e : PyErr), BInv cfg idx st →
      drvLoop cfg snap idx st = .error e → False := by
  intro snap
  induction snap with
  | nil => intro idx st e _ h; simp [drvLoop] at h
  | cons token snap ih =>
    intro idx st e hinv h
    simp only [drvLoop] at h
    cases hs : drvStep cfg st idx token with
    | error e2 => exact drvStep_B_noerr hp hinv hs
    | ok st1 =>
      simp only [hs] at h
      exact ih _ _ _ (drvStep_B hp.idx hinv hs).1 h

/-- the parent-level loop of a configuration never raises on a good list -/
def LoopTotal (cfg : DrvCfg) : Prop :=
  ∀ ks e, goodL ks = true → drvLoop cfg ks 0 (drvInit ks) = .error e → False

theorem loopTotal_of_postAl2 {cfg : DrvCfg} (hp : PostAl2 cfg) : LoopTotal cfg :=
  fun ks _ _ h => drvLoop_A2_noerr hp _ _ _ _ (aInv2_init ks) h

theorem loopTotal_of_postB {cfg : DrvCfg} (hp : PostB cfg) : LoopTotal cfg :=
  fun ks e hg h => drvLoop_B_noerr hp _ _ _ _ ⟨hg, by intro pidx p hpp; simp [drvInit] at hpp⟩ h

end Sql
