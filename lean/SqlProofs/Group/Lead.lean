import SqlProofs.Group.RwPasses
import SqlProofs.Group.GoodAdHoc
import SqlProofs.WhereExtent
/-!
# SqlProofs.Group.Lead — a protected prefix of a child list

`PrefRel s ks ks'`: the first `s` children are untouched and the child at position `s` (if any) is still there,
possibly wrapped into a group or re-typed to Operator (`HeadRel`).  Every `group_tokens` call that starts at an
index `≥ s` has this effect; the loop passes whose search starts at or after `s` therefore have it too.
-/
namespace Sql

/-- what can happen to the child at the first unprotected position -/
def HeadRel (x x' : Node) : Prop := x' = x ∨ x'.isGroup = true ∨ x' = x.setTType T.Operator

theorem HeadRel.refl (x : Node) : HeadRel x x := Or.inl rfl

theorem setTType_idem (x : Node) (tt : TType) : (x.setTType tt).setTType tt = x.setTType tt := by
  cases x <;> rfl

theorem setTType_group {x : Node} (h : x.isGroup = true) (tt : TType) : x.setTType tt = x := by
  cases x with
  | tok _ _ => cases h
  | grp _ _ => rfl

theorem HeadRel.trans {x y z : Node} (h1 : HeadRel x y) (h2 : HeadRel y z) : HeadRel x z := by
  rcases h1 with rfl | hg | rfl
  · exact h2
  · rcases h2 with rfl | h | rfl
    · exact Or.inr (Or.inl hg)
    · exact Or.inr (Or.inl h)
    · rw [setTType_group hg]; exact Or.inr (Or.inl hg)
  · rcases h2 with rfl | h | rfl
    · exact Or.inr (Or.inr rfl)
    · exact Or.inr (Or.inl h)
    · rw [setTType_idem]; exact Or.inr (Or.inr rfl)

structure PrefRel (s : Nat) (ks ks' : List Node) : Prop where
  pre : ks'.take s = ks.take s
  head : ∀ x, ks[s]? = some x → ∃ x', ks'[s]? = some x' ∧ HeadRel x x'
  none : ks[s]? = none → ks'[s]? = none

theorem PrefRel.refl (s : Nat) (ks : List Node) : PrefRel s ks ks :=
  ⟨rfl, fun x hx => ⟨x, hx, HeadRel.refl x⟩, id⟩

theorem PrefRel.trans {s : Nat} {a b c : List Node} (h1 : PrefRel s a b) (h2 : PrefRel s b c) : PrefRel s a c := by
  refine ⟨h2.pre.trans h1.pre, ?_, fun h => h2.none (h1.none h)⟩
  intro x hx
  obtain ⟨y, hy, hxy⟩ := h1.head x hx
  obtain ⟨z, hz, hyz⟩ := h2.head y hy
  exact ⟨z, hz, hxy.trans hyz⟩

theorem prefRel_splice' {ks : List Node} {s a e : Nat} {y : Node} (hs : s ≤ a) (ha : a < ks.length)
    (hy : ∀ x, ks[a]? = some x → HeadRel x y) : PrefRel s ks (ks.take a ++ y :: ks.drop e) := by
  refine ⟨take_splice ks a s hs (Nat.le_of_lt ha) _ _, ?_, ?_⟩
  · intro x hx
    by_cases hsa : s < a
    · refine ⟨x, ?_, HeadRel.refl x⟩
      rw [List.getElem?_append_left (by simp [List.length_take]; omega), List.getElem?_take]
      simp [hsa, hx]
    · have : s = a := by omega
      subst this
      refine ⟨y, ?_, hy x hx⟩
      rw [List.getElem?_append_right (by simp [List.length_take]; omega)]
      simp [List.length_take, Nat.min_eq_left (Nat.le_of_lt ha)]
  · intro hn
    have := List.getElem?_eq_none_iff.1 hn
    omega

theorem prefRel_splice {ks : List Node} {s a e : Nat} {c : Cls} {kids : List Node} (hs : s ≤ a) (ha : a < ks.length) :
    PrefRel s ks (ks.take a ++ Node.grp c kids :: ks.drop e) :=
  prefRel_splice' hs ha (fun _ _ => Or.inr (Or.inl rfl))

theorem groupTokens'_prefRel {ks : List Node} {cls : Cls} {a b : Nat} {ie ext : Bool} {r : List Node × Node} {s : Nat}
    (h : groupTokens' ks cls a b ie ext = .ok r) (hs : s ≤ a) : PrefRel s ks r.1 := by
  rcases groupTokens'_cases h with ⟨c, kids, _, hst, _, rfl⟩ | ⟨hlt, _, rfl⟩
  · exact prefRel_splice hs (List.getElem?_eq_some_iff.1 hst).1
  · exact prefRel_splice hs hlt

theorem groupTokens_prefRel {ks ks' : List Node} {cls : Cls} {a b : Nat} {ie ext : Bool} {s : Nat}
    (h : groupTokens ks cls a b ie ext = .ok ks') (hs : s ≤ a) : PrefRel s ks ks' := by
  obtain ⟨r, hr, rfl⟩ := groupTokens_eq h
  exact groupTokens'_prefRel hr hs

theorem retype_prefRel {ks : List Node} {i s : Nat} {x : Node} (hx : ks[i]? = some x) (hs : s ≤ i) :
    PrefRel s ks (ks.set i (x.setTType T.Operator)) := by
  have hlt : i < ks.length := (List.getElem?_eq_some_iff.1 hx).1
  have hset : ks.set i (x.setTType T.Operator) = ks.take i ++ x.setTType T.Operator :: ks.drop (i + 1) :=
    List.set_eq_take_append_cons_drop.trans (by simp [hlt])
  rw [hset]
  refine prefRel_splice' hs hlt ?_
  intro y hy
  rw [hx] at hy; cases hy
  exact Or.inr (Or.inr rfl)

/-! ### the loops that group forwards from the index they found -/
macro "pref_step" h:ident ih:ident hp:ident : tactic => `(tactic| (
  repeat' (split at $h:ident)
  all_goals first
    | (cases $h:ident; done)
    | (cases $h:ident; exact PrefRel.refl _ _)
    | (refine $ih _ _ _ $h ?_
       intro t2 tok2 hq
       have := (tokenNextBy_spec hq).1
       have := $hp _ _ rfl
       omega)
    | (refine PrefRel.trans (groupTokens_prefRel ‹_› (by have := $hp _ _ rfl; omega)) ($ih _ _ _ $h ?_)
       intro t2 tok2 hq
       have := (tokenNextBy_spec hq).1
       have := $hp _ _ rfl
       omega)))

macro "loop_pref" f:ident : tactic => `(tactic| (
  intro n
  induction n with
  | zero =>
    intro ks pend ks' h hp
    cases pend with
    | none => simp [$f:ident] at h; subst h; exact PrefRel.refl _ _
    | some p => simp [$f:ident] at h
  | succ n ih =>
    intro ks pend ks' h hp
    cases pend with
    | none => simp [$f:ident] at h; subst h; exact PrefRel.refl _ _
    | some p =>
      obtain ⟨tidx, tok⟩ := p
      simp only [$f:ident] at h
      pref_step h ih hp))

theorem identifierLoop_pref {u : Text → Text} {s : Nat} : ∀ (n : Nat) (ks : List Node) (pend : Option (Nat × Node))
    (ks' : List Node), identifierLoop u n ks pend = .ok ks' → (∀ t tok, pend = some (t, tok) → s ≤ t) →
      PrefRel s ks ks' := by
  loop_pref identifierLoop

theorem overLoop_pref {u : Text → Text} {s : Nat} : ∀ (n : Nat) (ks : List Node) (pend : Option (Nat × Node))
    (ks' : List Node), overLoop u n ks pend = .ok ks' → (∀ t tok, pend = some (t, tok) → s ≤ t) →
      PrefRel s ks ks' := by
  loop_pref overLoop

theorem whereLoop_pref {u : Text → Text} {c : Cls} {s : Nat} : ∀ (n : Nat) (ks : List Node)
    (pend : Option (Nat × Node)) (ks' : List Node), whereLoop u c n ks pend = .ok ks' →
      (∀ t tok, pend = some (t, tok) → s ≤ t) → PrefRel s ks ks' := by
  loop_pref whereLoop

theorem aliasedLoop_pref {u : Text → Text} {s : Nat} : ∀ (n : Nat) (ks : List Node) (pend : Option (Nat × Node))
    (ks' : List Node), aliasedLoop u n ks pend = .ok ks' → (∀ t tok, pend = some (t, tok) → s ≤ t) →
      PrefRel s ks ks' := by
  loop_pref aliasedLoop

theorem functionsLoop_pref {u : Text → Text} {s : Nat} : ∀ (n : Nat) (ks : List Node) (pend : Option (Nat × Node))
    (ks' : List Node), functionsLoop u n ks pend = .ok ks' → (∀ t tok, pend = some (t, tok) → s ≤ t) →
      PrefRel s ks ks' := by
  loop_pref functionsLoop

theorem commentsLoop_pref {u : Text → Text} {s : Nat} : ∀ (n : Nat) (ks : List Node) (pend : Option (Nat × Node))
    (ks' : List Node), commentsLoop u n ks pend = .ok ks' → (∀ t tok, pend = some (t, tok) → s ≤ t) →
      PrefRel s ks ks' := by
  loop_pref commentsLoop

end Sql
