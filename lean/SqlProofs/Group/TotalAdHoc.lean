import SqlProofs.Group.First
import SqlProofs.Group.GoodAdHoc
/-!
# SqlProofs.Group.TotalAdHoc — the nine loop passes never raise on a well-formed list

For every loop: `… = .error e → False`, given that the pending index is in range and `len − tidx ≤ bound`
(so the `loopBound` exhaustion branch is unreachable: every iteration strictly decreases `len − tidx`), plus, for
`group_where`, the first/last-child facts that keep `_groupable_tokens[-1]` in range.
-/
namespace Sql

theorem groupTokens'_noerr {ks : List Node} {cls : Cls} {a b : Nat} {ie ext : Bool} {e : PyErr}
    (h : groupTokens' ks cls a b ie ext = .error e) (ha : a < ks.length) : False := by
  unfold groupTokens' at h
  rw [List.getElem?_eq_getElem ha] at h
  simp only at h
  cases hk : ks[a] with
  | tok tt v => simp [hk] at h
  | grp c kids =>
    simp only [hk] at h
    split at h <;> simp at h

theorem groupTokens_noerr {ks : List Node} {cls : Cls} {a b : Nat} {ie ext : Bool} {e : PyErr}
    (h : groupTokens ks cls a b ie ext = .error e) (ha : a < ks.length) : False := by
  unfold groupTokens at h
  split at h
  · cases h
  · rename_i e2 he
    exact groupTokens'_noerr he ha

/-- grouping `[a, b]` (both branches) shortens the list by `b − a` -/
theorem groupTokens'_length {ks : List Node} {cls : Cls} {a b : Nat} {ext : Bool} {r : List Node × Node}
    (h : groupTokens' ks cls a b true ext = .ok r) (hab : a ≤ b) (hb : b < ks.length) :
    r.1.length + (b - a) = ks.length := by
  have hc := groupTokens'_cases h
  simp only [↓reduceIte] at hc
  rcases hc with ⟨c, kids, _, _, _, rfl⟩ | ⟨_, _, rfl⟩
  · simp only [List.length_append, List.length_take, List.length_cons, List.length_drop]
    omega
  · simp only [List.length_append, List.length_take, List.length_cons, List.length_drop]
    omega

theorem groupTokens_length {ks ks' : List Node} {cls : Cls} {a b : Nat} {ext : Bool}
    (h : groupTokens ks cls a b true ext = .ok ks') (hab : a ≤ b) (hb : b < ks.length) :
    ks'.length + (b - a) = ks.length := by
  obtain ⟨r, hr, rfl⟩ := groupTokens_eq h
  exact groupTokens'_length hr hab hb

/-- what the loops need to know about a freshly searched pending index -/
theorem pend_range {u : Text → Text} {ks : List Node} {i : List Cls} {m : List MPat} {t : TArg} {start t2 : Nat}
    {k : Node} (h : tokenNextBy u ks i m t start = some (t2, k)) : start ≤ t2 ∧ t2 < ks.length := by
  obtain ⟨h1, h2, _⟩ := tokenNextBy_spec h
  exact ⟨h1, (List.getElem?_eq_some_iff.1 h2).1⟩

theorem tokenNext_range {ks : List Node} {t n : Nat} {k : Node} (h : tokenNext ks t = some (n, k)) :
    t < n ∧ n < ks.length := by
  obtain ⟨h1, h2, _⟩ := tokenNext_hit h
  exact ⟨h1, (List.getElem?_eq_some_iff.1 h2).1⟩

/-! ### group_identifier -/
theorem identifierLoop_noerr {u : Text → Text} : ∀ (n : Nat) (ks : List Node) (pend : Option (Nat × Node)) (e : PyErr),
    identifierLoop u n ks pend = .error e →
    (∀ t tok, pend = some (t, tok) → t < ks.length ∧ ks.length - t ≤ n) → False := by
  intro n
  induction n with
  | zero =>
    intro ks pend e h hp
    cases pend with
    | none => simp [identifierLoop] at h
    | some p => obtain ⟨t, tok⟩ := p; have := hp t tok rfl; omega
  | succ n ih =>
    intro ks pend e h hp
    cases pend with
    | none => simp [identifierLoop] at h
    | some p =>
      obtain ⟨t, tok⟩ := p
      obtain ⟨htl, hm⟩ := hp t tok rfl
      simp only [identifierLoop] at h
      cases hg : groupTokens ks Gen.group_identifier_group_tokens0_cls t t true
          Gen.group_identifier_group_tokens0_extend with
      | error e2 => exact groupTokens_noerr hg htl
      | ok ks1 =>
        simp only [hg] at h
        have hl := groupTokens_length hg (Nat.le_refl _) htl
        refine ih _ _ _ h ?_
        intro t2 tok2 hq
        obtain ⟨h1, h2⟩ := pend_range hq
        omega

/-! ### group_over, group_aliased, group_functions (group `[tidx, n]` with `n > tidx` from `token_next`) -/
theorem overLoop_noerr {u : Text → Text} : ∀ (n : Nat) (ks : List Node) (pend : Option (Nat × Node)) (e : PyErr),
    overLoop u n ks pend = .error e →
    (∀ t tok, pend = some (t, tok) → t < ks.length ∧ ks.length - t ≤ n) → False := by
  intro n
  induction n with
  | zero =>
    intro ks pend e h hp
    cases pend with
    | none => simp [overLoop] at h
    | some p => obtain ⟨t, tok⟩ := p; have := hp t tok rfl; omega
  | succ n ih =>
    intro ks pend e h hp
    cases pend with
    | none => simp [overLoop] at h
    | some p =>
      obtain ⟨t, tok⟩ := p
      obtain ⟨htl, hm⟩ := hp t tok rfl
      have hsame : ∀ t2 tok2, tokenNextBy u ks [] Gen.group_over_token_next_by1_m .none (t + 1) = some (t2, tok2) →
          t2 < ks.length ∧ ks.length - t2 ≤ n := by
        intro t2 tok2 hq
        obtain ⟨h1, h2⟩ := pend_range hq
        omega
      simp only [overLoop] at h
      cases hnx : tokenNext ks t with
      | none => simp only [hnx] at h; exact ih _ _ _ h hsame
      | some q =>
        obtain ⟨nidx, next⟩ := q
        obtain ⟨hlt, hnl⟩ := tokenNext_range hnx
        simp only [hnx] at h
        split at h
        · cases hg : groupTokens ks Gen.group_over_group_tokens0_cls t nidx true
              Gen.group_over_group_tokens0_extend with
          | error e2 => exact groupTokens_noerr hg htl
          | ok ks1 =>
            simp only [hg] at h
            have hl := groupTokens_length hg (Nat.le_of_lt hlt) hnl
            refine ih _ _ _ h ?_
            intro t2 tok2 hq
            obtain ⟨h1, h2⟩ := pend_range hq
            omega
        · exact ih _ _ _ h hsame

theorem aliasedLoop_noerr {u : Text → Text} : ∀ (n : Nat) (ks : List Node) (pend : Option (Nat × Node)) (e : PyErr),
    aliasedLoop u n ks pend = .error e →
    (∀ t tok, pend = some (t, tok) → t < ks.length ∧ ks.length - t ≤ n) → False := by
  intro n
  induction n with
  | zero =>
    intro ks pend e h hp
    cases pend with
    | none => simp [aliasedLoop] at h
    | some p => obtain ⟨t, tok⟩ := p; have := hp t tok rfl; omega
  | succ n ih =>
    intro ks pend e h hp
    cases pend with
    | none => simp [aliasedLoop] at h
    | some p =>
      obtain ⟨t, tok⟩ := p
      obtain ⟨htl, hm⟩ := hp t tok rfl
      have hsame : ∀ t2 tok2, tokenNextBy u ks Gen.group_aliased_I_ALIAS [] Gen.group_aliased_token_next_by1_t
          (t + 1) = some (t2, tok2) → t2 < ks.length ∧ ks.length - t2 ≤ n := by
        intro t2 tok2 hq
        obtain ⟨h1, h2⟩ := pend_range hq
        omega
      simp only [aliasedLoop] at h
      cases hnx : tokenNext ks t with
      | none => simp only [hnx] at h; exact ih _ _ _ h hsame
      | some q =>
        obtain ⟨nidx, next⟩ := q
        obtain ⟨hlt, hnl⟩ := tokenNext_range hnx
        simp only [hnx] at h
        split at h
        · cases hg : groupTokens ks Gen.group_aliased_group_tokens0_cls t nidx true
              Gen.group_aliased_group_tokens0_extend with
          | error e2 => exact groupTokens_noerr hg htl
          | ok ks1 =>
            simp only [hg] at h
            have hl := groupTokens_length hg (Nat.le_of_lt hlt) hnl
            refine ih _ _ _ h ?_
            intro t2 tok2 hq
            obtain ⟨h1, h2⟩ := pend_range hq
            omega
        · exact ih _ _ _ h hsame

theorem functionsLoop_noerr {u : Text → Text} : ∀ (n : Nat) (ks : List Node) (pend : Option (Nat × Node)) (e : PyErr),
    functionsLoop u n ks pend = .error e →
    (∀ t tok, pend = some (t, tok) → t < ks.length ∧ ks.length - t ≤ n) → False := by
  intro n
  induction n with
  | zero =>
    intro ks pend e h hp
    cases pend with
    | none => simp [functionsLoop] at h
    | some p => obtain ⟨t, tok⟩ := p; have := hp t tok rfl; omega
  | succ n ih =>
    intro ks pend e h hp
    cases pend with
    | none => simp [functionsLoop] at h
    | some p =>
      obtain ⟨t, tok⟩ := p
      obtain ⟨htl, hm⟩ := hp t tok rfl
      have hsame : ∀ t2 tok2, tokenNextBy u ks [] [] Gen.group_functions_token_next_by1_t (t + 1) = some (t2, tok2) →
          t2 < ks.length ∧ ks.length - t2 ≤ n := by
        intro t2 tok2 hq
        obtain ⟨h1, h2⟩ := pend_range hq
        omega
      simp only [functionsLoop] at h
      cases hnx : tokenNext ks t with
      | none => simp only [hnx] at h; exact ih _ _ _ h hsame
      | some q =>
        obtain ⟨nidx, next⟩ := q
        obtain ⟨hlt, hnl⟩ := tokenNext_range hnx
        simp only [hnx] at h
        split at h
        · have fin : ∀ eidx, t ≤ eidx → eidx < ks.length →
              (match groupTokens ks Gen.group_functions_group_tokens0_cls t eidx true
                  Gen.group_functions_group_tokens0_extend with
                | Except.error e => Except.error e
                | Except.ok ks1 => functionsLoop u n ks1
                    (tokenNextBy u ks1 [] [] Gen.group_functions_token_next_by1_t (t + 1))) = Except.error e →
              False := by
            intro eidx hle hel h
            cases hg : groupTokens ks Gen.group_functions_group_tokens0_cls t eidx true
                Gen.group_functions_group_tokens0_extend with
            | error e2 => exact groupTokens_noerr hg htl
            | ok ks1 =>
              simp only [hg] at h
              have hl := groupTokens_length hg hle hel
              refine ih _ _ _ h ?_
              intro t2 tok2 hq
              obtain ⟨h1, h2⟩ := pend_range hq
              omega
          cases hov : tokenNext ks nidx with
          | none => simp only [hov] at h; exact fin nidx (Nat.le_of_lt hlt) hnl h
          | some q2 =>
            obtain ⟨oidx, over⟩ := q2
            obtain ⟨ho1, ho2⟩ := tokenNext_range hov
            simp only [hov] at h
            by_cases hover : over.isInstAny Gen.group_functions_isinstance1 = true
            · rw [if_pos hover] at h; exact fin oidx (by omega) ho2 h
            · rw [if_neg hover] at h; exact fin nidx (by omega) hnl h
        · exact ih _ _ _ h hsame

/-! ### group_order, align_comments (group `[pidx, tidx]`, search goes on from `pidx`) -/
theorem orderLoop_noerr {u : Text → Text} : ∀ (n : Nat) (ks : List Node) (pend : Option (Nat × Node)) (e : PyErr),
    orderLoop u n ks pend = .error e →
    (∀ t tok, pend = some (t, tok) → t < ks.length ∧ ks.length - t ≤ n) → False := by
  intro n
  induction n with
  | zero =>
    intro ks pend e h hp
    cases pend with
    | none => simp [orderLoop] at h
    | some p => obtain ⟨t, tok⟩ := p; have := hp t tok rfl; omega
  | succ n ih =>
    intro ks pend e h hp
    cases pend with
    | none => simp [orderLoop] at h
    | some p =>
      obtain ⟨t, tok⟩ := p
      obtain ⟨htl, hm⟩ := hp t tok rfl
      have hsame : ∀ t2 tok2, tokenNextBy u ks [] [] Gen.group_order_token_next_by1_t (t + 1) = some (t2, tok2) →
          t2 < ks.length ∧ ks.length - t2 ≤ n := by
        intro t2 tok2 hq
        obtain ⟨h1, h2⟩ := pend_range hq
        omega
      simp only [orderLoop] at h
      cases hpv : tokenPrev ks t with
      | none => simp only [hpv] at h; exact ih _ _ _ h hsame
      | some q =>
        obtain ⟨pidx, prev⟩ := q
        obtain ⟨hlt, _⟩ := tokenPrev_hit hpv
        simp only [hpv] at h
        split at h
        · cases hg : groupTokens ks Gen.group_order_group_tokens0_cls pidx t true
              Gen.group_order_group_tokens0_extend with
          | error e2 => exact groupTokens_noerr hg (by omega)
          | ok ks1 =>
            simp only [hg] at h
            have hl := groupTokens_length hg (Nat.le_of_lt hlt) htl
            refine ih _ _ _ h ?_
            intro t2 tok2 hq
            obtain ⟨h1, h2⟩ := pend_range hq
            omega
        · exact ih _ _ _ h hsame

theorem alignLoop_noerr {u : Text → Text} : ∀ (n : Nat) (ks : List Node) (pend : Option (Nat × Node)) (e : PyErr),
    alignLoop u n ks pend = .error e →
    (∀ t tok, pend = some (t, tok) → t < ks.length ∧ ks.length - t ≤ n) → False := by
  intro n
  induction n with
  | zero =>
    intro ks pend e h hp
    cases pend with
    | none => simp [alignLoop] at h
    | some p => obtain ⟨t, tok⟩ := p; have := hp t tok rfl; omega
  | succ n ih =>
    intro ks pend e h hp
    cases pend with
    | none => simp [alignLoop] at h
    | some p =>
      obtain ⟨t, tok⟩ := p
      obtain ⟨htl, hm⟩ := hp t tok rfl
      have hsame : ∀ t2 tok2, tokenNextBy u ks Gen.align_comments_token_next_by1_i [] .none (t + 1) = some (t2, tok2) →
          t2 < ks.length ∧ ks.length - t2 ≤ n := by
        intro t2 tok2 hq
        obtain ⟨h1, h2⟩ := pend_range hq
        omega
      simp only [alignLoop] at h
      cases hpv : tokenPrev ks t with
      | none => simp only [hpv] at h; exact ih _ _ _ h hsame
      | some q =>
        obtain ⟨pidx, prev⟩ := q
        obtain ⟨hlt, _⟩ := tokenPrev_hit hpv
        simp only [hpv] at h
        split at h
        · cases hg : groupTokens ks Gen.align_comments_group_tokens0_cls pidx t true
              Gen.align_comments_group_tokens0_extend with
          | error e2 => exact groupTokens_noerr hg (by omega)
          | ok ks1 =>
            simp only [hg] at h
            have hl := groupTokens_length hg (Nat.le_of_lt hlt) htl
            refine ih _ _ _ h ?_
            intro t2 tok2 hq
            obtain ⟨h1, h2⟩ := pend_range hq
            omega
        · exact ih _ _ _ h hsame

/-! ### group_comments -/
/-- `token_prev(idx, skip_ws=False)` with `0 < idx ≤ len` always finds `idx − 1` -/
theorem tokenPrev_noskip_some {ks : List Node} {idx : Nat} (hpos : 0 < idx) (hidx : idx ≤ ks.length) :
    ∃ k, tokenPrev ks idx false false = some (idx - 1, k) := by
  unfold tokenPrev tokenMatchingRev
  simp only [Nat.add_sub_cancel]
  cases idx with
  | zero => omega
  | succ m =>
    have hm : m < ks.length := by omega
    simp only [tokenMatchingRev.go, List.getElem?_eq_getElem hm, skipMatcher, Bool.false_and, Bool.or_self,
      Bool.not_false, ↓reduceIte, Nat.add_sub_cancel]
    exact ⟨_, rfl⟩

theorem commentsLoop_noerr {u : Text → Text} : ∀ (n : Nat) (ks : List Node) (pend : Option (Nat × Node)) (e : PyErr),
    commentsLoop u n ks pend = .error e →
    (∀ t tok, pend = some (t, tok) → t < ks.length ∧ ks.length - t ≤ n ∧ ks[t]? = some tok ∧
      imt u tok [] [] Gen.group_comments_imt0_t = true) → False := by
  intro n
  induction n with
  | zero =>
    intro ks pend e h hp
    cases pend with
    | none => simp [commentsLoop] at h
    | some p => obtain ⟨t, tok⟩ := p; have := hp t tok rfl; omega
  | succ n ih =>
    intro ks pend e h hp
    cases pend with
    | none => simp [commentsLoop] at h
    | some p =>
      obtain ⟨t, tok⟩ := p
      obtain ⟨htl, hm, htok, hcm⟩ := hp t tok rfl
      have hnextp : ∀ (ks1 : List Node), ks1.length ≤ ks.length → ∀ t2 tok2,
          tokenNextBy u ks1 [] [] Gen.group_comments_token_next_by1_t (t + 1) = some (t2, tok2) →
          t2 < ks1.length ∧ ks1.length - t2 ≤ n ∧ ks1[t2]? = some tok2 ∧
            imt u tok2 [] [] Gen.group_comments_imt0_t = true := by
        intro ks1 hle t2 tok2 hq
        obtain ⟨h1, h2⟩ := pend_range hq
        obtain ⟨h3, h4⟩ := pend_of_nextBy _ _ hq
        exact ⟨h2, by omega, h3, h4⟩
      simp only [commentsLoop] at h
      generalize hmf : tokenMatchingFwd ks _ t = mres at h
      cases mres with
      | none => exact ih _ _ _ h (hnextp ks (Nat.le_refl _))
      | some q =>
        obtain ⟨eidx, ek⟩ := q
        simp only at h
        obtain ⟨h1, h2, h3, _⟩ := tokenMatchingFwd_hit hmf
        have hne : eidx ≠ t := by
          intro heq
          subst heq
          rw [htok] at h2
          cases h2
          simp [hcm] at h3
        have hlen : eidx < ks.length := (List.getElem?_eq_some_iff.1 h2).1
        obtain ⟨pk, hpv⟩ := tokenPrev_noskip_some (ks := ks) (idx := eidx) (by omega) (Nat.le_of_lt hlen)
        simp only [hpv] at h
        cases hg : groupTokens ks Gen.group_comments_group_tokens0_cls t (eidx - 1) true
            Gen.group_comments_group_tokens0_extend with
        | error e2 => exact groupTokens_noerr hg htl
        | ok ks1 =>
          simp only [hg] at h
          have hl := groupTokens_length hg (by omega) (by omega)
          exact ih _ _ _ h (hnextp ks1 (by omega))

/-! ### group_where -/
theorem whereEnd_noerr {u : Text → Text} {c : Cls} {ks : List Node} {t : Nat} {tok : Node} {e : PyErr}
    (h : whereEnd u c ks t = .error e) (htok : ks[t]? = some tok) (hkw : tok.isKwTok = true)
    (hl : innerCls c = true → lastOk ks = true ∧ firstOk ks = true) : False := by
  have hlen : t < ks.length := (List.getElem?_eq_some_iff.1 htok).1
  unfold whereEnd at h
  cases hnb : tokenNextBy u ks [] Gen.group_where_token_next_by1_m .none (t + 1) with
  | none =>
    simp only [hnb] at h
    unfold groupableLastIdx at h
    by_cases hi : innerCls c = true
    · have hi' : Gen.groupableInner.contains c = true := hi
      rw [if_pos hi'] at h
      obtain ⟨hlast, hfirst⟩ := hl hi
      have h0 : t ≠ 0 := by
        intro h0; subst h0
        cases ks with
        | nil => simp at hlen
        | cons x xs =>
          simp only [List.getElem?_cons_zero, Option.some.injEq] at htok
          subst htok
          simp [hkw] at hfirst
      have h1 : t ≠ ks.length - 1 := by
        intro hx
        have : ks.getLast? = some tok := by rw [List.getLast?_eq_getElem?, ← hx]; exact htok
        simp [lastOk, this, hkw] at hlast
      rw [if_pos (by omega)] at h
      cases h
    · have hi' : ¬ Gen.groupableInner.contains c = true := hi
      rw [if_neg hi', if_pos (by omega)] at h
      cases h
  | some q =>
    obtain ⟨eidx, ek⟩ := q
    have := (tokenNextBy_spec hnb).1
    simp only [hnb] at h
    rw [if_pos (by omega)] at h
    cases h

theorem whereEnd_lt {u : Text → Text} {c : Cls} {ks : List Node} {t e : Nat} (h : whereEnd u c ks t = .ok e)
    (_ht : t < ks.length) : e < ks.length := by
  unfold whereEnd at h
  cases hnb : tokenNextBy u ks [] Gen.group_where_token_next_by1_m .none (t + 1) with
  | none =>
    simp only [hnb] at h
    unfold groupableLastIdx at h
    split at h
    · split at h
      · cases h; omega
      · cases h
    · split at h
      · cases h; omega
      · cases h
  | some q =>
    obtain ⟨eidx, ek⟩ := q
    obtain ⟨_, h2⟩ := pend_range hnb
    simp only [hnb] at h
    split at h
    · cases h; omega
    · split at h
      · cases h; omega
      · cases h

theorem whereLoop_noerr {u : Text → Text} {c : Cls} : ∀ (n : Nat) (ks : List Node) (pend : Option (Nat × Node))
    (e : PyErr), whereLoop u c n ks pend = .error e →
    (∀ t tok, pend = some (t, tok) → t < ks.length ∧ ks.length - t ≤ n ∧ ks[t]? = some tok ∧ tok.isKwTok = true) →
    (innerCls c = true → lastOk ks = true ∧ firstOk ks = true) → False := by
  intro n
  induction n with
  | zero =>
    intro ks pend e h hp _
    cases pend with
    | none => simp [whereLoop] at h
    | some p => obtain ⟨t, tok⟩ := p; have := hp t tok rfl; omega
  | succ n ih =>
    intro ks pend e h hp hl
    cases pend with
    | none => simp [whereLoop] at h
    | some p =>
      obtain ⟨t, tok⟩ := p
      obtain ⟨htl, hm, htok, hkw⟩ := hp t tok rfl
      simp only [whereLoop] at h
      cases he : whereEnd u c ks t with
      | error e2 => exact whereEnd_noerr he htok hkw hl
      | ok eidx =>
        simp only [he] at h
        have hge := whereEnd_ge he htok hkw (fun hi => (hl hi).1)
        have hlt := whereEnd_lt he htl
        cases hg : groupTokens ks Gen.group_where_group_tokens0_cls t eidx true
            Gen.group_where_group_tokens0_extend with
        | error e2 => exact groupTokens_noerr hg htl
        | ok ks1 =>
          simp only [hg] at h
          have hlen := groupTokens_length hg hge hlt
          obtain ⟨r, hr, rfl⟩ := groupTokens_eq hg
          have hne : ks ≠ [] := by intro h0; subst h0; simp at htl
          refine ih _ _ _ h ?_ ?_
          · intro t2 tok2 hq
            obtain ⟨h1, h2⟩ := pend_range hq
            obtain ⟨h3, h4⟩ := pend_of_nextBy _ _ hq
            exact ⟨h2, by omega, h3, isKwTok_of_imt_m (by decide) h4⟩
          · intro hi
            obtain ⟨hla, hfi⟩ := hl hi
            exact ⟨groupTokens'_lastOk hr hla, ((groupTokens'_fstep hr (by decide)).first hne hfi).2⟩

/-! ### group_values -/
theorem valuesLoop_noerr : ∀ (n : Nat) (ks : List Node) (pend : Option (Nat × Node)) (en : Option Nat) (e : PyErr),
    valuesLoop n ks pend en = .error e →
    (∀ t tok, pend = some (t, tok) → t < ks.length ∧ ks.length - t ≤ n) → False := by
  intro n
  induction n with
  | zero =>
    intro ks pend en e h hp
    cases pend with
    | none => simp [valuesLoop] at h
    | some p => obtain ⟨t, tok⟩ := p; have := hp t tok rfl; omega
  | succ n ih =>
    intro ks pend en e h hp
    cases pend with
    | none => simp [valuesLoop] at h
    | some p =>
      obtain ⟨t, tok⟩ := p
      obtain ⟨htl, hm⟩ := hp t tok rfl
      simp only [valuesLoop] at h
      refine ih _ _ _ _ h ?_
      intro t2 tok2 hq
      obtain ⟨h1, h2⟩ := tokenNext_range hq
      omega

end Sql
