import SqlProofs.Group.LeadShape
/-!
# SqlProofs.Group.LeadDrv — `_group` keeps the shape `skippable* K whitespace* tail`

when no child of the protected prefix is a match and `K` cannot be absorbed as `prev_` by a match at the head of
the tail (`Prot`).
-/
namespace Sql

/-- `(pidx, prev_)` after the loop has walked over the children `A` (none of which matched), starting at index `i` -/
def lastPrev : List Node → Nat → Option (Nat × Node) → Option (Nat × Node)
  | [], _, pv => pv
  | x :: xs, i, pv => lastPrev xs (i + 1) (if x.isWhitespace then pv else some (i, x))

theorem lastPrev_append (a b : List Node) (i : Nat) (pv : Option (Nat × Node)) :
    lastPrev (a ++ b) i pv = lastPrev b (i + a.length) (lastPrev a i pv) := by
  induction a generalizing i pv with
  | nil => simp [lastPrev]
  | cons x a ih => simp only [List.cons_append, lastPrev, ih, List.length_cons]; congr 1; omega

theorem lastPrev_ws {ws : List Node} (h : ∀ x ∈ ws, x.isWhitespace = true) (i : Nat) (pv : Option (Nat × Node)) :
    lastPrev ws i pv = pv := by
  induction ws generalizing i with
  | nil => rfl
  | cons x xs ih =>
    simp only [lastPrev, h x List.mem_cons_self, ↓reduceIte]
    exact ih (fun y hy => h y (List.mem_cons_of_mem _ hy)) _

theorem lastPrev_lead {pre ws : List Node} {K : Node} (hK : K.isWhitespace = false)
    (hws : ∀ x ∈ ws, x.isWhitespace = true) :
    lastPrev (pre ++ K :: ws) 0 none = some (pre.length, K) := by
  rw [lastPrev_append]
  simp only [lastPrev, hK, Bool.false_eq_true, ↓reduceIte, Nat.zero_add]
  exact lastPrev_ws hws _ _

theorem drvStep_inert {cfg : DrvCfg} {st : DrvSt} {i : Nat} {x : Node} (hoff : st.off = 0)
    (hx : x.isWhitespace = true ∨ cfg.isMatch x = false) :
    ∃ r, drvStep cfg st i x = .ok { st with prev := if x.isWhitespace then st.prev else some (i, x), reached := r } := by
  unfold drvStep
  rw [hoff]
  simp only [Int.sub_zero, Int.toNat_natCast]
  rw [if_neg (by omega)]
  by_cases hw : x.isWhitespace = true
  · simp only [hw, ↓reduceIte]
    exact ⟨_, rfl⟩
  · have hw' : x.isWhitespace = false := by simpa using hw
    have hm : cfg.isMatch x = false := by
      rcases hx with h | h
      · rw [h] at hw'; cases hw'
      · exact h
    simp only [hw', Bool.false_eq_true, ↓reduceIte, hm]
    exact ⟨_, rfl⟩

/-- walking over children none of which matches changes nothing but `prev_` -/
theorem drvLoop_inert {cfg : DrvCfg} : ∀ (A snap : List Node) (i : Nat) (st : DrvSt), st.off = 0 →
    (∀ x ∈ A, x.isWhitespace = true ∨ cfg.isMatch x = false) →
    ∃ st1, drvLoop cfg (A ++ snap) i st = drvLoop cfg snap (i + A.length) st1 ∧
      st1.cur = st.cur ∧ st1.off = 0 ∧ st1.prev = lastPrev A i st.prev := by
  intro A
  induction A with
  | nil => intro snap i st hoff _; exact ⟨st, by simp, rfl, hoff, by simp [lastPrev]⟩
  | cons x A ih =>
    intro snap i st hoff hA
    obtain ⟨r, hr⟩ := drvStep_inert (cfg := cfg) (st := st) (i := i) hoff (hA x List.mem_cons_self)
    simp only [List.cons_append, drvLoop, hr]
    obtain ⟨st1, h1, h2, h3, h4⟩ := ih snap (i + 1)
      { st with prev := if x.isWhitespace then st.prev else some (i, x), reached := r } hoff
      (fun y hy => hA y (List.mem_cons_of_mem _ hy))
    refine ⟨st1, ?_, h2, h3, ?_⟩
    · rw [h1]
      simp only [List.length_cons]
      congr 1
      omega
    · rw [h4]; simp [lastPrev]

theorem drvLoop_lead {cfg : DrvCfg} (hp : PostAl3 cfg) {s : Nat} {L0 : List Node} :
    ∀ (snap : List Node) (idx : Nat) (st st' : DrvSt) (m : Nat), PrefRel s L0 st.cur → Al s snap idx st m →
      (∀ pidx p, st.prev = some (pidx, p) → s ≤ pidx) → drvLoop cfg snap idx st = .ok st' →
      PrefRel s L0 st'.cur := by
  intro snap
  induction snap with
  | nil => intro idx st st' m hrel _ _ h; simp [drvLoop] at h; subst h; exact hrel
  | cons token tl ih =>
    intro idx st st' m hrel hal hprev h
    simp only [drvLoop] at h
    cases hs : drvStep cfg st idx token with
    | error e => simp [hs] at h
    | ok st1 =>
      simp only [hs] at h
      obtain ⟨hrel1, ⟨m1, hal1⟩, hpv, _⟩ := drvStep_lead hp hrel hal (fun pidx p hpp => Or.inl (hprev pidx p hpp)) hs
      refine ih _ _ _ m1 hrel1 hal1 ?_ h
      rcases hpv with hpv | hpv
      · rw [hpv]; exact hprev
      · exact hpv

/-- the condition under which the protected prefix `A` with first tail child `H` is safe for a configuration -/
structure Prot (cfg : DrvCfg) (A : List Node) (tail : List Node) : Prop where
  inert : ∀ x ∈ A, x.isWhitespace = true ∨ cfg.isMatch x = false
  head : ∀ H, tail.head? = some H → H.isWhitespace = false ∧
    ∀ pidx p, lastPrev A 0 none = some (pidx, p) → FromT cfg ∨ cfg.validPrev p = false ∨ cfg.isMatch H = false

theorem lastPrev_lt : ∀ (A : List Node) (i : Nat) (pv : Option (Nat × Node)) (j : Nat) (p : Node),
    lastPrev A i pv = some (j, p) → pv = some (j, p) ∨ j < i + A.length := by
  intro A
  induction A with
  | nil => intro i pv j p h; exact Or.inl h
  | cons x A ih =>
    intro i pv j p h
    simp only [lastPrev] at h
    rcases ih _ _ _ _ h with h1 | h1
    · split at h1
      · exact Or.inl h1
      · cases h1; right; simp only [List.length_cons]; omega
    · right; simp only [List.length_cons]; omega

theorem drvLoop_protect {cfg : DrvCfg} (hp : PostAl3 cfg) {A tail : List Node} (hprot : Prot cfg A tail)
    {st' : DrvSt} (h : drvLoop cfg (A ++ tail) 0 (drvInit (A ++ tail)) = .ok st') :
    PrefRel A.length (A ++ tail) st'.cur := by
  obtain ⟨st0, hr, hcur, hoff, hpv⟩ := drvLoop_inert (cfg := cfg) A tail 0 (drvInit (A ++ tail)) rfl hprot.inert
  rw [hr] at h
  simp only [Nat.zero_add] at h
  have hpv : st0.prev = lastPrev A 0 none := hpv
  have hcur : st0.cur = A ++ tail := hcur
  cases tail with
  | nil =>
    simp [drvLoop] at h; subst h
    rw [hcur]; exact PrefRel.refl _ _
  | cons H tl =>
    obtain ⟨hHw, hHp⟩ := hprot.head H rfl
    simp only [drvLoop] at h
    cases hs : drvStep cfg st0 A.length H with
    | error e => simp [hs] at h
    | ok st1 =>
      simp only [hs] at h
      have hal : Al A.length (H :: tl) A.length st0 0 := by
        refine ⟨by simp, by rw [hoff]; simp, ?_, ?_, ?_, ?_⟩
        · simp only [hoff, hcur, Int.natCast_zero, Int.add_zero, Int.sub_zero, Int.toNat_natCast, Nat.zero_add,
            List.drop_succ_cons, List.drop_zero]
          rw [← drop_drop_add]
          simp
        · intro pidx p hpp
          rw [hpv] at hpp
          rcases lastPrev_lt _ _ _ _ _ hpp with h1 | h1
          · cases h1
          · simp only [hoff, Int.natCast_zero, Int.add_zero, Int.sub_zero]
            omega
        · intro _
          simp only [hoff, hcur, Int.natCast_zero, Int.add_zero, Int.sub_zero, Int.toNat_natCast,
            List.length_append, List.length_cons]
          omega
        · simp [hoff]
      have hrel0 : PrefRel A.length (A ++ H :: tl) st0.cur := by rw [hcur]; exact PrefRel.refl _ _
      obtain ⟨hrel1, ⟨m1, hal1⟩, _, hclean⟩ := drvStep_lead hp hrel0 hal
        (fun pidx p hpp => Or.inr (hHp pidx p (hpv ▸ hpp))) hs
      exact drvLoop_lead hp _ _ _ _ m1 hrel1 hal1 (hclean rfl hHw) h

end Sql
