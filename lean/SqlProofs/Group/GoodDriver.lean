import SqlModel.Grouping.Driver
import SqlProofs.Group.GoodAdHoc
/-!
# SqlProofs.Group.GoodDriver — `_group` keeps the tree well-formed

Two arguments, by the shape of `post`:

* **`PostIdx`** (all configurations that extend, and `group_typed_literal`'s first run which groups from `tidx`):
  `post` returns the list unchanged, `to_idx ≥ tidx`, and `from_idx` is `tidx`, or `pidx` with `extend=True`.
  Invariant: the remembered `pidx` is `≤` the current index, *or* `prev_` is the group this loop just made, sitting at
  `pidx` — in which case `group_tokens` takes the extend branch, which cannot create an empty group (and indeed
  `to_idx < from_idx` does occur: `select insert a := x := y ;`).
* **`PostAl`** (`group_operator`, `group_comparison`: `(pidx, nidx)`, no extension): here one needs that the stale
  snapshot elements between the operator and `next_` are whitespace.  Invariant: after `m` whitespace elements the
  rest of the snapshot is `cur.drop (a+1)` where `a = idx + m − off`, and `pidx ≤ a`.
-/
namespace Sql

/-- with `include_end=True` and `start ≤ end`, both branches of `group_tokens` splice at `[start, end]` -/
theorem groupTokens'_shape {ks : List Node} {cls : Cls} {a b : Nat} {ext : Bool} {r : List Node × Node}
    (h : groupTokens' ks cls a b true ext = .ok r) (hab : a ≤ b) :
    r.1 = ks.take a ++ r.2 :: ks.drop (b + 1) := by
  have hc := groupTokens'_cases h
  simp only [↓reduceIte] at hc
  rcases hc with ⟨c, kids, _, _, _, rfl⟩ | ⟨_, _, rfl⟩
  · simp only; rw [Nat.max_eq_right (by omega)]
  · simp only; rw [Nat.max_eq_right (by omega)]

theorem drop_drop_add {α : Type} (l : List α) (a : Nat) : ∀ d, (l.drop a).drop d = l.drop (a + d)
  | 0 => rfl
  | d + 1 => by rw [← List.tail_drop, drop_drop_add l a d, List.tail_drop]; rfl

theorem drop_congr_add {α : Type} {l1 l2 : List α} {a : Nat} (h : l1.drop a = l2.drop a) (d : Nat) :
    l1.drop (a + d) = l2.drop (a + d) := by
  rw [← drop_drop_add, ← drop_drop_add, h]

/-! ## first argument -/
structure PostIdx (cfg : DrvCfg) : Prop where
  inner : innerCls cfg.cls = false
  notTL : cfg.cls ≠ .TokenList
  post : ∀ cur p t n r, (∀ n', n = some n' → t < n') → cfg.post cur p t n = .ok r →
    r.1 = cur ∧ t ≤ r.2.2 ∧ (r.2.1 = t ∨ (r.2.1 = p ∧ cfg.extend = true))

structure BInv (cfg : DrvCfg) (idx : Nat) (st : DrvSt) : Prop where
  good : goodL st.cur = true
  prev : ∀ pidx p, st.prev = some (pidx, p) →
    ((pidx : Int) ≤ (idx : Int) - st.off) ∨ (st.cur[pidx]? = some p ∧ p.isInst cfg.cls = true)

theorem drvStep_B {cfg : DrvCfg} (hp : PostIdx cfg) {st st' : DrvSt} {idx : Nat} {token : Node}
    (hinv : BInv cfg idx st) (h : drvStep cfg st idx token = .ok st') :
    BInv cfg (idx + 1) st' ∧ (lastOk st.cur = true → lastOk st'.cur = true) ∧ (st.cur ≠ [] → st'.cur ≠ []) := by
  obtain ⟨hg, hprev⟩ := hinv
  have hskip : ∀ r, BInv cfg (idx + 1) { st with reached := r } := by
    intro r
    refine ⟨hg, ?_⟩
    intro pidx p hpp
    rcases hprev pidx p hpp with h1 | h1
    · left; simp only; omega
    · right; exact h1
  unfold drvStep at h
  split at h
  · cases h; exact ⟨hskip _, id, id⟩
  · rename_i hneg
    simp only at h
    have htid : ((((idx : Int) - st.off).toNat : Nat) : Int) = (idx : Int) - st.off := by omega
    generalize ((idx : Int) - st.off).toNat = tidx at h htid
    have hplain : BInv cfg (idx + 1) { st with reached := true :: st.reached, prev := some (tidx, token) } := by
      refine ⟨hg, ?_⟩
      intro pidx p hpp
      simp only [Option.some.injEq, Prod.mk.injEq] at hpp
      left; simp only; omega
    split at h
    · cases h; exact ⟨hskip _, id, id⟩
    · split at h
      · cases hpv : st.prev with
        | none => simp only [hpv] at h; cases h; exact ⟨hplain, id, id⟩
        | some q =>
          obtain ⟨pidx, prev⟩ := q
          simp only [hpv] at h
          split at h
          · cases hpost : cfg.post st.cur pidx tidx (Option.map (·.1) (tokenNext st.cur tidx)) with
            | error e => simp [hpost] at h
            | ok r =>
              obtain ⟨cur1, fromIdx, toIdx⟩ := r
              simp only [hpost] at h
              cases hgt : groupTokens' cur1 cfg.cls fromIdx toIdx true cfg.extend with
              | error e => simp [hgt] at h
              | ok r2 =>
                obtain ⟨cur2, grp⟩ := r2
                simp only [hgt, Except.ok.injEq] at h
                subst h
                have hnx : ∀ n', Option.map (·.1) (tokenNext st.cur tidx) = some n' → tidx < n' := by
                  intro n' hn
                  cases hq : tokenNext st.cur tidx with
                  | none => simp [hq] at hn
                  | some q =>
                    obtain ⟨n2, k2⟩ := q
                    simp only [hq, Option.map_some, Option.some.injEq] at hn
                    subst hn
                    exact (tokenNext_hit hq).1
                obtain ⟨hcur, hto, hfrom⟩ := hp.post _ _ _ _ _ hnx hpost
                simp only at hcur hto hfrom
                subst hcur
                have hidx : fromIdx ≤ toIdx ∨
                    (cfg.extend = true ∧ ∃ st0, st.cur[fromIdx]? = some st0 ∧ st0.isInst cfg.cls = true) := by
                  rcases hfrom with hf | ⟨hf, hext⟩
                  · left; omega
                  · rcases hprev pidx prev hpv with h1 | h1
                    · left; omega
                    · right; exact ⟨hext, prev, hf ▸ h1.1, h1.2⟩
                have hgood2 := groupTokens'_good_plain hgt hg hp.inner hp.notTL hidx
                obtain ⟨hat, hinst, _⟩ := groupTokens'_at hgt
                refine ⟨⟨groupTokens'_goodL hgt hg hgood2, ?_⟩, groupTokens'_lastOk hgt, fun _ => groupTokens'_ne_nil hgt⟩
                intro pidx' p' hpp
                simp only [Option.some.injEq, Prod.mk.injEq] at hpp
                obtain ⟨rfl, rfl⟩ := hpp
                right; exact ⟨hat, hinst⟩
          · cases h; exact ⟨hplain, id, id⟩
      · cases h; exact ⟨hplain, id, id⟩

theorem drvLoop_B {cfg : DrvCfg} (hp : PostIdx cfg) :
    ∀ (snap : List Node) (idx : Nat) (st st' : DrvSt), BInv cfg idx st → drvLoop cfg snap idx st = .ok st' →
      Tri st.cur st'.cur ∧ goodL st'.cur = true := by
  intro snap
  induction snap with
  | nil => intro idx st st' hinv h; simp [drvLoop] at h; subst h; exact ⟨Tri.refl _, hinv.good⟩
  | cons token snap ih =>
    intro idx st st' hinv h
    simp only [drvLoop] at h
    cases hs : drvStep cfg st idx token with
    | error e => simp [hs] at h
    | ok st1 =>
      simp only [hs] at h
      obtain ⟨hinv1, hl1, hn1⟩ := drvStep_B hp hinv hs
      obtain ⟨t2, hg2⟩ := ih _ _ _ hinv1 h
      exact ⟨⟨fun _ => hg2, fun hl => t2.last (hl1 hl), fun hn => t2.ne (hn1 hn)⟩, hg2⟩

/-! ## second argument -/
structure PostAl (cfg : DrvCfg) : Prop where
  inner : innerCls cfg.cls = false
  notTL : cfg.cls ≠ .TokenList
  post : ∀ cur p t n r, cfg.post cur p t n = .ok r →
    ∃ n', n = some n' ∧ r.2.1 = p ∧ r.2.2 = n' ∧ (goodL cur = true → goodL r.1 = true) ∧
      (lastOk cur = true → lastOk r.1 = true) ∧ (cur ≠ [] → r.1 ≠ []) ∧
      r.1.length = cur.length ∧ r.1.drop (t + 1) = cur.drop (t + 1)

structure AInv (snap : List Node) (idx : Nat) (st : DrvSt) : Prop where
  good : goodL st.cur = true
  al : ∃ m : Nat, (∀ x ∈ snap.take m, x.isWhitespace = true) ∧ st.off ≤ (idx : Int) + m ∧
        snap.drop (m + 1) = st.cur.drop (((idx : Int) + m - st.off).toNat + 1) ∧
        ∀ pidx p, st.prev = some (pidx, p) → (pidx : Int) ≤ (idx : Int) + m - st.off

theorem drvStep_A {cfg : DrvCfg} (hp : PostAl cfg) {st st' : DrvSt} {idx : Nat} {token : Node} {tl : List Node}
    (hinv : AInv (token :: tl) idx st) (h : drvStep cfg st idx token = .ok st') :
    AInv tl (idx + 1) st' ∧ (lastOk st.cur = true → lastOk st'.cur = true) ∧ (st.cur ≠ [] → st'.cur ≠ []) := by
  obtain ⟨hg, m, hws, hoff, hal, hprev⟩ := hinv
  cases m with
  | succ k =>
    -- inside a run of stale whitespace: the step is a skip
    have htokws : token.isWhitespace = true := hws token (by simp)
    have hst' : ∃ r, st' = { st with reached := r } := by
      unfold drvStep at h
      split at h
      · cases h; exact ⟨_, rfl⟩
      · simp only at h
        cases h; exact ⟨_, rfl⟩
    obtain ⟨r, rfl⟩ := hst'
    refine ⟨⟨hg, k, ?_, ?_, ?_, ?_⟩, id, id⟩
    · intro x hx
      exact hws x (by simp only [List.take_succ_cons]; exact List.mem_cons_of_mem _ hx)
    · simp only; push_cast at hoff ⊢; omega
    · simp only [List.drop_succ_cons] at hal
      have e : ((idx + 1 : Nat) : Int) + (k : Nat) - st.off = (idx : Int) + ((k + 1 : Nat) : Int) - st.off := by
        push_cast; omega
      simp only
      rw [e]; exact hal
    · intro pidx p hpp
      have := hprev pidx p hpp
      push_cast at this ⊢; omega
  | zero =>
    simp only [Int.natCast_zero, Int.add_zero, List.take_zero, List.drop_succ_cons, List.drop_zero] at hws hoff hal hprev
    unfold drvStep at h
    split at h
    · rename_i hneg; omega
    · simp only at h
      have htid : ((((idx : Int) - st.off).toNat : Nat) : Int) = (idx : Int) - st.off := by omega
      generalize ((idx : Int) - st.off).toNat = tidx at h htid hal
      have hnext : ∀ (pv : Option (Nat × Node)) r, (∀ pidx p, pv = some (pidx, p) → pidx ≤ tidx + 1) →
          AInv tl (idx + 1) { st with reached := r, prev := pv } := by
        intro pv r hpv
        refine ⟨hg, 0, by simp, ?_, ?_, ?_⟩
        · simp only; push_cast; omega
        · simp only [Int.natCast_zero, Int.add_zero]
          have e : (((idx + 1 : Nat) : Int) - st.off).toNat = tidx + 1 := by push_cast; omega
          rw [e, hal]
          simp [List.drop_drop]
        · intro pidx p hpp
          have := hpv pidx p hpp
          simp only [Int.natCast_zero, Int.add_zero]
          push_cast; omega
      have hskip : ∀ r, AInv tl (idx + 1) { st with reached := r } := by
        intro r
        have := hnext st.prev r (by intro pidx p hpp; have := hprev pidx p hpp; omega)
        simpa using this
      have hplain : AInv tl (idx + 1) { st with reached := true :: st.reached, prev := some (tidx, token) } :=
        hnext _ _ (by intro pidx p hpp; simp only [Option.some.injEq, Prod.mk.injEq] at hpp; omega)
      split at h
      · cases h; exact ⟨hskip _, id, id⟩
      · split at h
        · cases hpv : st.prev with
          | none => simp only [hpv] at h; cases h; exact ⟨hplain, id, id⟩
          | some q =>
            obtain ⟨pidx, prev⟩ := q
            simp only [hpv] at h
            split at h
            · cases hpost : cfg.post st.cur pidx tidx (Option.map (·.1) (tokenNext st.cur tidx)) with
              | error e => simp [hpost] at h
              | ok r =>
                obtain ⟨cur1, fromIdx, toIdx⟩ := r
                simp only [hpost] at h
                cases hgt : groupTokens' cur1 cfg.cls fromIdx toIdx true cfg.extend with
                | error e => simp [hgt] at h
                | ok r2 =>
                  obtain ⟨cur2, grp⟩ := r2
                  simp only [hgt, Except.ok.injEq] at h
                  subst h
                  obtain ⟨n', hn, hf, ht, hg1, hl1, hne1, hlen1, hdrop1⟩ := hp.post _ _ _ _ _ hpost
                  simp only at hf ht hg1 hl1 hne1 hlen1 hdrop1
                  subst hf; subst ht
                  cases hq : tokenNext st.cur tidx with
                  | none => simp [hq] at hn
                  | some q =>
                    obtain ⟨n2, k2⟩ := q
                    simp only [hq, Option.map_some, Option.some.injEq] at hn
                    subst hn
                    obtain ⟨hlt, _, hbetween⟩ := tokenNext_hit hq
                    have hpa : fromIdx ≤ tidx := by have := hprev fromIdx prev hpv; omega
                    have hgood1 := hg1 hg
                    have hgood2 := groupTokens'_good_plain hgt hgood1 hp.inner hp.notTL (Or.inl (by omega))
                    obtain ⟨_, _, hfl⟩ := groupTokens'_at hgt
                    have hshape := groupTokens'_shape hgt (by omega : fromIdx ≤ n2)
                    simp only at hshape
                    refine ⟨⟨groupTokens'_goodL hgt hgood1 hgood2, n2 - tidx - 1, ?_, ?_, ?_, ?_⟩,
                      fun hl => groupTokens'_lastOk hgt (hl1 hl), fun _ => groupTokens'_ne_nil hgt⟩
                    · intro x hx
                      rw [hal] at hx
                      obtain ⟨i, hi, hxi⟩ := List.getElem_of_mem hx
                      simp only [List.length_take, List.length_drop] at hi
                      have : st.cur[tidx + 1 + i]? = some x := by
                        rw [← hxi]
                        simp [List.getElem_take, List.getElem_drop]
                      exact hbetween (tidx + 1 + i) x (by omega) (by omega) this
                    · simp only; push_cast; omega
                    · simp only
                      have e : (((idx + 1 : Nat) : Int) + ((n2 - tidx - 1 : Nat) : Int) -
                          (st.off + ((n2 : Int) - (fromIdx : Int)))).toNat = fromIdx := by
                        push_cast; omega
                      rw [e, hshape, drop_splice _ _ (by omega), hal, drop_drop_add]
                      have e2 : tidx + 1 + (n2 - tidx - 1 + 1) = n2 + 1 := by omega
                      have := drop_congr_add hdrop1 (n2 - tidx - 1 + 1)
                      rw [e2] at this ⊢
                      exact this.symm
                    · intro pidx' p' hpp
                      simp only [Option.some.injEq, Prod.mk.injEq] at hpp
                      obtain ⟨rfl, rfl⟩ := hpp
                      push_cast; omega
            · cases h; exact ⟨hplain, id, id⟩
        · cases h; exact ⟨hplain, id, id⟩

theorem drvLoop_A {cfg : DrvCfg} (hp : PostAl cfg) :
    ∀ (snap : List Node) (idx : Nat) (st st' : DrvSt), AInv snap idx st → drvLoop cfg snap idx st = .ok st' →
      Tri st.cur st'.cur ∧ goodL st'.cur = true := by
  intro snap
  induction snap with
  | nil => intro idx st st' hinv h; simp [drvLoop] at h; subst h; exact ⟨Tri.refl _, hinv.good⟩
  | cons token snap ih =>
    intro idx st st' hinv h
    simp only [drvLoop] at h
    cases hs : drvStep cfg st idx token with
    | error e => simp [hs] at h
    | ok st1 =>
      simp only [hs] at h
      obtain ⟨hinv1, hl1, hn1⟩ := drvStep_A hp hinv hs
      obtain ⟨t2, hg2⟩ := ih _ _ _ hinv1 h
      exact ⟨⟨fun _ => hg2, fun hl => t2.last (hl1 hl), fun hn => t2.ne (hn1 hn)⟩, hg2⟩

/-- the parent-level loop of a configuration keeps a good child list good -/
def LoopGood (cfg : DrvCfg) : Prop :=
  ∀ ks st', goodL ks = true → drvLoop cfg ks 0 (drvInit ks) = .ok st' → Tri ks st'.cur

theorem loopGood_of_postIdx {cfg : DrvCfg} (hp : PostIdx cfg) : LoopGood cfg := by
  intro ks st' hg h
  have hinv : BInv cfg 0 (drvInit ks) := ⟨hg, by intro pidx p hpp; simp [drvInit] at hpp⟩
  exact (drvLoop_B hp _ _ _ _ hinv h).1

theorem loopGood_of_postAl {cfg : DrvCfg} (hp : PostAl cfg) : LoopGood cfg := by
  intro ks st' hg h
  have hinv : AInv ks 0 (drvInit ks) := by
    refine ⟨hg, 0, by simp, by simp [drvInit], ?_, by intro pidx p hpp; simp [drvInit] at hpp⟩
    simp [drvInit]
  exact (drvLoop_A hp _ _ _ _ hinv h).1

theorem groupDriver_good_aux :
    ∀ (fuel : Nat) (cfg : DrvCfg), LoopGood cfg → LoopGood { cfg with recurse := true } →
      KidsGood (fun _ ks => groupDriver cfg fuel ks) := by
  intro fuel
  induction fuel with
  | zero => intro cfg _ _ c ks ks' h; simp [groupDriver] at h
  | succ n ih =>
    intro cfg hl hl' c ks ks' h hk
    simp only [groupDriver] at h
    split at h
    · cases hd : drvLoop cfg ks 0 (drvInit ks) with
      | error e => simp [hd] at h
      | ok dry =>
        simp only [hd] at h
        cases hm : mapGroupsWhere (fun _ kids => groupDriver { cfg with recurse := true } n kids)
            (drvEligible cfg.cls dry.reached.reverse ks) ks with
        | error e => simp [hm] at h
        | ok ks1 =>
          simp only [hm] at h
          cases hlp : drvLoop cfg ks1 0 (drvInit ks1) with
          | error e => simp [hlp] at h
          | ok st =>
            simp only [hlp, Except.ok.injEq] at h
            subst h
            have hrec : KidsGood (fun _ kids => groupDriver { cfg with recurse := true } n kids) :=
              ih _ hl' hl'
            obtain ⟨h1, h1'⟩ := hk.of_map (mapGroupsWhere_good hrec _ _ _ hm hk.1)
            obtain ⟨h2, h2'⟩ := (hl _ _ h1.1 hlp).goodKids h1
            exact ⟨h2, fun hne => h2' (h1' hne)⟩
    · cases hlp : drvLoop cfg ks 0 (drvInit ks) with
      | error e => simp [hlp] at h
      | ok st =>
        simp only [hlp, Except.ok.injEq] at h
        subst h
        exact (hl _ _ hk.1 hlp).goodKids hk

theorem groupDriver_good_idx {cfg : DrvCfg} (hp : PostIdx cfg) (fuel : Nat) :
    KidsGood (fun _ ks => groupDriver cfg fuel ks) :=
  groupDriver_good_aux fuel cfg (loopGood_of_postIdx hp)
    (loopGood_of_postIdx (cfg := { cfg with recurse := true }) ⟨hp.inner, hp.notTL, hp.post⟩)

theorem groupDriver_good_al {cfg : DrvCfg} (hp : PostAl cfg) (fuel : Nat) :
    KidsGood (fun _ ks => groupDriver cfg fuel ks) :=
  groupDriver_good_aux fuel cfg (loopGood_of_postAl hp)
    (loopGood_of_postAl (cfg := { cfg with recurse := true }) ⟨hp.inner, hp.notTL, hp.post⟩)

end Sql
