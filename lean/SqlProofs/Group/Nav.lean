import SqlModel.Tree
/-!
# SqlProofs.Group.Nav — index facts about `_token_matching`, `token_next`, `token_prev`, `token_next_by`
-/
namespace Sql

theorem tokenMatchingFwd_go_spec (f : Node → Bool) (stop : Nat) :
    ∀ (l : List Node) (i j : Nat) (k : Node), tokenMatchingFwd.go f stop l i = some (j, k) →
      ∃ pre post, l = pre ++ k :: post ∧ j = i + pre.length ∧ f k = true ∧ ∀ x ∈ pre, f x = false := by
  intro l
  induction l with
  | nil => intro i j k h; simp [tokenMatchingFwd.go] at h
  | cons x rest ih =>
    intro i j k h
    simp only [tokenMatchingFwd.go] at h
    split at h
    · cases h
    · split at h
      · rename_i hf
        simp only [Option.some.injEq, Prod.mk.injEq] at h
        obtain ⟨rfl, rfl⟩ := h
        exact ⟨[], rest, rfl, rfl, hf, by simp⟩
      · rename_i hf
        obtain ⟨pre, post, hl, hj, hk, hpre⟩ := ih _ _ _ h
        refine ⟨x :: pre, post, by simp [hl], by simp [hj]; omega, hk, ?_⟩
        intro y hy
        cases hy with
        | head => simpa using hf
        | tail _ hy => exact hpre y hy

/-- forward search: the hit is at or after `start`, in range, satisfies `f`, and nothing in between does -/
theorem tokenMatchingFwd_hit {ks : List Node} {f : Node → Bool} {start : Nat} {stop : Option Nat} {j : Nat} {k : Node}
    (h : tokenMatchingFwd ks f start stop = some (j, k)) :
    start ≤ j ∧ ks[j]? = some k ∧ f k = true ∧ ∀ i x, start ≤ i → i < j → ks[i]? = some x → f x = false := by
  unfold tokenMatchingFwd at h
  obtain ⟨pre, post, hl, hj, hk, hpre⟩ := tokenMatchingFwd_go_spec f _ _ _ _ _ h
  have hget : ∀ i, (ks.drop start)[i]? = ks[start + i]? := by intro i; simp [List.getElem?_drop]
  refine ⟨by omega, ?_, hk, ?_⟩
  · rw [hj, ← hget, hl]
    simp
  · intro i x hi hij hx
    have : (ks.drop start)[i - start]? = some x := by rw [hget]; rw [show start + (i - start) = i by omega]; exact hx
    rw [hl, List.getElem?_append_left (by omega)] at this
    exact hpre x (List.mem_of_getElem? this)

theorem tokenMatchingRev_go_spec (ks : List Node) (f : Node → Bool) :
    ∀ (n j : Nat) (k : Node), tokenMatchingRev.go ks f n = some (j, k) → j < n ∧ ks[j]? = some k ∧ f k = true := by
  intro n
  induction n with
  | zero => intro j k h; simp [tokenMatchingRev.go] at h
  | succ n ih =>
    intro j k h
    simp only [tokenMatchingRev.go] at h
    split at h
    · rename_i x hx
      split at h
      · rename_i hf
        simp only [Option.some.injEq, Prod.mk.injEq] at h
        obtain ⟨rfl, rfl⟩ := h
        exact ⟨by omega, hx, hf⟩
      · obtain ⟨h1, h2, h3⟩ := ih _ _ h
        exact ⟨by omega, h2, h3⟩
    · obtain ⟨h1, h2, h3⟩ := ih _ _ h
      exact ⟨by omega, h2, h3⟩

theorem tokenMatchingRev_spec {ks : List Node} {f : Node → Bool} {start j : Nat} {k : Node}
    (h : tokenMatchingRev ks f start = some (j, k)) : j + 1 < start ∧ ks[j]? = some k ∧ f k = true := by
  unfold tokenMatchingRev at h
  obtain ⟨h1, h2, h3⟩ := tokenMatchingRev_go_spec ks f _ _ _ h
  exact ⟨by omega, h2, h3⟩

/-- `token_next(idx)`: the hit is strictly after `idx`, and everything strictly between is whitespace -/
theorem tokenNext_hit {ks : List Node} {idx n : Nat} {k : Node} (h : tokenNext ks idx = some (n, k)) :
    idx < n ∧ ks[n]? = some k ∧ ∀ i x, idx < i → i < n → ks[i]? = some x → x.isWhitespace = true := by
  unfold tokenNext at h
  obtain ⟨h1, h2, _, h4⟩ := tokenMatchingFwd_hit h
  refine ⟨by omega, h2, ?_⟩
  intro i x hi hin hx
  have := h4 i x (by omega) hin hx
  simpa [skipMatcher] using this

/-- `token_prev(idx)` (any flags): the hit is strictly before `idx` -/
theorem tokenPrev_hit {ks : List Node} {idx p : Nat} {k : Node} {ws cm : Bool}
    (h : tokenPrev ks idx ws cm = some (p, k)) : p < idx ∧ ks[p]? = some k := by
  unfold tokenPrev at h
  obtain ⟨h1, h2, _⟩ := tokenMatchingRev_spec h
  exact ⟨by omega, h2⟩

/-- `token_prev(idx, skip_ws=False)` is the element just before `idx` -/
theorem tokenPrev_noskip {ks : List Node} {idx p : Nat} {k : Node}
    (h : tokenPrev ks idx false false = some (p, k)) (hidx : idx ≤ ks.length) (hpos : 0 < idx) : p + 1 = idx := by
  unfold tokenPrev tokenMatchingRev at h
  simp only [Nat.add_sub_cancel] at h
  cases idx with
  | zero => omega
  | succ m =>
    simp only [tokenMatchingRev.go] at h
    have hm : m < ks.length := by omega
    rw [List.getElem?_eq_getElem hm] at h
    simp only [skipMatcher, Bool.false_and, Bool.or_self, Bool.not_false, ↓reduceIte, Option.some.injEq,
      Prod.mk.injEq] at h
    omega

theorem tokenNextBy_spec {upper : Text → Text} {ks : List Node} {i : List Cls} {m : List MPat} {t : TArg}
    {start : Nat} {stop : Option Nat} {j : Nat} {k : Node}
    (h : tokenNextBy upper ks i m t start stop = some (j, k)) :
    start ≤ j ∧ ks[j]? = some k ∧ imt upper k i m t = true := by
  unfold tokenNextBy at h
  obtain ⟨h1, h2, h3, _⟩ := tokenMatchingFwd_hit h
  exact ⟨h1, h2, h3⟩

end Sql

namespace Sql

theorem tokenMatchingFwd_go_none (f : Node → Bool) :
    ∀ (l : List Node) (i : Nat), tokenMatchingFwd.go f (i + l.length) l i = none → ∀ x ∈ l, f x = false := by
  intro l
  induction l with
  | nil => intro i _ x hx; cases hx
  | cons y rest ih =>
    intro i h x hx
    simp only [tokenMatchingFwd.go, List.length_cons] at h
    rw [if_neg (by omega)] at h
    split at h
    · cases h
    · rename_i hf
      cases hx with
      | head => simpa using hf
      | tail _ hx =>
        have e : i + (rest.length + 1) = (i + 1) + rest.length := by omega
        rw [e] at h
        exact ih (i + 1) h x hx

/-- forward search to the end of the list without a hit: nothing from `start` on satisfies `f` -/
theorem tokenMatchingFwd_none {ks : List Node} {f : Node → Bool} {start : Nat}
    (h : tokenMatchingFwd ks f start none = none) : ∀ i x, start ≤ i → ks[i]? = some x → f x = false := by
  intro i x hi hx
  unfold tokenMatchingFwd at h
  simp only [Option.getD_none] at h
  have hlen : i < ks.length := (List.getElem?_eq_some_iff.1 hx).1
  have e : ks.length = start + (ks.drop start).length := by simp [List.length_drop]; omega
  rw [e] at h
  refine tokenMatchingFwd_go_none f _ _ h x ?_
  have : (ks.drop start)[i - start]? = some x := by
    rw [List.getElem?_drop, show start + (i - start) = i by omega]; exact hx
  exact List.mem_of_getElem? this

theorem tokenNextBy_none {upper : Text → Text} {ks : List Node} {i : List Cls} {m : List MPat} {t : TArg} {start : Nat}
    (h : tokenNextBy upper ks i m t start = none) :
    ∀ j x, start ≤ j → ks[j]? = some x → imt upper x i m t = false := by
  unfold tokenNextBy at h
  exact tokenMatchingFwd_none h

/-- the hit of `token_next_by` is the *first* one from `start` -/
theorem tokenNextBy_first {upper : Text → Text} {ks : List Node} {i : List Cls} {m : List MPat} {t : TArg}
    {start j : Nat} {k : Node} (h : tokenNextBy upper ks i m t start = some (j, k)) :
    ∀ j' x, start ≤ j' → j' < j → ks[j']? = some x → imt upper x i m t = false := by
  unfold tokenNextBy at h
  exact (tokenMatchingFwd_hit h).2.2.2

end Sql

namespace Sql

theorem tokenMatchingRev_go_between (ks : List Node) (f : Node → Bool) :
    ∀ (n j : Nat) (k : Node), tokenMatchingRev.go ks f n = some (j, k) →
      ∀ j' x, j < j' → j' < n → ks[j']? = some x → f x = false := by
  intro n
  induction n with
  | zero => intro j k h; simp [tokenMatchingRev.go] at h
  | succ n ih =>
    intro j k h j' x hj hj' hx
    simp only [tokenMatchingRev.go] at h
    split at h
    · rename_i y hy
      split at h
      · simp only [Option.some.injEq, Prod.mk.injEq] at h
        omega
      · rename_i hf
        by_cases hn : j' = n
        · subst hn
          rw [hy] at hx; cases hx
          simpa using hf
        · exact ih _ _ h j' x hj (by omega) hx
    · rename_i hy
      by_cases hn : j' = n
      · subst hn; rw [hx] at hy; cases hy
      · exact ih _ _ h j' x hj (by omega) hx

/-- everything strictly between the hit of `token_prev(idx)` and `idx` is whitespace -/
theorem tokenPrev_between {ks : List Node} {idx p : Nat} {k : Node} (h : tokenPrev ks idx = some (p, k)) :
    ∀ j x, p < j → j < idx → ks[j]? = some x → x.isWhitespace = true := by
  intro j x hj hj' hx
  unfold tokenPrev tokenMatchingRev at h
  have := tokenMatchingRev_go_between ks _ _ _ _ h j x hj (by omega) hx
  simpa [skipMatcher] using this

end Sql
