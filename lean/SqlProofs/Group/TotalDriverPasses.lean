import SqlProofs.Group.TotalDriver
import SqlProofs.Group.GoodDriverPasses
/-!
# SqlProofs.Group.TotalDriverPasses — `PostAl2` / `PostB` for the eleven `_group` configurations
-/
namespace Sql

theorem postAl2_comparison (u) : PostAl2 (cfgComparison u) := by
  refine ⟨?_, ?_⟩
  · intro cur p t n r h
    change postPrevNext cur p t n = .ok r at h
    unfold postPrevNext at h
    cases n with
    | none => cases h
    | some n' => cases h; exact ⟨rfl, Or.inr ⟨n', rfl, rfl⟩, rfl, rfl⟩
  · intro cur p t e _ hv h
    change postPrevNext cur p t _ = .error e at h
    cases hq : tokenNext cur t with
    | none => rw [hq] at hv; simp [cfgComparison, validComparison] at hv
    | some q => rw [hq] at h; simp [postPrevNext] at h

theorem postAl2_operator (u) : PostAl2 (cfgOperator u) := by
  refine ⟨?_, ?_⟩
  · intro cur p t n r h
    change postOperator cur p t n = .ok r at h
    unfold postOperator at h
    cases hx : cur[t]? with
    | none => simp [hx] at h
    | some x =>
      simp only [hx] at h
      cases n with
      | none => cases h
      | some n' =>
        cases h
        refine ⟨rfl, Or.inr ⟨n', rfl, rfl⟩, by simp, ?_⟩
        simp only
        rw [List.drop_set_of_lt (by omega)]
  · intro cur p t e ht hv h
    change postOperator cur p t _ = .error e at h
    cases hq : tokenNext cur t with
    | none => rw [hq] at hv; simp [cfgOperator, validOperator] at hv
    | some q =>
      rw [hq] at h
      simp [postOperator, List.getElem?_eq_getElem ht] at h

theorem postAl2_period (u) : PostAl2 (cfgPeriod u) := by
  refine ⟨?_, ?_⟩
  · intro cur p t n r h
    change postPeriod u cur p t n = .ok r at h
    unfold postPeriod at h
    cases n with
    | none => cases h; exact ⟨rfl, Or.inl rfl, rfl, rfl⟩
    | some n' =>
      simp only at h
      split at h
      · cases h
      · split at h
        · cases h; exact ⟨rfl, Or.inr ⟨n', rfl, rfl⟩, rfl, rfl⟩
        · cases h; exact ⟨rfl, Or.inl rfl, rfl, rfl⟩
  · intro cur p t e _ _ h
    change postPeriod u cur p t _ = .error e at h
    cases hq : tokenNext cur t with
    | none => rw [hq] at h; simp [postPeriod] at h
    | some q =>
      obtain ⟨n2, k2⟩ := q
      obtain ⟨_, hk, _⟩ := tokenNext_hit hq
      rw [hq] at h
      simp only [Option.map_some, postPeriod, hk] at h
      split at h <;> cases h

theorem postAl2_arrays (u) : PostAl2 (cfgArrays u) := by
  refine ⟨?_, ?_⟩
  · intro cur p t n r h
    change postPrevTok cur p t n = .ok r at h
    cases h; exact ⟨rfl, Or.inl rfl, rfl, rfl⟩
  · intro cur p t e _ _ h
    change postPrevTok cur p t (Option.map (·.1) (tokenNext cur t)) = .error e at h
    cases h

theorem postPrevNext_some_noerr {cur : List Node} {p t n' : Nat} {e : PyErr}
    (h : postPrevNext cur p t (some n') = .error e) : False := by simp [postPrevNext] at h

theorem postTokNext_some_noerr {cur : List Node} {p t n' : Nat} {e : PyErr}
    (h : postTokNext cur p t (some n') = .error e) : False := by simp [postTokNext] at h

theorem postAssignment_some_noerr {u : Text → Text} {cur : List Node} {p t n' : Nat} {e : PyErr}
    (h : postAssignment u cur p t (some n') = .error e) : False := by
  unfold postAssignment at h
  simp only at h
  split at h <;> cases h

theorem postB_typecasts (u) : PostB (cfgTypecasts u) :=
  ⟨postIdx_typecasts u, rfl, fun _ _ t _ _ h => postPrevNext_some_noerr (t := t) h⟩
theorem postB_tzcasts (u) : PostB (cfgTzcasts u) :=
  ⟨postIdx_tzcasts u, rfl, fun _ _ t _ _ h => postPrevNext_some_noerr (t := t) h⟩
theorem postB_typedLiteral0 (u) : PostB (cfgTypedLiteral0 u) :=
  ⟨postIdx_typedLiteral0 u, rfl, fun _ p _ _ _ h => postTokNext_some_noerr (p := p) h⟩
theorem postB_typedLiteral1 (u) : PostB (cfgTypedLiteral1 u) :=
  ⟨postIdx_typedLiteral1 u, rfl, fun _ p _ _ _ h => postTokNext_some_noerr (p := p) h⟩
theorem postB_as (u) : PostB (cfgAs u) :=
  ⟨postIdx_as u, by simp [cfgAs], fun _ _ t _ _ h => postPrevNext_some_noerr (t := t) h⟩
theorem postB_assignment (u) : PostB (cfgAssignment u) :=
  ⟨postIdx_assignment u, rfl, fun _ _ t _ _ h => postAssignment_some_noerr (t := t) h⟩
theorem postB_identifierList (u) : PostB (cfgIdentifierList u) :=
  ⟨postIdx_identifierList u, rfl, fun _ _ t _ _ h => postPrevNext_some_noerr (t := t) h⟩

end Sql
