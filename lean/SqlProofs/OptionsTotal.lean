import SqlModel.Options
/-!
# SqlProofs.OptionsTotal — `validate_options` returns normally or raises SQLParseError, nothing else,
provided every integer stanza catches the three exceptions `int()` can raise.
-/
namespace Sql

theorem parseIntLit_err (isSpace : Cp → Bool) (ds : List Nat) (s : Text) (e : PyErr)
    (h : parseIntLit isSpace ds s = .error e) : e = .valueError := by
  unfold parseIntLit at h
  simp only at h
  split at h
  · injection h with h; exact h.symm
  · split at h
    · injection h with h; exact h.symm
    · split at h
      · cases h
      · injection h with h; exact h.symm

/-- `int(x)` raises nothing but ValueError, TypeError, OverflowError -/
theorem pyInt_err (isSpace : Cp → Bool) (ds : List Nat) (v : PyVal) (e : PyErr) (h : pyInt isSpace ds v = .error e) :
    e = .valueError ∨ e = .typeError ∨ e = .overflowError := by
  cases v <;> simp only [pyInt] at h
  · injection h with h; exact Or.inr (Or.inl h.symm)
  · cases h
  · cases h
  · exact Or.inl (parseIntLit_err _ _ _ _ h)
  · cases h
  · injection h with h; exact Or.inr (Or.inr h.symm)
  · injection h with h; exact Or.inl h.symm
  · injection h with h; exact Or.inr (Or.inl h.symm)

/-- an integer stanza converts every exception of `int()` into SQLParseError -/
def OptRule.catchesAll : OptRule → Bool
  | .intOpt _ _ _ caught _ _ _ _ _ _ => caught.contains .valueError && caught.contains .typeError && caught.contains .overflowError
  | _ => true

theorem runOptRule_err (d : PyDict) (r : OptRule) (hr : r.catchesAll = true) (e : PyErr)
    (h : runOptRule d r = .error e) : e = .sqlParseError := by
  cases r with
  | choice key allowed =>
    simp only [runOptRule] at h
    split at h
    · cases h
    · injection h with h; exact h.symm
  | flag key dflt allowed ifTrue ifFalse store =>
    simp only [runOptRule] at h
    split at h
    · injection h with h; exact h.symm
    · cases h
  | intOpt key dflt noneSkips caught bound strict storeInside fill storeAfter mustStr =>
    simp only [OptRule.catchesAll, Bool.and_eq_true] at hr
    simp only [runOptRule] at h
    split at h
    · cases h
    · split at h
      · rename_i e' he'
        injection h with h
        rcases pyInt_err _ _ _ _ he' with rfl | rfl | rfl
        · rw [if_pos hr.1.1] at h; exact h.symm
        · rw [if_pos hr.1.2] at h; exact h.symm
        · rw [if_pos hr.2] at h; exact h.symm
      · rename_i i hi
        by_cases hc : (if strict = true then i < bound else i ≤ bound)
        · rw [if_pos hc] at h; injection h with h; exact h.symm
        · rw [if_neg hc] at h
          generalize (List.foldl (fun d kd => PyDict.set d kd.1 (PyDict.getD d kd.1 kd.2))
            (if storeInside = true then PyDict.set d key (PyVal.int i) else d) fill) = d2 at h
          by_cases hm : (mustStr.any (fun k => notStr (PyDict.getD d2 k PyVal.none))) = true
          · rw [if_pos hm] at h; injection h with h; exact h.symm
          · rw [if_neg hm] at h; cases h

theorem runOptRules_err : ∀ (rs : List OptRule) (d : PyDict), (rs.all OptRule.catchesAll) = true → ∀ e,
    runOptRules rs d = .error e → e = .sqlParseError := by
  intro rs
  induction rs with
  | nil => intro d _ e h; cases h
  | cons r rs ih =>
    intro d hall e h
    simp only [List.all_cons, Bool.and_eq_true] at hall
    simp only [runOptRules] at h
    split at h
    · rename_i e' he'
      injection h with h; subst h
      exact runOptRule_err d r hall.1 _ he'
    · exact ih _ hall.2 e h

end Sql
