import SqlModel.Regex
/-!
# SqlProofs.RegexBound — soundness of `minW`: every derivation advances by at least `minW r`
and stays inside the subject string.
-/
namespace Sql

theorem repAux_bound (step : St → List St) (g : Bool) (m size : Nat)
    (hstep : ∀ st st', st.pos ≤ size → st' ∈ step st → st.pos + m ≤ st'.pos ∧ st'.pos ≤ size) :
    ∀ fuel lo hi st st', st.pos ≤ size → st' ∈ repAux step g fuel lo hi st →
      st.pos + lo * m ≤ st'.pos ∧ st'.pos ≤ size := by
  intro fuel
  induction fuel with
  | zero =>
    intro lo hi st st' hs h
    simp [repAux] at h
    obtain ⟨h0, rfl⟩ := h
    simp [h0, hs]
  | succ fuel ih =>
    intro lo hi st st' hs h
    have stopCase : st' ∈ (if lo = 0 then [st] else []) → st.pos + lo * m ≤ st'.pos ∧ st'.pos ≤ size := by
      intro h
      split at h
      · simp at h; subst h; simp [*]
      · simp at h
    have moreCase : st' ∈ ((step st).filter (fun st' => st.pos < st'.pos)).flatMap
                  (fun st' => repAux step g fuel (lo - 1) (hi.map (· - 1)) st') →
                  st.pos + lo * m ≤ st'.pos ∧ st'.pos ≤ size := by
      intro h
      simp only [List.mem_flatMap, List.mem_filter] at h
      obtain ⟨mid, ⟨hmid, _⟩, hrest⟩ := h
      have h1 := hstep st mid hs hmid
      have h2 := ih (lo - 1) (hi.map (· - 1)) mid st' h1.2 hrest
      refine ⟨?_, h2.2⟩
      cases lo with
      | zero => simp; omega
      | succ k =>
        simp at h2
        have : (k + 1) * m = k * m + m := by rw [Nat.succ_mul]
        omega
    unfold repAux at h
    split at h
    · exact stopCase h
    · simp only at h
      split at h
      · rcases List.mem_append.mp h with h | h
        · exact moreCase h
        · exact stopCase h
      · rcases List.mem_append.mp h with h | h
        · exact stopCase h
        · exact moreCase h

theorem derivs_bound (E : Env) : ∀ (r : Re) (st st' : St), st.pos ≤ E.s.size → st' ∈ derivs E r st →
    st.pos + minW r ≤ st'.pos ∧ st'.pos ≤ E.s.size := by
  intro r
  induction r with
  | eps => intro st st' hs h; simp [derivs] at h; subst h; simp [minW, hs]
  | set S =>
    intro st st' hs h
    simp only [derivs] at h
    split at h
    · rename_i c hc
      split at h
      · simp at h; subst h
        have : st.pos < E.s.size := by
          obtain ⟨hlt, _⟩ := Array.getElem?_eq_some_iff.mp hc
          exact hlt
        simp [minW]; omega
      · simp at h
    · simp at h
  | cat a b iha ihb =>
    intro st st' hs h
    simp only [derivs, List.mem_flatMap] at h
    obtain ⟨mid, h1, h2⟩ := h
    have := iha st mid hs h1
    have := ihb mid st' this.2 h2
    simp [minW]; omega
  | alt a b iha ihb =>
    intro st st' hs h
    simp only [derivs, List.mem_append] at h
    rcases h with h | h
    · have := iha st st' hs h; simp [minW]; omega
    · have := ihb st st' hs h; simp [minW]; omega
  | rep lo hi g r ih =>
    intro st st' hs h
    simp only [derivs] at h
    have := repAux_bound (derivs E r) g (minW r) E.s.size (fun a b ha hb => ih a b ha hb) _ lo hi st st' hs h
    simpa [minW] using this
  | grp n r ih =>
    intro st st' hs h
    simp only [derivs, List.mem_map] at h
    obtain ⟨x, hx, rfl⟩ := h
    have := ih st x hs hx
    simpa [minW] using this
  | bref n =>
    intro st st' hs h
    simp only [derivs] at h
    split at h
    · split at h
      · rename_i hc
        simp at h; subst h
        simp at hc
        simp [minW]; omega
      · simp at h
    · simp at h
  | look ahead neg w r ih =>
    intro st st' hs h
    simp only [derivs] at h
    have hst : st' = st := by
      split at h
      · simp at h; exact h.2
      · simp at h; exact h.2
    subst hst; simp [minW, hs]
  | atEnd =>
    intro st st' hs h
    simp only [derivs] at h
    split at h
    · simp at h; subst h; simp [minW, hs]
    · simp at h
  | wordB =>
    intro st st' hs h
    simp only [derivs] at h
    split at h
    · simp at h; subst h; simp [minW, hs]
    · simp at h

end Sql
