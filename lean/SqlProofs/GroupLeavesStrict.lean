import SqlProofs.Group.RwCPasses
import SqlProofs.GroupLeaves
/-!
# SqlProofs.GroupLeavesStrict — only `*`/operator tokens are re-typed (C03), and `CL` is kept by every pass (C09)

* `group_leaves_strict` / `groupStatement_leaves_strict`: the leaves of the grouped statement are the tokens of the
  flat statement, same values, same order, same types — except that a leaf of type exactly `Wildcard` may have
  become `Operator` (`LeafRelS`; an exact-`Operator` leaf is "re-typed" to the type it already has).
  `retype_only_operator_wildcard` is the pointwise reading.
* `passByName_cl` / `runPasses_cl`: every pass keeps `clL` (every `Comment` group has only comment/whitespace leaves).
* `brackets_end_with_closer_modulo_comments_total`: for every input satisfying `clL` (every flat statement does), each
  bracket/block group of the tree right after `group_begin` is found again in the final tree, in the same order, with
  the same class and the same leaves (up to `Wildcard → Operator`), followed only by comment/whitespace leaves.
-/
namespace Sql

variable {u : Text → Text}

theorem PassRwC.weaken {p : Pass} (h : PassRwC false p) : PassRwC true p :=
  fun fuel c ks ks' hk => (h fuel c ks ks' hk).mono

theorem PassRwC.ite' {mt : Bool} {c : Prop} [Decidable c] {a b : Pass} (ha : c → PassRwC mt a)
    (hb : ¬c → PassRwC mt b) : PassRwC mt (if c then a else b) := by
  by_cases h : c
  · rw [if_pos h]; exact ha h
  · rw [if_neg h]; exact hb h

theorem unknownPass_rwC {mt : Bool} : PassRwC mt unknownPass := by
  intro fuel c ks ks' h
  simp [unknownPass] at h

/-- every pass but `group_comments` and `align_comments` is a strict sequence; the matching passes are the only ones
that build bracket/block groups -/
theorem passByName_rwC (name : String) (mt : Bool) (h1 : name ≠ "group_comments") (h2 : name ≠ "align_comments")
    (hm : isMatchingName name = true → mt = true) : PassRwC mt (passByName u name) := by
  have wk : ∀ {p : Pass}, PassRwC false p → PassRwC mt p := by
    intro p hp
    cases mt with
    | false => exact hp
    | true => exact hp.weaken
  unfold passByName
  repeat' (first | apply PassRwC.ite' | intro (_ : (_ == _) = true) | intro (_ : ¬ ((_ == _) = true)))
  all_goals first
    | exact unknownPass_rwC
    | exact wk (typedLiteralPass_rwC u)
    | exact wk (adHocPass_rwC _ (fun _ _ _ h => overLoop_rwC _ _ _ _ h))
    | exact wk (adHocPass_rwC _ (groupFunctionsBody_rwC u))
    | exact wk (adHocPass_rwC _ (fun _ _ _ h => whereLoop_rwC _ _ _ _ h))
    | exact wk (adHocPass_rwC _ (fun _ _ _ h => identifierLoop_rwC _ _ _ _ h))
    | exact wk (adHocPass_rwC _ (fun _ _ _ h => orderLoop_rwC _ _ _ _ h))
    | exact wk (adHocPass_rwC _ (fun _ _ _ h => aliasedLoop_rwC _ _ _ _ h))
    | exact wk (adHocPass_rwC _ (groupValuesBody_rwC u))
    | exact wk (driverPass_rwC_id (postId_period u))
    | exact wk (driverPass_rwC_id (postId_arrays u))
    | exact wk (driverPass_rwC_id (postId_typecasts u))
    | exact wk (driverPass_rwC_id (postId_tzcasts u))
    | exact wk (driverPass_rwC_operator u)
    | exact wk (driverPass_rwC_id (postId_comparison u))
    | exact wk (driverPass_rwC_id (postId_as u))
    | exact wk (driverPass_rwC_id (postId_assignment u))
    | exact wk (driverPass_rwC_id (postId_identifierList u))
    | (have hmt : mt = true := hm (by simp_all [isMatchingName])
       subst hmt
       exact matchingPassOf_rwC u _)
    | (exfalso; simp_all)

/-! ### the two comment passes keep the leaves exactly -/
theorem passByName_comments_eq : passByName u "group_comments" = recursePass [.Comment] (groupCommentsBody u) := by
  unfold passByName; simp (config := { decide := true }); rfl

theorem passByName_align_eq : passByName u "align_comments" = recursePass [] (alignCommentsBody u) := by
  unfold passByName; simp (config := { decide := true }); rfl

/-- **every pass relates input and output leaves by `LeafRelS`** -/
theorem passByName_leavesS (name : String) : PassRel LeafRelS (passByName u name) := by
  by_cases h1 : name = "group_comments"
  · subst h1
    rw [passByName_comments_eq]
    intro fuel c ks ks' h
    exact LeafRelS.of_eq (recursePass_leaves_eq (groupCommentsBody_leaves u) fuel c ks ks' h).symm
  · by_cases h2 : name = "align_comments"
    · subst h2
      rw [passByName_align_eq]
      intro fuel c ks ks' h
      exact LeafRelS.of_eq (recursePass_leaves_eq (alignCommentsBody_leaves u) fuel c ks ks' h).symm
    · intro fuel c ks ks' h
      exact (passByName_rwC name true h1 h2 (fun _ => rfl) fuel c ks ks' h).leaves_cl.1

/-- **every pass keeps `CL`** -/
theorem passByName_cl {name : String} {fuel : Nat} {c : Cls} {ks ks' : List Node}
    (h : passByName u name fuel c ks = .ok ks') (hcl : clL ks = true) : clL ks' = true := by
  by_cases h1 : name = "group_comments"
  · subst h1; exact groupComments_cl h hcl
  · by_cases h2 : name = "align_comments"
    · subst h2; exact (align_pass_brackets h hcl).2.1
    · exact (passByName_rwC name true h1 h2 (fun _ => rfl) fuel c ks ks' h).leaves_cl.2 hcl

theorem runPasses_leavesS (fuel : Nat) (c : Cls) : ∀ (names : List String) (ks ks' : List Node),
    runPasses u fuel c names ks = .ok ks' →
      LeafRelS (Node.leavesL ks) (Node.leavesL ks') ∧ (clL ks = true → clL ks' = true) := by
  intro names
  induction names with
  | nil => intro ks ks' h; simp [runPasses] at h; subst h; exact ⟨LeafRelS.refl _, id⟩
  | cons p ps ih =>
    intro ks ks' h
    simp only [runPasses] at h
    cases hp : passByName u p fuel c ks with
    | error e => simp [hp] at h
    | ok ks1 =>
      simp only [hp] at h
      obtain ⟨h1, h2⟩ := ih _ _ h
      exact ⟨(passByName_leavesS p fuel c ks ks1 hp).trans h1, fun hcl => h2 (passByName_cl hp hcl)⟩

/-- **C03, second clause**: grouping re-types nothing but `Wildcard` leaves (to `Operator`) -/
theorem group_leaves_strict {fuel : Nat} {ks ks' : List Node} (h : group fuel ks = .ok ks') :
    LeafRelS (Node.leavesL ks) (Node.leavesL ks') :=
  (runPasses_leavesS fuel .Statement Gen.passOrder ks ks' h).1

theorem groupStatement_leaves_strict {fuel : Nat} {st : List Tok} {n : Node} (h : groupStatement fuel st = .ok n) :
    LeafRelS st n.leaves := by
  unfold groupStatement at h
  split at h
  · cases h
  · rename_i ks hk
    cases h
    have := group_leaves_strict hk
    have hflat : ∀ (l : List Tok), Node.leavesL (l.map fun t => Node.tok t.tt t.val) = l := by
      intro l
      induction l with
      | nil => simp
      | cons t l ih => simp [ih]
    rw [hflat] at this
    simpa using this

/-- pointwise reading: a leaf whose type differs between input and output was exactly `Wildcard` and is `Operator` -/
theorem LeafRelS.pointwise {a b : List Tok} (h : LeafRelS a b) :
    a.length = b.length ∧ ∀ (i : Nat) (x y : Tok), a[i]? = some x → b[i]? = some y →
      x.val = y.val ∧ (x.tt ≠ y.tt → x.tt = T.Wildcard ∧ y.tt = T.Operator) := by
  induction h with
  | nil => exact ⟨rfl, fun i x y hx => by simp at hx⟩
  | @cons p q ps qs hpq _ ih =>
    refine ⟨by simp [ih.1], ?_⟩
    intro i x y hx hy
    cases i with
    | zero =>
      simp only [List.getElem?_cons_zero, Option.some.injEq] at hx hy
      subst hx; subst hy
      refine ⟨hpq.1, fun hne => ?_⟩
      rcases hpq.2 with h1 | h1
      · exact absurd h1 hne
      · exact h1
    | succ i =>
      simp only [List.getElem?_cons_succ] at hx hy
      exact ih.2 i x y hx hy

theorem retype_only_operator_wildcard {fuel : Nat} {st : List Tok} {n : Node} (h : groupStatement fuel st = .ok n) :
    st.length = n.leaves.length ∧ ∀ (i : Nat) (x y : Tok), st[i]? = some x → n.leaves[i]? = some y →
      x.val = y.val ∧ (x.tt ≠ y.tt → x.tt = T.Wildcard ∧ y.tt = T.Operator) :=
  (groupStatement_leaves_strict h).pointwise

/-! ### the bracket/block groups, end to end, without side hypothesis -/
/-- same class; the leaves of the earlier group (up to `Wildcard → Operator`) followed by comment/whitespace leaves -/
def BrRelF (e e' : Cls × List Tok) : Prop :=
  e.1 = e'.1 ∧ ∃ l2 extra, e'.2 = l2 ++ extra ∧ LeafRelS e.2 l2 ∧ extra.all cmtLeaf = true

inductive BrAllF : List (Cls × List Tok) → List (Cls × List Tok) → Prop
  | nil : BrAllF [] []
  | cons {e e' : Cls × List Tok} {es es' : List (Cls × List Tok)} :
      BrRelF e e' → BrAllF es es' → BrAllF (e :: es) (e' :: es')

theorem BrRelF.trans {a b c : Cls × List Tok} (h1 : BrRelF a b) (h2 : BrRelF b c) : BrRelF a c := by
  obtain ⟨hc1, l2, x, hb, hl1, hx⟩ := h1
  obtain ⟨hc2, l3, y, hc, hl2, hy⟩ := h2
  rw [hb] at hl2
  obtain ⟨p, q, rfl, hp, hq⟩ := hl2.split_left
  refine ⟨hc1.trans hc2, p, q ++ y, by rw [hc]; simp, hl1.trans hp, ?_⟩
  simp [List.all_append, hq.cmt hx, hy]

theorem BrAllF.trans {a b c : List (Cls × List Tok)} (h1 : BrAllF a b) (h2 : BrAllF b c) : BrAllF a c := by
  induction h1 generalizing c with
  | nil => cases h2; exact .nil
  | cons hab _ ih => cases h2 with | cons hbc h2' => exact .cons (hab.trans hbc) (ih h2')

theorem BrAllF.ofS {a b : List (Cls × List Tok)} (h : BrAllS a b) : BrAllF a b := by
  induction h with
  | nil => exact .nil
  | cons hx _ ih => exact .cons ⟨hx.1, _, [], by simp, hx.2, rfl⟩ ih

theorem BrAllF.ofC {a b : List (Cls × List Tok)} (h : BrAllC a b) : BrAllF a b := by
  induction h with
  | nil => exact .nil
  | cons hx _ ih =>
    obtain ⟨h1, extra, h2, h3⟩ := hx
    exact .cons ⟨h1, _, extra, h2, LeafRelS.refl _, h3⟩ ih

theorem BrAllF.classes {a b : List (Cls × List Tok)} (h : BrAllF a b) : a.map (·.1) = b.map (·.1) := by
  induction h with
  | nil => rfl
  | cons hx _ ih => simp [hx.1, ih]

theorem runPasses_bracketsS {fuel : Nat} {c : Cls} : ∀ (names : List String) (ks ks' : List Node),
    (∀ n ∈ names, isMatchingName n = false ∧ n ≠ "align_comments" ∧ n ≠ "group_comments") →
    runPasses u fuel c names ks = .ok ks' → BrAllS (bracketsL ks) (bracketsL ks') := by
  intro names
  induction names with
  | nil => intro ks ks' _ h; simp [runPasses] at h; subst h; exact BrAllS.refl _
  | cons p ps ih =>
    intro ks ks' hn h
    simp only [runPasses] at h
    cases hp : passByName u p fuel c ks with
    | error e => simp [hp] at h
    | ok ks1 =>
      simp only [hp] at h
      obtain ⟨h1, h2, h3⟩ := hn p List.mem_cons_self
      have hb := (passByName_rwC p false h3 h2 (fun hm => by rw [h1] at hm; cases hm) fuel c ks ks1 hp).brackets
      exact hb.trans (ih _ _ (fun n hn' => hn n (List.mem_cons_of_mem _ hn')) h)

theorem passOrder_mid_ok' : ((Gen.passOrder.take 22).drop 7).all
    (fun n => !isMatchingName n && n != "align_comments" && n != "group_comments") = true := by decide

theorem passOrder_tail_ok' : (Gen.passOrder.drop 23).all
    (fun n => !isMatchingName n && n != "align_comments" && n != "group_comments") = true := by decide

/-- **C09, end to end, for every input**: each Parenthesis/SquareBrackets/Case/If/For/Begin node present right after
the last `_group_matching` pass is present in the final tree — same class, same order, its leaves (up to
`Wildcard → Operator`) followed only by comment/whitespace leaves: ignoring the comments attached after it, the node
still ends with its closing token. -/
theorem groupWith_brackets_total {fuel : Nat} {ks ks' : List Node} (h : groupWith u fuel ks = .ok ks')
    (hcl : clL ks = true) :
    ∃ m7, runPasses u fuel .Statement (Gen.passOrder.take 7) ks = .ok m7 ∧
      BrAllF (bracketsL m7) (bracketsL ks') := by
  unfold groupWith at h
  rw [passOrder_split] at h
  obtain ⟨m7, h1, h2⟩ := runPasses_append _ _ _ _ h
  obtain ⟨m22, h3, h4⟩ := runPasses_append _ _ _ _ h2
  simp only [runPasses] at h4
  cases hp : passByName u "align_comments" fuel .Statement m22 with
  | error e => simp [hp] at h4
  | ok m23 =>
    simp only [hp] at h4
    have hcl7 := (runPasses_leavesS fuel .Statement _ _ _ h1).2 hcl
    have hcl22 := (runPasses_leavesS fuel .Statement _ _ _ h3).2 hcl7
    refine ⟨m7, h1, ?_⟩
    have s1 : BrAllS (bracketsL m7) (bracketsL m22) := runPasses_bracketsS _ _ _ (by
      intro n hn
      have := List.all_eq_true.1 passOrder_mid_ok' n hn
      simpa [and_assoc] using this) h3
    have s2 : BrAllC (bracketsL m22) (bracketsL m23) := (align_pass_brackets hp hcl22).1
    have s3 : BrAllS (bracketsL m23) (bracketsL ks') := runPasses_bracketsS _ _ _ (by
      intro n hn
      have := List.all_eq_true.1 passOrder_tail_ok' n hn
      simpa [and_assoc] using this) h4
    exact ((BrAllF.ofS s1).trans (BrAllF.ofC s2)).trans (BrAllF.ofS s3)

theorem brackets_end_with_closer_modulo_comments_total {fuel : Nat} {st : List Tok} {ks' : List Node}
    (h : group fuel (st.map fun t => Node.tok t.tt t.val) = .ok ks') :
    ∃ m7, runPasses kwNorm fuel .Statement (Gen.passOrder.take 7) (st.map fun t => Node.tok t.tt t.val) = .ok m7 ∧
      BrAllF (bracketsL m7) (bracketsL ks') :=
  groupWith_brackets_total h (clL_flat st)

end Sql
