import SqlModel.Splitter
import SqlModel.SplitSpec
import SqlProofs.SplitPartition
/-!
# SqlProofs.SplitScript — scripts of "quiet" statements joined by top-level semicolons split exactly there.

`quiet` is a decidable predicate on a token list (relative to a flag/level state): processing the list never
meets a statement end (`;` at level ≤ 0, a `GO` keyword) and never raises.  A *unit* is a quiet body whose level
ends ≤ 0, followed by a `;` token and by tokens of the `EOS_TTYPE` types (blanks, single-line comments), which the
splitter attaches to the statement they follow.
-/
namespace Sql

theorem splitRun_append (cfg : SplitCfg) (a b : List Tok) : ∀ st,
    splitRun cfg st (a ++ b) = (match splitRun cfg st a with
      | .ok st' => splitRun cfg st' b
      | .error e => .error e) := by
  induction a with
  | nil => intro st; simp [splitRun]
  | cons t ts ih =>
    intro st
    simp only [List.cons_append, splitRun]
    split
    · exact ih _
    · rfl

theorem yield_off (cfg : SplitCfg) (st : SplitState) (t : Tok) (hc : st.consumeWs = false) :
    splitYield cfg st t = st := by
  unfold splitYield; simp [hc]

theorem step_quiet (cfg : SplitCfg) (st : SplitState) (t : Tok) (hc : st.consumeWs = false)
    (h1 : (decide (st.level + (changeSplitLevel cfg st.flags t.tt t.val).fst ≤ 0) && isSemi t) = false)
    (h2 : noGo cfg t = true) :
    splitStep cfg st t = .ok { flags := (changeSplitLevel cfg st.flags t.tt t.val).snd, consumeWs := false,
                               level := st.level + (changeSplitLevel cfg st.flags t.tt t.val).fst,
                               cur := st.cur ++ [t], done := st.done } := by
  unfold splitStep
  rw [yield_off cfg st t hc]
  unfold splitAdvance
  have h1' : (decide (st.level + (changeSplitLevel cfg st.flags t.tt t.val).fst ≤ 0) && t.tt == T.Punctuation
      && t.val == txt ";") = false := by
    simpa [isSemi, Bool.and_assoc] using h1
  simp only [h1', Bool.false_eq_true, if_false]
  unfold noGo at h2
  by_cases hk : t.tt == T.Keyword
  · simp only [hk, if_true]
    have : (t.tt != T.Keyword) = false := by simp [bne, hk]
    simp only [this, Bool.false_or] at h2
    split at h2
    · rename_i w hw
      simp only [hw]
      have : (cfg.upper w == txt "GO") = false := by simpa [bne] using h2
      simp [this, hc]
    · exact absurd h2 (by simp)
  · simp only [hk, Bool.false_eq_true, if_false, hc]

theorem semi_level (cfg : SplitCfg) (f : SplitFlags) (t : Tok) (h : isSemi t = true) :
    changeSplitLevel cfg f t.tt t.val = (0, f) := by
  simp only [isSemi, Bool.and_eq_true, beq_iff_eq] at h
  obtain ⟨h1, h2⟩ := h
  unfold changeSplitLevel kindOf
  rw [h1, h2]
  have e1 : (txt ";" == txt "(") = false := by decide
  have e2 : (txt ";" == txt ")") = false := by decide
  have e3 : (!TType.isIn T.Punctuation T.Keyword) = true := by decide
  simp [e1, e2, e3, kindStep]

theorem step_semi (cfg : SplitCfg) (st : SplitState) (t : Tok) (hc : st.consumeWs = false)
    (hs : isSemi t = true) (hl : st.level ≤ 0) :
    splitStep cfg st t = .ok { flags := st.flags, consumeWs := true, level := st.level,
                               cur := st.cur ++ [t], done := st.done } := by
  unfold splitStep
  rw [yield_off cfg st t hc]
  unfold splitAdvance
  simp only [semi_level cfg st.flags t hs]
  simp only [isSemi, Bool.and_eq_true, beq_iff_eq] at hs
  have : (decide (st.level + 0 ≤ 0) && t.tt == T.Punctuation && t.val == txt ";") = true := by
    simp [hs.1, hs.2, hl]
  rw [if_pos this]
  simp

theorem eos_level (cfg : SplitCfg) (hn : EosNeutral cfg = true) (f : SplitFlags) (t : Tok)
    (h : cfg.eos.contains t.tt = true) :
    changeSplitLevel cfg f t.tt t.val = (0, f) ∧ t.tt ≠ T.Punctuation ∧ t.tt ≠ T.Keyword := by
  simp only [EosNeutral, List.all_eq_true, Bool.and_eq_true, Bool.not_eq_true', bne_iff_ne] at hn
  have hm : t.tt ∈ cfg.eos := by simpa using h
  obtain ⟨⟨h1, h2⟩, h3⟩ := hn t.tt hm
  refine ⟨?_, h2, h3⟩
  unfold changeSplitLevel kindOf
  have e1 : (t.tt == T.Punctuation) = false := by simpa using h2
  simp [e1, h1, kindStep]

theorem step_eos (cfg : SplitCfg) (hn : EosNeutral cfg = true) (st : SplitState) (t : Tok)
    (he : cfg.eos.contains t.tt = true) :
    splitStep cfg st t = .ok { st with cur := st.cur ++ [t] } := by
  obtain ⟨h0, hp, hk⟩ := eos_level cfg hn st.flags t he
  unfold splitStep
  have hy : splitYield cfg st t = st := by unfold splitYield; rw [he]; simp
  rw [hy]
  unfold splitAdvance
  simp only [h0]
  have e1 : (t.tt == T.Punctuation) = false := by simpa using hp
  have e2 : (t.tt == T.Keyword) = false := by simpa using hk
  simp [e1, e2]

theorem step_new (cfg : SplitCfg) (st : SplitState) (t : Tok) (hc : st.consumeWs = true)
    (he : cfg.eos.contains t.tt = false) :
    splitStep cfg st t = splitStep cfg { done := st.done ++ [st.cur] } t := by
  unfold splitStep
  have hy : splitYield cfg st t = { done := st.done ++ [st.cur] } := by unfold splitYield; rw [hc, he]; simp
  have hy2 : splitYield cfg { done := st.done ++ [st.cur] } t = { done := st.done ++ [st.cur] } := by
    unfold splitYield; simp
  rw [hy, hy2]

/-- running a quiet list just appends it -/
theorem run_quiet (cfg : SplitCfg) : ∀ (s : List Tok) (st : SplitState), st.consumeWs = false →
    quiet cfg st.flags st.level s = true →
    splitRun cfg st s = .ok ⟨(runFL cfg st.flags st.level s).fst, false, (runFL cfg st.flags st.level s).snd, st.cur ++ s, st.done⟩ := by
  intro s
  induction s with
  | nil => intro st hc _; cases st; simp_all [splitRun, runFL]
  | cons t ts ih =>
    intro st hc hq
    simp only [quiet, Bool.and_eq_true, Bool.not_eq_true'] at hq
    obtain ⟨⟨h1, h2⟩, h3⟩ := hq
    simp only [splitRun, step_quiet cfg st t hc h1 h2]
    rw [ih ⟨(changeSplitLevel cfg st.flags t.tt t.val).snd, false,
        st.level + (changeSplitLevel cfg st.flags t.tt t.val).fst, st.cur ++ [t], st.done⟩ rfl h3]
    simp [runFL]

/-- running EOS-typed tokens just appends them -/
theorem run_eos (cfg : SplitCfg) (hn : EosNeutral cfg = true) : ∀ (s : List Tok) (st : SplitState),
    (∀ t ∈ s, cfg.eos.contains t.tt = true) →
    splitRun cfg st s = .ok { st with cur := st.cur ++ s } := by
  intro s
  induction s with
  | nil => intro st _; simp [splitRun]
  | cons t ts ih =>
    intro st h
    simp only [splitRun, step_eos cfg hn st t (h t (by simp))]
    rw [ih _ (fun x hx => h x (by simp [hx]))]
    simp

/-- "at a statement boundary with `d` the statements so far (counting the pending one)" -/
def Boundary (st : SplitState) (d : List (List Tok)) : Prop :=
  (st.consumeWs = true ∧ d = st.done ++ [st.cur]) ∨
  (st.consumeWs = false ∧ st.cur = [] ∧ st.flags = {} ∧ st.level = 0 ∧ d = st.done)

/-- processing a quiet non-empty list whose head is not EOS-typed, from a boundary -/
theorem run_body (cfg : SplitCfg) (st : SplitState) (d : List (List Tok)) (hb : Boundary st d)
    (body : List Tok) (hh : headNotEos cfg body = true) (hq : quiet cfg {} 0 body = true) :
    splitRun cfg st body = .ok ⟨(runFL cfg {} 0 body).fst, false, (runFL cfg {} 0 body).snd, body, d⟩ := by
  have fresh : splitRun cfg { done := d } body = .ok ⟨(runFL cfg {} 0 body).fst, false, (runFL cfg {} 0 body).snd, body, d⟩ := by
    have := run_quiet cfg body { done := d } rfl hq
    simpa using this
  rcases hb with ⟨hc, hd⟩ | ⟨hc, hcur, hfl, hlv, hd⟩
  · cases body with
    | nil => simp [headNotEos] at hh
    | cons t ts =>
      simp only [headNotEos, Bool.not_eq_true'] at hh
      simp only [splitRun] at fresh ⊢
      rw [step_new cfg st t hc hh, ← hd]
      exact fresh
  · have : st = { done := d } := by
      cases st; simp_all
    rw [this]; exact fresh

theorem run_unit (cfg : SplitCfg) (hn : EosNeutral cfg = true) (st : SplitState) (d : List (List Tok))
    (hb : Boundary st d) (u : SUnit) (hu : u.ok cfg = true) :
    ∃ st', splitRun cfg st u.toks = .ok st' ∧ st'.consumeWs = true ∧ st'.done = d ∧ st'.cur = u.toks := by
  simp only [SUnit.ok, Bool.and_eq_true, decide_eq_true_eq, List.all_eq_true] at hu
  obtain ⟨⟨⟨⟨hh, hq⟩, hl⟩, hs⟩, ht⟩ := hu
  unfold SUnit.toks
  rw [splitRun_append, splitRun_append, run_body cfg st d hb u.body hh hq]
  simp only [splitRun]
  rw [step_semi cfg _ u.semi rfl hs hl]
  simp only
  rw [run_eos cfg hn u.trail _ ht]
  exact ⟨_, rfl, rfl, rfl, by simp⟩

theorem run_units (cfg : SplitCfg) (hn : EosNeutral cfg = true) : ∀ (us : List SUnit) (st : SplitState)
    (d : List (List Tok)), Boundary st d → (∀ u ∈ us, u.ok cfg = true) →
    ∃ st', splitRun cfg st (us.flatMap SUnit.toks) = .ok st' ∧ Boundary st' (d ++ us.map SUnit.toks) := by
  intro us
  induction us with
  | nil => intro st d hb _; exact ⟨st, by simp [splitRun], by simpa using hb⟩
  | cons u us ih =>
    intro st d hb hall
    obtain ⟨st1, h1, hc1, hd1, hcur1⟩ := run_unit cfg hn st d hb u (hall u (by simp))
    have hb1 : Boundary st1 (d ++ [u.toks]) := Or.inl ⟨hc1, by rw [hd1, hcur1]⟩
    obtain ⟨st2, h2, hb2⟩ := ih st1 (d ++ [u.toks]) hb1 (fun x hx => hall x (by simp [hx]))
    refine ⟨st2, ?_, by simpa using hb2⟩
    simp only [List.flatMap_cons, splitRun_append, h1]
    exact h2

theorem semi_not_ws (t : Tok) (h : isSemi t = true) : Tok.isWhitespace t = false := by
  simp only [isSemi, Bool.and_eq_true, beq_iff_eq] at h
  unfold Tok.isWhitespace
  rw [h.1]; decide

/-- **script theorem**: units joined back to back are returned as exactly those statements -/
theorem split_units (cfg : SplitCfg) (hn : EosNeutral cfg = true) (us : List SUnit)
    (hall : ∀ u ∈ us, u.ok cfg = true) :
    splitProcess cfg (us.flatMap SUnit.toks) = .ok (us.map SUnit.toks) := by
  have hb0 : Boundary ({} : SplitState) [] := Or.inr ⟨rfl, rfl, rfl, rfl, rfl⟩
  obtain ⟨st, hrun, hb⟩ := run_units cfg hn us {} [] hb0 hall
  unfold splitProcess
  rw [hrun]
  simp only [List.nil_append] at hb
  rcases hb with ⟨hc, hd⟩ | ⟨hc, hcur, _, _, hd⟩
  · -- pending statement = last unit: it contains its `;`, so it is not all whitespace
    have hne : us ≠ [] := by
      intro h; subst h
      have : ([] : List (List Tok)).length = (st.done ++ [st.cur]).length := by rw [← hd]; rfl
      simp at this
    have hlast : st.cur = (us.getLast hne).toks := by
      have h1 : (us.map SUnit.toks).getLast? = (st.done ++ [st.cur]).getLast? := by rw [hd]
      simp only [List.getLast?_append, List.getLast?_singleton, Option.some_or, List.getLast?_map] at h1
      rw [List.getLast?_eq_some_getLast hne] at h1
      simpa using h1.symm
    have hnw : (st.cur.all Tok.isWhitespace) = false := by
      rw [hlast]
      have hu := hall _ (List.getLast_mem hne)
      simp only [SUnit.ok, Bool.and_eq_true] at hu
      have hs := semi_not_ws _ hu.1.2
      simp only [SUnit.toks, List.all_append, List.all_cons, hs]
      simp
    have hcne : st.cur.isEmpty = false := by
      rw [hlast]; simp [SUnit.toks]
    simp [hnw, hcne, hd]
  · simp [hcur, hd]

/-- variant: a last statement without a terminating semicolon (any quiet list that is not all whitespace) -/
theorem split_units_last (cfg : SplitCfg) (hn : EosNeutral cfg = true) (us : List SUnit)
    (hall : ∀ u ∈ us, u.ok cfg = true) (last : List Tok) (hh : headNotEos cfg last = true)
    (hq : quiet cfg {} 0 last = true) (hw : last.all Tok.isWhitespace = false) :
    splitProcess cfg (us.flatMap SUnit.toks ++ last) = .ok (us.map SUnit.toks ++ [last]) := by
  have hb0 : Boundary ({} : SplitState) [] := Or.inr ⟨rfl, rfl, rfl, rfl, rfl⟩
  obtain ⟨st, hrun, hb⟩ := run_units cfg hn us {} [] hb0 hall
  unfold splitProcess
  rw [splitRun_append, hrun]
  simp only [List.nil_append] at hb
  simp only []
  rw [run_body cfg st _ hb last hh hq]
  have : last.isEmpty = false := by
    cases last with
    | nil => simp [headNotEos] at hh
    | cons _ _ => rfl
  simp [hw, this]

/-- variant: a trailing run of whitespace-typed tokens after the last unit is dropped -/
theorem split_units_wstail (cfg : SplitCfg) (hn : EosNeutral cfg = true) (us : List SUnit)
    (hall : ∀ u ∈ us, u.ok cfg = true) (tail : List Tok) (hh : headNotEos cfg tail = true)
    (hq : quiet cfg {} 0 tail = true) (hw : tail.all Tok.isWhitespace = true) :
    splitProcess cfg (us.flatMap SUnit.toks ++ tail) = .ok (us.map SUnit.toks) := by
  have hb0 : Boundary ({} : SplitState) [] := Or.inr ⟨rfl, rfl, rfl, rfl, rfl⟩
  obtain ⟨st, hrun, hb⟩ := run_units cfg hn us {} [] hb0 hall
  unfold splitProcess
  rw [splitRun_append, hrun]
  simp only [List.nil_append] at hb
  simp only []
  rw [run_body cfg st _ hb tail hh hq]
  simp [hw]

end Sql
