import SqlModel.Pipeline
import SqlProofs.SplitScript
import SqlProofs.SplitNonWs
import SqlProofs.SplitValue
/-!
# SqlProofs.Resplit — splitting a returned statement again returns that statement alone

Token level (`resplit_tokens`, any configuration): for `splitProcess cfg ts = .ok sts` and `st ∈ sts`, `splitProcess cfg st = .ok [st]`.
The pending statement of the original run was started from the reset state; re-running its tokens from the reset state repeats the same
transitions (the loop body reads only flags, level and `consume_ws`), no yield happens inside it, and it contains a token that is not of a
Whitespace type, so the final flush emits it.  The same holds after removing whitespace-typed tokens at both ends (`single_trim`).

Text level (`resplit_text`): under the explicit hypothesis that re-lexing the stripped text of the statement gives back its tokens minus
the whitespace-typed tokens at both ends (`LexStable`), `split` of a piece returns exactly that piece.
-/
namespace Sql

/-! ## the loop body reads only flags, level and `consume_ws` -/

theorem splitAdvance_ctl (cfg : SplitCfg) (a a' b : SplitState) (t : Tok) (h : splitAdvance cfg a t = .ok a')
    (hf : b.flags = a.flags) (hl : b.level = a.level) (hc : b.consumeWs = a.consumeWs) :
    ∃ b', splitAdvance cfg b t = .ok b' ∧ b'.flags = a'.flags ∧ b'.level = a'.level ∧ b'.consumeWs = a'.consumeWs ∧
      b'.cur = b.cur ++ [t] ∧ b'.done = b.done := by
  unfold splitAdvance at h ⊢
  simp only [hf, hl, hc] at h ⊢
  split at h
  · rename_i hcond
    injection h with h; subst h
    simp only [hcond, if_true]
    exact ⟨_, rfl, rfl, rfl, rfl, rfl, rfl⟩
  · rename_i hcond
    simp only [hcond, Bool.false_eq_true, if_false]
    split at h
    · rename_i hk
      simp only [hk, if_true]
      split at h
      · exact absurd h (by simp)
      · rename_i w hw
        injection h with h; subst h
        split
        · exact ⟨_, rfl, rfl, rfl, rfl, rfl, rfl⟩
        · exact ⟨_, rfl, rfl, rfl, rfl, rfl, rfl⟩
    · rename_i hk
      injection h with h; subst h
      simp only [hk, Bool.false_eq_true, if_false]
      exact ⟨_, rfl, rfl, rfl, rfl, rfl, rfl⟩

theorem splitYield_off (cfg : SplitCfg) (a : SplitState) (t : Tok) (h : (a.consumeWs && !(cfg.eos.contains t.tt)) = false) :
    splitYield cfg a t = a := by
  unfold splitYield
  simp only [h, Bool.false_eq_true, if_false]

/-! ## `done` only grows -/

theorem splitStep_done (cfg : SplitCfg) (a a' : SplitState) (t : Tok) (h : splitStep cfg a t = .ok a') :
    a'.done = [] → a.done = [] ∧ (a.consumeWs && !(cfg.eos.contains t.tt)) = false := by
  intro hd
  unfold splitStep at h
  obtain ⟨a1, _⟩ := splitAdvance_spec cfg _ a' t h
  rw [a1] at hd
  unfold splitYield at hd
  split at hd
  · simp at hd
  · rename_i hc
    exact ⟨hd, by simpa using hc⟩

theorem splitRun_done (cfg : SplitCfg) : ∀ (l : List Tok) (a r : SplitState), splitRun cfg a l = .ok r → r.done = [] → a.done = [] := by
  intro l
  induction l with
  | nil => intro a r h hd; simp [splitRun] at h; subst h; exact hd
  | cons t ts ih =>
    intro a r h hd
    simp only [splitRun] at h
    split at h
    · rename_i a1 h1
      exact (splitStep_done cfg a a1 t h1 (ih a1 r h hd)).1
    · exact absurd h (by simp)

/-! ## single-statement runs -/

/-- running `l` from the reset state yields nothing, keeps all of `l` pending, and `l` has a token that is not of a Whitespace type -/
def Single (cfg : SplitCfg) (l : List Tok) : Prop :=
  ∃ r, splitRun cfg {} l = .ok r ∧ r.cur = l ∧ r.done = [] ∧ HasNonWs l

theorem hasNonWs_flush (l : List Tok) (h : HasNonWs l) : (!l.isEmpty && !(l.all Tok.isWhitespace)) = true := by
  obtain ⟨t, ht, hw⟩ := h
  have h1 : l.isEmpty = false := by
    cases l with
    | nil => simp at ht
    | cons _ _ => rfl
  have h2 : l.all Tok.isWhitespace = false := by
    rw [List.all_eq_false]; exact ⟨t, ht, by simp [hw]⟩
  simp [h1, h2]

/-- a single-statement run is returned as one statement -/
theorem Single.process {cfg : SplitCfg} {l : List Tok} (h : Single cfg l) : splitProcess cfg l = .ok [l] := by
  obtain ⟨r, hrun, hcur, hdone, hnw⟩ := h
  unfold splitProcess
  rw [hrun]
  simp only [hcur, hdone, hasNonWs_flush l hnw, if_true, List.nil_append]

/-! ## the pending statement can be re-run from the reset state -/

/-- same control state and pending tokens; nothing yielded -/
def Rerun (cfg : SplitCfg) (st : SplitState) : Prop :=
  ∃ r, splitRun cfg {} st.cur = .ok r ∧ r.flags = st.flags ∧ r.level = st.level ∧ r.consumeWs = st.consumeWs ∧
    r.cur = st.cur ∧ r.done = []

def ResplitInv (cfg : SplitCfg) (st : SplitState) : Prop :=
  SplitInvNW st ∧ (∀ s ∈ st.done, Single cfg s) ∧ Rerun cfg st

theorem resplit_step (cfg : SplitCfg) (st st' : SplitState) (t : Tok) (hinv : ResplitInv cfg st)
    (h : splitStep cfg st t = .ok st') : ResplitInv cfg st' := by
  obtain ⟨hnw, hdone, r, hrun, hrf, hrl, hrc, hrcur, hrd⟩ := hinv
  have hnw' := splitStep_nw cfg st st' t hnw h
  -- the state after the yield test
  have hy : (∀ s ∈ (splitYield cfg st t).done, Single cfg s) ∧
      (∃ r, splitRun cfg {} (splitYield cfg st t).cur = .ok r ∧ r.flags = (splitYield cfg st t).flags ∧
        r.level = (splitYield cfg st t).level ∧ r.consumeWs = (splitYield cfg st t).consumeWs ∧
        r.cur = (splitYield cfg st t).cur ∧ r.done = []) ∧
      ((splitYield cfg st t).consumeWs && !(cfg.eos.contains t.tt)) = false := by
    unfold splitYield
    split
    · rename_i hfire
      simp only [Bool.and_eq_true] at hfire
      refine ⟨?_, ⟨{}, rfl, rfl, rfl, rfl, rfl, rfl⟩, by simp⟩
      intro s hs
      simp only [List.mem_append, List.mem_singleton] at hs
      rcases hs with hs | rfl
      · exact hdone s hs
      · exact ⟨r, hrun, hrcur, hrd, hnw.2 hfire.1⟩
    · rename_i hno
      exact ⟨hdone, ⟨r, hrun, hrf, hrl, hrc, hrcur, hrd⟩, by simpa using hno⟩
  obtain ⟨hyd, ⟨ry, hyrun, hyf, hyl, hyc, hycur, hyd0⟩, hoff⟩ := hy
  unfold splitStep at h
  obtain ⟨a1, a2⟩ := splitAdvance_spec cfg _ st' t h
  refine ⟨hnw', by rw [a1]; exact hyd, ?_⟩
  -- re-run: the pending tokens, then `t`
  obtain ⟨r', hr', f', l', c', cur', d'⟩ := splitAdvance_ctl cfg _ st' ry t h hyf hyl hyc
  refine ⟨r', ?_, f', l', c', by rw [cur', hycur, a2], by rw [d', hyd0]⟩
  rw [a2, splitRun_append, hyrun]
  simp only [splitRun, splitStep]
  rw [splitYield_off cfg ry t (by rw [hyc]; exact hoff), hr']

theorem resplit_run (cfg : SplitCfg) : ∀ (ts : List Tok) (st st' : SplitState), ResplitInv cfg st →
    splitRun cfg st ts = .ok st' → ResplitInv cfg st' := by
  intro ts
  induction ts with
  | nil => intro st st' hinv h; simp [splitRun] at h; subst h; exact hinv
  | cons t ts ih =>
    intro st st' hinv h
    simp only [splitRun] at h
    split at h
    · rename_i st1 hst1
      exact ih st1 st' (resplit_step cfg st st1 t hinv hst1) h
    · exact absurd h (by simp)

theorem resplit_single (cfg : SplitCfg) (ts : List Tok) (sts : List (List Tok)) (h : splitProcess cfg ts = .ok sts) :
    ∀ st ∈ sts, Single cfg st := by
  unfold splitProcess at h
  split at h
  · exact absurd h (by simp)
  · rename_i fin hfin
    have hinv0 : ResplitInv cfg ({} : SplitState) :=
      ⟨⟨fun s hs => absurd hs (by simp), fun h => absurd h (by simp)⟩, fun s hs => absurd hs (by simp),
        ⟨{}, rfl, rfl, rfl, rfl, rfl, rfl⟩⟩
    obtain ⟨_, hdone, r, hrun, _, _, _, hrcur, hrd⟩ := resplit_run cfg ts {} fin hinv0 hfin
    split at h
    · rename_i hc
      injection h with h; subst h
      simp only [Bool.and_eq_true, Bool.not_eq_true', List.all_eq_false] at hc
      intro s hs
      simp only [List.mem_append, List.mem_singleton] at hs
      rcases hs with hs | rfl
      · exact hdone s hs
      · obtain ⟨x, hx, hxw⟩ := hc.2
        exact ⟨r, hrun, hrcur, hrd, ⟨x, hx, by simpa using hxw⟩⟩
    · injection h with h; subst h; exact hdone

/-- **token-level re-split**: splitting the tokens of a returned statement again returns that statement alone -/
theorem resplit_tokens (cfg : SplitCfg) (ts : List Tok) (sts : List (List Tok)) (h : splitProcess cfg ts = .ok sts) :
    ∀ st ∈ sts, splitProcess cfg st = .ok [st] :=
  fun st hst => (resplit_single cfg ts sts h st hst).process

/-! ## removing whitespace-typed tokens at both ends -/

theorem ws_type_facts (tt : TType) (h : tt.isIn T.Whitespace = true) :
    (tt == T.Punctuation) = false ∧ tt.isIn T.Keyword = false ∧ (tt == T.Keyword) = false := by
  cases tt with
  | nil => simp [TType.isIn, T.Whitespace] at h
  | cons a t =>
    cases t with
    | nil => simp [TType.isIn, T.Whitespace, List.isPrefixOf] at h
    | cons b rest =>
      simp only [TType.isIn, T.Whitespace, List.isPrefixOf, Bool.and_eq_true, beq_iff_eq] at h
      obtain ⟨rfl, rfl, _⟩ := h
      refine ⟨by simp [T.Punctuation], by simp [TType.isIn, T.Keyword, List.isPrefixOf], by simp [T.Keyword]⟩

/-- a whitespace-typed token processed from the reset state only becomes pending -/
theorem ws_step_reset (cfg : SplitCfg) (x : Tok) (hx : x.isWhitespace = true) :
    splitStep cfg {} x = .ok { cur := [x] } := by
  obtain ⟨h1, h2, h3⟩ := ws_type_facts x.tt hx
  have hy : splitYield cfg {} x = {} := splitYield_off cfg {} x (by simp)
  unfold splitStep
  rw [hy]
  simp [splitAdvance, changeSplitLevel, kindOf, kindStep, h1, h2, h3]

theorem hasNonWs_cons_ws (x : Tok) (l : List Tok) (hx : x.isWhitespace = true) (h : HasNonWs (x :: l)) : HasNonWs l := by
  obtain ⟨t, ht, hw⟩ := h
  simp only [List.mem_cons] at ht
  rcases ht with rfl | ht
  · rw [hx] at hw; exact absurd hw (by simp)
  · exact ⟨t, ht, hw⟩

theorem hasNonWs_snoc_ws (x : Tok) (l : List Tok) (hx : x.isWhitespace = true) (h : HasNonWs (l ++ [x])) : HasNonWs l := by
  obtain ⟨t, ht, hw⟩ := h
  simp only [List.mem_append, List.mem_singleton] at ht
  rcases ht with ht | rfl
  · exact ⟨t, ht, hw⟩
  · rw [hx] at hw; exact absurd hw (by simp)

/-- shifting the pending tokens by one leading token does not change a yield-free run -/
theorem shift_run (cfg : SplitCfg) (x : Tok) : ∀ (l : List Tok) (a b r : SplitState),
    b.flags = a.flags → b.level = a.level → b.consumeWs = a.consumeWs → a.cur = x :: b.cur → b.done = [] →
    splitRun cfg a l = .ok r → r.done = [] →
    ∃ r', splitRun cfg b l = .ok r' ∧ r.cur = x :: r'.cur ∧ r'.done = [] := by
  intro l
  induction l with
  | nil =>
    intro a b r hf hl hc hcur hbd h _
    simp [splitRun] at h; subst h
    exact ⟨b, rfl, hcur, hbd⟩
  | cons t ts ih =>
    intro a b r hf hl hc hcur hbd h hrd
    simp only [splitRun] at h
    split at h
    · rename_i a1 h1
      have ha1d := splitRun_done cfg ts a1 r h hrd
      obtain ⟨_, hoff⟩ := splitStep_done cfg a a1 t h1 ha1d
      unfold splitStep at h1
      rw [splitYield_off cfg a t hoff] at h1
      obtain ⟨e1, e2⟩ := splitAdvance_spec cfg a a1 t h1
      obtain ⟨b1, hb1, f1, l1, c1, cur1, d1⟩ := splitAdvance_ctl cfg a a1 b t h1 hf hl hc
      obtain ⟨r', hr', hcur', hd'⟩ := ih a1 b1 r f1 l1 c1 (by rw [e2, cur1, hcur]; rfl) (by rw [d1, hbd]) h hrd
      refine ⟨r', ?_, hcur', hd'⟩
      simp only [splitRun, splitStep]
      rw [splitYield_off cfg b t (by rw [hc]; exact hoff), hb1]
      exact hr'
    · exact absurd h (by simp)

theorem single_drop_ws (cfg : SplitCfg) (x : Tok) (l : List Tok) (hx : x.isWhitespace = true) (h : Single cfg (x :: l)) :
    Single cfg l := by
  obtain ⟨r, hrun, hcur, hdone, hnw⟩ := h
  simp only [splitRun, ws_step_reset cfg x hx] at hrun
  obtain ⟨r', hr', hc', hd'⟩ := shift_run cfg x l { cur := [x] } {} r rfl rfl rfl rfl rfl hrun hdone
  refine ⟨r', hr', ?_, hd', hasNonWs_cons_ws x l hx hnw⟩
  rw [hcur] at hc'
  simpa using hc'.symm

theorem single_dropLast_ws (cfg : SplitCfg) (x : Tok) (l : List Tok) (hx : x.isWhitespace = true)
    (h : Single cfg (l ++ [x])) : Single cfg l := by
  obtain ⟨r, hrun, hcur, hdone, hnw⟩ := h
  rw [splitRun_append] at hrun
  split at hrun
  · rename_i r1 hr1
    simp only [splitRun] at hrun
    split at hrun
    · rename_i r2 h2
      injection hrun with hrun; subst hrun
      obtain ⟨hd1, hoff⟩ := splitStep_done cfg r1 r2 x h2 hdone
      unfold splitStep at h2
      rw [splitYield_off cfg r1 x hoff] at h2
      obtain ⟨_, e2⟩ := splitAdvance_spec cfg r1 r2 x h2
      refine ⟨r1, hr1, ?_, hd1, hasNonWs_snoc_ws x l hx hnw⟩
      rw [e2] at hcur
      exact List.append_cancel_right hcur
    · exact absurd hrun (by simp)
  · exact absurd hrun (by simp)

/-- remove the whitespace-typed tokens at both ends -/
def trimWs (st : List Tok) : List Tok := ((st.dropWhile Tok.isWhitespace).reverse.dropWhile Tok.isWhitespace).reverse

theorem single_dropWhile (cfg : SplitCfg) : ∀ l : List Tok, Single cfg l → Single cfg (l.dropWhile Tok.isWhitespace) := by
  intro l
  induction l with
  | nil => intro h; exact h
  | cons x t ih =>
    intro h
    simp only [List.dropWhile_cons]
    split
    · rename_i hx; exact ih (single_drop_ws cfg x t hx h)
    · exact h

theorem single_rdropWhile (cfg : SplitCfg) : ∀ (n : Nat) (l : List Tok), l.length = n → Single cfg l →
    Single cfg (l.reverse.dropWhile Tok.isWhitespace).reverse := by
  intro n
  induction n with
  | zero => intro l hl h; have : l = [] := List.length_eq_zero_iff.mp hl; subst this; exact h
  | succ n ih =>
    intro l hl h
    have hne : l ≠ [] := by intro e; rw [e] at hl; simp at hl
    obtain ⟨init, x, rfl⟩ : ∃ init x, l = init ++ [x] := ⟨l.dropLast, l.getLast hne, (List.dropLast_concat_getLast hne).symm⟩
    simp only [List.reverse_append, List.reverse_cons, List.reverse_nil, List.nil_append, List.singleton_append,
      List.dropWhile_cons]
    split
    · rename_i hx
      exact ih init (by simpa using hl) (single_dropLast_ws cfg x init hx h)
    · simpa using h

theorem single_trim (cfg : SplitCfg) (l : List Tok) (h : Single cfg l) : Single cfg (trimWs l) :=
  single_rdropWhile cfg _ _ rfl (single_dropWhile cfg l h)

/-- token-level re-split of a trimmed statement -/
theorem resplit_tokens_trim (cfg : SplitCfg) (ts : List Tok) (sts : List (List Tok)) (h : splitProcess cfg ts = .ok sts) :
    ∀ st ∈ sts, splitProcess cfg (trimWs st) = .ok [trimWs st] :=
  fun st hst => (single_trim cfg st (resplit_single cfg ts sts h st hst)).process

/-! ## text level -/

theorem dropWhile_idem {α : Type} (p : α → Bool) : ∀ l : List α, (l.dropWhile p).dropWhile p = l.dropWhile p := by
  intro l
  induction l with
  | nil => rfl
  | cons x t ih =>
    simp only [List.dropWhile_cons]
    split
    · exact ih
    · rename_i hx; simp [hx]

theorem dropWhile_snoc_not {α : Type} (p : α → Bool) (x : α) (hx : p x = false) : ∀ l : List α,
    (l ++ [x]).dropWhile p = l.dropWhile p ++ [x] := by
  intro l
  induction l with
  | nil => simp [hx]
  | cons y t ih =>
    simp only [List.cons_append, List.dropWhile_cons]
    split
    · exact ih
    · rfl

/-- `strip()` is idempotent -/
theorem pyStrip_idem (v : Text) : pyStrip (pyStrip v) = pyStrip v := by
  unfold pyStrip
  cases hA : v.dropWhile isSpace with
  | nil => simp
  | cons x t =>
    have hx : isSpace x = false := by
      have := List.head_dropWhile_not (p := isSpace) (l := v) (by rw [hA]; simp)
      simpa [hA] using this
    -- stripping at the right keeps the head `x`
    have hB : ((x :: t).reverse.dropWhile isSpace).reverse = x :: (t.reverse.dropWhile isSpace).reverse := by
      simp only [List.reverse_cons]
      rw [dropWhile_snoc_not isSpace x hx]
      simp
    rw [hB]
    simp only [List.dropWhile_cons, hx, Bool.false_eq_true, if_false]
    rw [← hB]
    simp only [List.reverse_reverse, dropWhile_idem]

/-- re-lexing the stripped text of the statement gives its tokens minus the whitespace-typed tokens at both ends -/
def LexStable (st : List Tok) : Prop := lex defaultCfg (pyStrip (stmtText st)).toArray = .ok (trimWs st)

theorem noErrorTypeDefault : NoErrorType defaultCfg = true := by decide +kernel

/-- **text-level re-split, under `LexStable`**: a piece returned by `split` splits into exactly itself -/
theorem resplit_text (s : Array Cp) (sts : List (List Tok)) (h : lexSplit s = .ok sts) (st : List Tok) (hst : st ∈ sts)
    (hstable : LexStable st) :
    split (pyStrip (stmtText st)).toArray = .ok [pyStrip (stmtText st)] := by
  unfold lexSplit at h
  split at h
  · exact absurd h (by simp)
  · rename_i ts _
    have h1 := resplit_tokens_trim defaultSplitCfg ts sts h st hst
    -- the text of the re-lexed tokens is the stripped text
    obtain ⟨ts', hlex', hflat, _⟩ := lex_ok defaultCfg defaultRulesOK noErrorTypeDefault (pyStrip (stmtText st)).toArray
    have hts' : ts' = trimWs st := by
      rw [hstable] at hlex'; injection hlex' with e; exact e.symm
    subst hts'
    have htext : stmtText (trimWs st) = pyStrip (stmtText st) := by simpa [stmtText] using hflat
    have hst' : lex defaultCfg (pyStrip (stmtText st)).toArray = .ok (trimWs st) := hstable
    simp only [split, lexSplit, hst', h1, Except.map, List.map_cons, List.map_nil, Function.comp, htext, pyStrip_idem]

/-- `LexStable` as a computation (used by the driver command `lexstable`) -/
def lexStableB (st : List Tok) : Bool :=
  match lex defaultCfg (pyStrip (stmtText st)).toArray with
  | .ok ts => ts == trimWs st
  | .error _ => false

theorem lexStableB_iff (st : List Tok) : lexStableB st = true ↔ LexStable st := by
  unfold lexStableB LexStable
  cases h : lex defaultCfg (pyStrip (stmtText st)).toArray with
  | error e => simp
  | ok ts => simp

/-! ## cutting whitespace *characters* at both ends (what `strip()` does to the text), not only whole whitespace tokens

`strip()` may cut inside a token — typically the line break that ends a trailing `-- comment`.  `cutWs` removes the leading/trailing
whitespace characters from the token list: tokens that become empty are dropped, one token at each end may be shortened.  `cutOK` records
that every dropped token was Whitespace-typed and every shortened token is of a type whose value the splitter never reads. -/

theorem sameView_types : ∀ (l l' : List Tok), SameSplitView l l' → l.map (·.tt) = l'.map (·.tt) := by
  intro l
  induction l with
  | nil => intro l' h; cases l' with
    | nil => rfl
    | cons _ _ => exact absurd h (by simp [SameSplitView])
  | cons a t ih =>
    intro l' h
    cases l' with
    | nil => exact absurd h (by simp [SameSplitView])
    | cons b t' =>
      obtain ⟨h1, _, h3⟩ := h
      simp only [List.map_cons, h1, ih t' h3]

theorem hasNonWs_of_types (l l' : List Tok) (h : l.map (·.tt) = l'.map (·.tt)) (hn : HasNonWs l) : HasNonWs l' := by
  obtain ⟨t, ht, hw⟩ := hn
  have : t.tt ∈ l'.map (·.tt) := by rw [← h]; exact List.mem_map.mpr ⟨t, ht, rfl⟩
  obtain ⟨t', ht', htt⟩ := List.mem_map.mp this
  exact ⟨t', ht', by simp only [Tok.isWhitespace] at hw ⊢; rw [htt]; exact hw⟩

/-- a single-statement run stays one under changes of values the splitter never reads -/
theorem single_view (cfg : SplitCfg) (l l' : List Tok) (h : Single cfg l) (hv : SameSplitView l l') : Single cfg l' := by
  obtain ⟨r, hrun, hcur, hdone, hnw⟩ := h
  have hsh : (splitRun cfg {} l').map shapeOf = (splitRun cfg {} l).map shapeOf := by
    rw [splitRun_shape, splitRun_shape, shapeRun_blind cfg l l' _ hv]
  rw [hrun] at hsh
  cases hr' : splitRun cfg {} l' with
  | error e => rw [hr'] at hsh; simp [Except.map] at hsh
  | ok r' =>
    rw [hr'] at hsh
    simp only [Except.map, Except.ok.injEq] at hsh
    have hd : r'.done = [] := by
      have := congrArg SplitShape.doneLens hsh
      simp only [shapeOf, hdone, List.map_nil] at this
      simpa using this
    have hinv0 : SplitInv ({} : SplitState) :=
      ⟨fun s hs => absurd hs (by simp), fun h => absurd h (by simp)⟩
    obtain ⟨e, _⟩ := splitRun_spec cfg l' {} r' hinv0 hr'
    have hc : r'.cur = l' := by
      rw [hd] at e
      simpa using e
    exact ⟨r', hr', hc, hd, hasNonWs_of_types l l' (sameView_types l l' hv) hnw⟩

theorem sameView_refl' : ∀ l : List Tok, SameSplitView l l := by
  intro l
  induction l with
  | nil => trivial
  | cons a t ih => exact ⟨rfl, Or.inr rfl, ih⟩

/-- cut leading whitespace characters -/
def cutLead : List Tok → List Tok
  | [] => []
  | t :: ts =>
    match t.val.dropWhile isSpace with
    | [] => cutLead ts
    | v => ⟨t.tt, v⟩ :: ts

def cutLeadOK : List Tok → Bool
  | [] => true
  | t :: ts =>
    match t.val.dropWhile isSpace with
    | [] => t.isWhitespace && cutLeadOK ts
    | v => v == t.val || valueBlind t.tt

theorem single_cutLead (cfg : SplitCfg) : ∀ l : List Tok, Single cfg l → cutLeadOK l = true → Single cfg (cutLead l) := by
  intro l
  induction l with
  | nil => intro h _; exact h
  | cons t ts ih =>
    intro h hok
    simp only [cutLead, cutLeadOK] at hok ⊢
    split at hok
    · simp only [Bool.and_eq_true] at hok
      exact ih (single_drop_ws cfg t ts hok.1 h) hok.2
    · rename_i v hv
      simp only [Bool.or_eq_true, beq_iff_eq] at hok
      refine single_view cfg (t :: ts) _ h ⟨rfl, ?_, sameView_refl' ts⟩
      rcases hok with hok | hok
      · exact Or.inr hok.symm
      · exact Or.inl hok

/-- cut trailing whitespace characters (on the reversed token list) -/
def cutTrailRev : List Tok → List Tok
  | [] => []
  | t :: ts =>
    match pyRStrip t.val with
    | [] => cutTrailRev ts
    | v => ⟨t.tt, v⟩ :: ts

def cutTrailOKRev : List Tok → Bool
  | [] => true
  | t :: ts =>
    match pyRStrip t.val with
    | [] => t.isWhitespace && cutTrailOKRev ts
    | v => v == t.val || valueBlind t.tt

def cutTrail (l : List Tok) : List Tok := (cutTrailRev l.reverse).reverse
def cutTrailOK (l : List Tok) : Bool := cutTrailOKRev l.reverse

theorem sameView_snoc (a b : Tok) (htt : a.tt = b.tt) (hv : valueBlind a.tt = true ∨ a.val = b.val) :
    ∀ l : List Tok, SameSplitView (l ++ [a]) (l ++ [b]) := by
  intro l
  induction l with
  | nil => exact ⟨htt, hv, trivial⟩
  | cons x t ih => exact ⟨rfl, Or.inr rfl, ih⟩

theorem single_cutTrail (cfg : SplitCfg) : ∀ (n : Nat) (l : List Tok), l.length = n → Single cfg l → cutTrailOK l = true →
    Single cfg (cutTrail l) := by
  intro n
  induction n with
  | zero => intro l hl h _; have : l = [] := List.length_eq_zero_iff.mp hl; subst this; exact h
  | succ n ih =>
    intro l hl h hok
    have hne : l ≠ [] := by intro e; rw [e] at hl; simp at hl
    obtain ⟨init, x, rfl⟩ : ∃ init x, l = init ++ [x] := ⟨l.dropLast, l.getLast hne, (List.dropLast_concat_getLast hne).symm⟩
    simp only [cutTrail, cutTrailOK, List.reverse_append, List.reverse_cons, List.reverse_nil, List.nil_append,
      List.singleton_append, cutTrailRev, cutTrailOKRev] at hok ⊢
    split at hok
    · simp only [Bool.and_eq_true] at hok
      exact ih init (by simpa using hl) (single_dropLast_ws cfg x init hok.1 h) hok.2
    · rename_i v hv
      simp only [List.reverse_cons, List.reverse_reverse, Bool.or_eq_true, beq_iff_eq] at hok ⊢
      refine single_view cfg (init ++ [x]) _ h (sameView_snoc x ⟨x.tt, pyRStrip x.val⟩ rfl ?_ init)
      rcases hok with hok | hok
      · exact Or.inr hok.symm
      · exact Or.inl hok

/-- the token list after `strip()` of its text -/
def cutWs (st : List Tok) : List Tok := cutTrail (cutLead st)
def cutOK (st : List Tok) : Bool := cutLeadOK st && cutTrailOK (cutLead st)

theorem single_cutWs (cfg : SplitCfg) (l : List Tok) (h : Single cfg l) (hok : cutOK l = true) : Single cfg (cutWs l) := by
  simp only [cutOK, Bool.and_eq_true] at hok
  exact single_cutTrail cfg _ _ rfl (single_cutLead cfg l h hok.1) hok.2

/-- re-lexing the stripped text gives the statement's tokens with the whitespace characters cut at both ends, and the cut only dropped
Whitespace-typed tokens and only shortened tokens whose value the splitter never reads -/
def LexStableC (st : List Tok) : Prop :=
  lex defaultCfg (pyStrip (stmtText st)).toArray = .ok (cutWs st) ∧ cutOK st = true

def lexStableCB (st : List Tok) : Bool :=
  cutOK st &&
  (match lex defaultCfg (pyStrip (stmtText st)).toArray with
   | .ok ts => ts == cutWs st
   | .error _ => false)

theorem lexStableCB_iff (st : List Tok) : lexStableCB st = true ↔ LexStableC st := by
  unfold lexStableCB LexStableC
  cases h : lex defaultCfg (pyStrip (stmtText st)).toArray with
  | error e => simp
  | ok ts => simp [and_comm]

/-- **text-level re-split, under `LexStableC`** -/
theorem resplit_text_cut (s : Array Cp) (sts : List (List Tok)) (h : lexSplit s = .ok sts) (st : List Tok) (hst : st ∈ sts)
    (hstable : LexStableC st) :
    split (pyStrip (stmtText st)).toArray = .ok [pyStrip (stmtText st)] := by
  unfold lexSplit at h
  split at h
  · exact absurd h (by simp)
  · rename_i ts _
    have h1 : splitProcess defaultSplitCfg (cutWs st) = .ok [cutWs st] :=
      (single_cutWs defaultSplitCfg st (resplit_single defaultSplitCfg ts sts h st hst) hstable.2).process
    obtain ⟨ts', hlex', hflat, _⟩ := lex_ok defaultCfg defaultRulesOK noErrorTypeDefault (pyStrip (stmtText st)).toArray
    have hst' := hstable.1
    have hts' : ts' = cutWs st := by
      rw [hst'] at hlex'; injection hlex' with e; exact e.symm
    subst hts'
    have htext : stmtText (cutWs st) = pyStrip (stmtText st) := by simpa [stmtText] using hflat
    simp only [split, lexSplit, hst', h1, Except.map, List.map_cons, List.map_nil, Function.comp, htext, pyStrip_idem]

/-- either form of lexical stability suffices -/
theorem resplit_text_any (s : Array Cp) (sts : List (List Tok)) (h : lexSplit s = .ok sts) (st : List Tok) (hst : st ∈ sts)
    (hstable : (lexStableB st || lexStableCB st) = true) :
    split (pyStrip (stmtText st)).toArray = .ok [pyStrip (stmtText st)] := by
  rw [Bool.or_eq_true] at hstable
  rcases hstable with h1 | h1
  · exact resplit_text s sts h st hst ((lexStableB_iff st).mp h1)
  · exact resplit_text_cut s sts h st hst ((lexStableCB_iff st).mp h1)

end Sql
