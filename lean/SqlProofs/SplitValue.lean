import SqlModel.Splitter
/-!
# SqlProofs.SplitValue — the statement partition depends on a token only through its type, and through its
value only when the type is Punctuation or a Keyword type.  Replacing the body of any string literal, quoted
name, dollar-quoted literal, comment, number … therefore leaves the number and extent of the statements unchanged.

Technique: `shapeStep` is the splitter run on an abstraction of the state that only remembers lengths; the real
splitter refines it (`splitStep_shape`), and `shapeStep` visibly ignores value-blind values (`shapeStep_blind`).
-/
namespace Sql

/-- the splitter never looks at the value of a token of this type -/
def valueBlind (tt : TType) : Bool := !tt.isIn T.Keyword && tt != T.Punctuation

/-- same types; same values wherever the splitter can see them -/
def SameSplitView : List Tok → List Tok → Prop
  | [], [] => True
  | a :: as, b :: bs => a.tt = b.tt ∧ (valueBlind a.tt = true ∨ a.val = b.val) ∧ SameSplitView as bs
  | _, _ => False

/-- what the partition consists of: flags, level, and the *lengths* of the statements -/
structure SplitShape where
  flags : SplitFlags
  consumeWs : Bool
  level : Int
  curLen : Nat
  curAllWs : Bool
  doneLens : List Nat
deriving DecidableEq

def shapeOf (s : SplitState) : SplitShape :=
  ⟨s.flags, s.consumeWs, s.level, s.cur.length, s.cur.all Tok.isWhitespace, s.done.map List.length⟩

def shapeYield (cfg : SplitCfg) (sh : SplitShape) (t : Tok) : SplitShape :=
  if sh.consumeWs && !(cfg.eos.contains t.tt) then ⟨{}, false, 0, 0, true, sh.doneLens ++ [sh.curLen]⟩ else sh

def shapeAdvance (cfg : SplitCfg) (sh : SplitShape) (t : Tok) : Except PyErr SplitShape :=
  let r := changeSplitLevel cfg sh.flags t.tt t.val
  let sh1 : SplitShape := ⟨r.snd, sh.consumeWs, sh.level + r.fst, sh.curLen + 1, sh.curAllWs && t.isWhitespace, sh.doneLens⟩
  if sh1.level ≤ 0 && t.tt == T.Punctuation && t.val == txt ";" then .ok { sh1 with consumeWs := true }
  else if t.tt == T.Keyword then
    match splitFirst cfg.isSpace t.val with
    | none => .error .indexError
    | some w => .ok (if cfg.upper w == txt "GO" then { sh1 with consumeWs := true } else sh1)
  else .ok sh1

def shapeStep (cfg : SplitCfg) (sh : SplitShape) (t : Tok) : Except PyErr SplitShape :=
  shapeAdvance cfg (shapeYield cfg sh t) t

def shapeRun (cfg : SplitCfg) : SplitShape → List Tok → Except PyErr SplitShape
  | sh, [] => .ok sh
  | sh, t :: ts => match shapeStep cfg sh t with
    | .ok sh' => shapeRun cfg sh' ts
    | .error e => .error e

theorem splitYield_shape (cfg : SplitCfg) (s : SplitState) (t : Tok) :
    shapeOf (splitYield cfg s t) = shapeYield cfg (shapeOf s) t := by
  unfold splitYield shapeYield
  by_cases h : (s.consumeWs && !cfg.eos.contains t.tt) = true
  · have h' : ((shapeOf s).consumeWs && !cfg.eos.contains t.tt) = true := h
    rw [if_pos h, if_pos h']; simp [shapeOf]
  · have h' : ¬ ((shapeOf s).consumeWs && !cfg.eos.contains t.tt) = true := h
    rw [if_neg h, if_neg h']

theorem splitAdvance_shape (cfg : SplitCfg) (s : SplitState) (t : Tok) :
    (splitAdvance cfg s t).map shapeOf = shapeAdvance cfg (shapeOf s) t := by
  unfold splitAdvance shapeAdvance
  simp only []
  by_cases h1 : (decide (s.level + (changeSplitLevel cfg s.flags t.tt t.val).fst ≤ 0) && t.tt == T.Punctuation
      && t.val == txt ";") = true
  · have h1' : (decide ((shapeOf s).level + (changeSplitLevel cfg (shapeOf s).flags t.tt t.val).fst ≤ 0)
        && t.tt == T.Punctuation && t.val == txt ";") = true := h1
    rw [if_pos h1, if_pos h1']; simp [Except.map, shapeOf, List.all_append]
  · have h1' : ¬ (decide ((shapeOf s).level + (changeSplitLevel cfg (shapeOf s).flags t.tt t.val).fst ≤ 0)
        && t.tt == T.Punctuation && t.val == txt ";") = true := h1
    rw [if_neg h1, if_neg h1']
    by_cases h2 : (t.tt == T.Keyword) = true
    · rw [if_pos h2, if_pos h2]
      cases splitFirst cfg.isSpace t.val with
      | none => rfl
      | some w =>
        by_cases h3 : (cfg.upper w == txt "GO") = true
        · simp [h3, Except.map, shapeOf, List.all_append]
        · simp [h3, Except.map, shapeOf, List.all_append]
    · rw [if_neg h2, if_neg h2]; simp [Except.map, shapeOf, List.all_append]

theorem splitStep_shape (cfg : SplitCfg) (s : SplitState) (t : Tok) :
    (splitStep cfg s t).map shapeOf = shapeStep cfg (shapeOf s) t := by
  unfold splitStep shapeStep
  rw [splitAdvance_shape, splitYield_shape]

theorem splitRun_shape (cfg : SplitCfg) : ∀ (ts : List Tok) (s : SplitState),
    (splitRun cfg s ts).map shapeOf = shapeRun cfg (shapeOf s) ts := by
  intro ts
  induction ts with
  | nil => intro s; rfl
  | cons t ts ih =>
    intro s
    simp only [splitRun, shapeRun, ← splitStep_shape]
    cases h : splitStep cfg s t with
    | error e => rfl
    | ok s' => simp only [Except.map]; exact ih s'

theorem kindOf_blind (cfg : SplitCfg) (tt : TType) (v v' : Text) (h : valueBlind tt = true) :
    kindOf cfg tt v = kindOf cfg tt v' := by
  simp only [valueBlind, Bool.and_eq_true, Bool.not_eq_true', bne_iff_ne] at h
  unfold kindOf
  have e1 : (tt == T.Punctuation) = false := by simpa using h.2
  simp [e1, h.1]

theorem keyword_not_blind (tt : TType) (h : valueBlind tt = true) : (tt == T.Keyword) = false := by
  simp only [valueBlind, Bool.and_eq_true, Bool.not_eq_true', bne_iff_ne] at h
  cases hk : tt == T.Keyword
  · rfl
  · have : tt = T.Keyword := by simpa using hk
    rw [this] at h
    exact absurd h.1 (by decide)

theorem shapeStep_blind (cfg : SplitCfg) (sh : SplitShape) (t t' : Tok) (htt : t.tt = t'.tt)
    (hv : valueBlind t.tt = true ∨ t.val = t'.val) : shapeStep cfg sh t = shapeStep cfg sh t' := by
  rcases hv with hv | hv
  · have hp : (t.tt == T.Punctuation) = false := by
      simp only [valueBlind, Bool.and_eq_true, Bool.not_eq_true', bne_iff_ne] at hv
      simpa using hv.2
    have hkw := keyword_not_blind t.tt hv
    have hk : ∀ f, changeSplitLevel cfg f t.tt t.val = changeSplitLevel cfg f t'.tt t'.val := by
      intro f; unfold changeSplitLevel; rw [← htt, kindOf_blind cfg t.tt t.val t'.val hv]
    unfold shapeStep shapeYield shapeAdvance Tok.isWhitespace
    simp only [← htt, hp, hkw, hk, Bool.and_false, Bool.false_and, Bool.false_eq_true, if_false]
  · have : t = t' := by cases t; cases t'; simp_all
    rw [this]

theorem shapeRun_blind (cfg : SplitCfg) : ∀ (ts ts' : List Tok) (sh : SplitShape), SameSplitView ts ts' →
    shapeRun cfg sh ts = shapeRun cfg sh ts' := by
  intro ts
  induction ts with
  | nil =>
    intro ts' sh hv
    cases ts' with
    | nil => rfl
    | cons _ _ => exact absurd hv (by simp [SameSplitView])
  | cons t ts ih =>
    intro ts' sh hv
    cases ts' with
    | nil => exact absurd hv (by simp [SameSplitView])
    | cons t' ts' =>
      obtain ⟨htt, hval, hrest⟩ := hv
      simp only [shapeRun, shapeStep_blind cfg sh t t' htt hval]
      split
      · exact ih ts' _ hrest
      · rfl

/-- everything the splitter can see of a token: its type, what `_change_splitlevel` makes of it, whether it is `;`, whether the GO rule fires
(or `value.split()[0]` raises) -/
def tokView (cfg : SplitCfg) (t : Tok) : TType × SKind × Bool × Option Bool :=
  (t.tt, kindOf cfg t.tt t.val, t.val == txt ";",
   if t.tt == T.Keyword then (splitFirst cfg.isSpace t.val).map (fun w => cfg.upper w == txt "GO") else some false)

/-- `shapeStep` written as a function of the view alone -/
def shapeStepV (cfg : SplitCfg) (sh : SplitShape) (v : TType × SKind × Bool × Option Bool) : Except PyErr SplitShape :=
  let sh0 : SplitShape := if sh.consumeWs && !(cfg.eos.contains v.1) then ⟨{}, false, 0, 0, true, sh.doneLens ++ [sh.curLen]⟩ else sh
  let r := kindStep sh0.flags v.2.1
  let sh1 : SplitShape := ⟨r.snd, sh0.consumeWs, sh0.level + r.fst, sh0.curLen + 1, sh0.curAllWs && v.1.isIn T.Whitespace, sh0.doneLens⟩
  if sh1.level ≤ 0 && v.1 == T.Punctuation && v.2.2.1 then .ok { sh1 with consumeWs := true }
  else if v.1 == T.Keyword then
    match v.2.2.2 with
    | none => .error .indexError
    | some b => .ok (if b then { sh1 with consumeWs := true } else sh1)
  else .ok sh1

theorem shapeStep_eq_V (cfg : SplitCfg) (sh : SplitShape) (t : Tok) : shapeStep cfg sh t = shapeStepV cfg sh (tokView cfg t) := by
  unfold shapeStep shapeYield shapeAdvance shapeStepV tokView changeSplitLevel Tok.isWhitespace
  simp only
  by_cases hkw : (t.tt == T.Keyword) = true
  · simp only [hkw, if_true]
    cases h1 : splitFirst cfg.isSpace t.val <;> simp [Option.map]
  · have : (t.tt == T.Keyword) = false := by simpa using hkw
    simp [this]

theorem shapeStep_view (cfg : SplitCfg) (sh : SplitShape) (t t' : Tok) (h : tokView cfg t = tokView cfg t') :
    shapeStep cfg sh t = shapeStep cfg sh t' := by
  rw [shapeStep_eq_V, shapeStep_eq_V, h]

theorem shapeRun_view (cfg : SplitCfg) : ∀ (ts ts' : List Tok) (sh : SplitShape), ts.map (tokView cfg) = ts'.map (tokView cfg) →
    shapeRun cfg sh ts = shapeRun cfg sh ts' := by
  intro ts
  induction ts with
  | nil =>
    intro ts' sh hv
    cases ts' with
    | nil => rfl
    | cons _ _ => simp at hv
  | cons t ts ih =>
    intro ts' sh hv
    cases ts' with
    | nil => simp at hv
    | cons t' ts' =>
      simp only [List.map_cons, List.cons.injEq] at hv
      simp only [shapeRun, shapeStep_view cfg sh t t' hv.1]
      split
      · exact ih ts' _ hv.2
      · rfl

/-- the observable partition: the token count of each statement -/
def partitionLens (r : Except PyErr (List (List Tok))) : Except PyErr (List Nat) := r.map (·.map List.length)

/-- the lengths of the statements `splitProcess` returns, computed from the final shape alone -/
def shapeFinish (r : Except PyErr SplitShape) : Except PyErr (List Nat) :=
  match r with
  | .error e => .error e
  | .ok sh => if sh.curLen != 0 && !sh.curAllWs then .ok (sh.doneLens ++ [sh.curLen]) else .ok sh.doneLens

theorem splitProcess_shape (cfg : SplitCfg) (ts : List Tok) :
    partitionLens (splitProcess cfg ts) = shapeFinish (shapeRun cfg (shapeOf {}) ts) := by
  rw [← splitRun_shape]
  unfold splitProcess partitionLens shapeFinish
  cases h : splitRun cfg {} ts with
  | error e => rfl
  | ok st =>
    have e : (st.cur.length != 0) = !st.cur.isEmpty := by
      cases st.cur <;> simp
    by_cases hc : (!st.cur.isEmpty && !st.cur.all Tok.isWhitespace) = true
    · have hc' : ((shapeOf st).curLen != 0 && !(shapeOf st).curAllWs) = true := by
        simp only [shapeOf]; rw [e]; exact hc
      simp only [Except.map, if_pos hc, if_pos hc']
      simp [shapeOf]
    · have hc' : ¬ ((shapeOf st).curLen != 0 && !(shapeOf st).curAllWs) = true := by
        simp only [shapeOf]; rw [e]; exact hc
      simp only [Except.map, if_neg hc, if_neg hc']
      simp [shapeOf]

/-- **value irrelevance**: two token streams with the same types, and the same values wherever the type is a
keyword type or Punctuation, are split into statements of the same extents -/
theorem split_value_irrelevant (cfg : SplitCfg) (ts ts' : List Tok) (h : SameSplitView ts ts') :
    partitionLens (splitProcess cfg ts) = partitionLens (splitProcess cfg ts') := by
  rw [splitProcess_shape, splitProcess_shape, shapeRun_blind cfg ts ts' _ h]

/-- **the splitter sees a token only through its view**: two streams with the same sequence of views (same types; keywords with the same
`_change_splitlevel` classification — in particular any re-casing or re-spacing with the same `' '.join(v.upper().split())`; the same `;` and GO
tests) have identical statement extents -/
theorem split_view_invariant (cfg : SplitCfg) (ts ts' : List Tok) (h : ts.map (tokView cfg) = ts'.map (tokView cfg)) :
    partitionLens (splitProcess cfg ts) = partitionLens (splitProcess cfg ts') := by
  rw [splitProcess_shape, splitProcess_shape, shapeRun_view cfg ts ts' _ h]

end Sql
