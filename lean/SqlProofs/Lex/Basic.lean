import SqlModel.Regex
import SqlModel.Lexer
/-!
# SqlProofs.Lex.Basic — reading the subject through its suffixes, and closed forms of `derivs` for
single characters, `$`, lazy stars and the greedy star of a quoted body.

All statements describe the subject by `E.s.toList.drop p` (the text from position `p` on).
-/
namespace Sql

/-! ## suffixes -/

theorem get_of_drop_cons (E : Env) (p : Nat) (c : Cp) (t : List Cp) (h : E.s.toList.drop p = c :: t) :
    E.s[p]? = some c := by
  have h0 : (E.s.toList.drop p)[0]? = some c := by rw [h]; rfl
  simpa using h0

theorem get_of_drop_nil (E : Env) (p : Nat) (h : E.s.toList.drop p = []) : E.s[p]? = none := by
  have h0 : (E.s.toList.drop p)[0]? = none := by rw [h]; rfl
  simpa using h0

theorem drop_succ_of_cons {α : Type} (l : List α) (p : Nat) (c : α) (t : List α) (h : l.drop p = c :: t) :
    l.drop (p + 1) = t := by
  have : l.drop (p + 1) = (l.drop p).drop 1 := by rw [List.drop_drop]
  rw [this, h]; rfl

theorem drop_add_of_append {α : Type} (l : List α) (p : Nat) (w t : List α) (h : l.drop p = w ++ t) :
    l.drop (p + w.length) = t := by
  have : l.drop (p + w.length) = (l.drop p).drop w.length := by rw [List.drop_drop]
  rw [this, h]; simp

theorem lt_size_of_drop_cons (E : Env) (p : Nat) (c : Cp) (t : List Cp) (h : E.s.toList.drop p = c :: t) :
    p < E.s.size := by
  have := get_of_drop_cons E p c t h
  exact (Array.getElem?_eq_some_iff.mp this).1

theorem getElem?_of_drop (E : Env) (p k : Nat) (l : List Cp) (h : E.s.toList.drop p = l) : E.s[p + k]? = l[k]? := by
  rw [← h, List.getElem?_drop, Array.getElem?_toList]

/-! ## single characters -/

theorem derivs_set_cons (E : Env) (S : CpSet) (st : St) (c : Cp) (t : List Cp)
    (h : E.s.toList.drop st.pos = c :: t) :
    derivs E (.set S) st = if S.mem c then [{ st with pos := st.pos + 1 }] else [] := by
  simp only [derivs, get_of_drop_cons E _ c t h]

theorem derivs_set_nil (E : Env) (S : CpSet) (st : St) (h : E.s.toList.drop st.pos = []) :
    derivs E (.set S) st = [] := by
  simp only [derivs, get_of_drop_nil E _ h]

/-- a class that does not contain the current character (or no current character) has no derivation -/
theorem derivs_set_none (E : Env) (S : CpSet) (st : St)
    (h : ∀ c, E.s[st.pos]? = some c → S.mem c = false) : derivs E (.set S) st = [] := by
  simp only [derivs]
  split
  · rename_i c hc; simp [h c hc]
  · rfl

/-! ## `$` -/

theorem derivs_atEnd_size (E : Env) (st : St) (h : st.pos = E.s.size) : derivs E .atEnd st = [st] := by
  simp [derivs, h]

theorem derivs_atEnd_cons (E : Env) (st : St) (c : Cp) (t : List Cp) (h : E.s.toList.drop st.pos = c :: t)
    (hc : c ≠ 10) : derivs E .atEnd st = [] := by
  have hlt := lt_size_of_drop_cons E _ c t h
  have hg := get_of_drop_cons E _ c t h
  simp only [derivs, hg]
  have : ¬ st.pos = E.s.size := by omega
  simp [this, hc]

/-! ## one unfolding of the repetition loop -/

theorem repAux_zero0 (step : St → List St) (g : Bool) (hi : Option Nat) (st : St) :
    repAux step g 0 0 hi st = [st] := by simp [repAux]

theorem repAux_lazy0 (step : St → List St) (fuel : Nat) (st : St) :
    repAux step false (fuel + 1) 0 none st
      = st :: ((step st).filter (fun st' => st.pos < st'.pos)).flatMap (fun st' => repAux step false fuel 0 none st') := by
  rw [repAux]; simp

theorem repAux_greedy0 (step : St → List St) (fuel : Nat) (st : St) :
    repAux step true (fuel + 1) 0 none st
      = ((step st).filter (fun st' => st.pos < st'.pos)).flatMap (fun st' => repAux step true fuel 0 none st') ++ [st] := by
  rw [repAux]; simp

/-! ## lazy star of a class followed by a continuation -/

/-- `S*? K`: if the next `body.length` characters are all in `S` and `K` has no derivation at any of their positions,
the derivations begin with those of `K` right after them. -/
theorem lazy_star_flat (E : Env) (S : CpSet) (K : Re) (tail : List Cp) :
    ∀ (body : List Cp) (st : St) (fuel : Nat), E.s.toList.drop st.pos = body ++ tail →
      (∀ c ∈ body, S.mem c = true) →
      (∀ i, i < body.length → derivs E K ⟨st.pos + i, st.caps⟩ = []) → body.length ≤ fuel →
      ∃ more, (repAux (derivs E (.set S)) false fuel 0 none st).flatMap (derivs E K)
        = derivs E K ⟨st.pos + body.length, st.caps⟩ ++ more := by
  intro body
  induction body with
  | nil =>
    intro st fuel _ _ _ _
    cases fuel with
    | zero => exact ⟨[], by simp [repAux_zero0]⟩
    | succ fuel =>
      rw [repAux_lazy0, List.flatMap_cons]
      exact ⟨_, rfl⟩
  | cons c body ih =>
    intro st fuel hs hS hK hf
    cases fuel with
    | zero => simp at hf
    | succ fuel =>
      have hc : S.mem c = true := hS c (by simp)
      have hset : derivs E (.set S) st = [{ st with pos := st.pos + 1 }] := by
        rw [derivs_set_cons E S st c (body ++ tail) (by simpa using hs)]; simp [hc]
      have hs1 : E.s.toList.drop (st.pos + 1) = body ++ tail :=
        drop_succ_of_cons _ _ c _ (by simpa using hs)
      obtain ⟨more, hmore⟩ := ih { st with pos := st.pos + 1 } fuel hs1 (fun x hx => hS x (by simp [hx]))
        (fun i hi => by
          have := hK (i + 1) (by simp; omega)
          simpa [Nat.add_assoc, Nat.add_comm 1 i] using this)
        (by simp at hf; omega)
      have hK0 : derivs E K st = [] := by simpa using hK 0 (by simp)
      refine ⟨more, ?_⟩
      have hfil : List.filter (fun st' : St => decide (st.pos < st'.pos)) [{ st with pos := st.pos + 1 }]
          = [{ st with pos := st.pos + 1 }] := by simp
      rw [repAux_lazy0, hset, hfil]
      simp only [List.flatMap_cons, List.flatMap_nil, List.append_nil, hK0, List.nil_append]
      rw [hmore]
      simp [Nat.add_assoc, Nat.add_comm 1]

/-! ## greedy star of a quoted body -/

/-- the text between two quotes `q`: doubled quotes, and single characters other than the quote
(and other than the backslash when `noBs`) -/
inductive QBody (q : Cp) (noBs : Bool) : List Cp → Prop
  | nil : QBody q noBs []
  | dbl {t : List Cp} : QBody q noBs t → QBody q noBs (q :: q :: t)
  | chr {c : Cp} {t : List Cp} : c ≠ q → (noBs = true → c ≠ 92) → c ≤ 1114111 → QBody q noBs t → QBody q noBs (c :: t)

/-- greedy `(unit)*` where exactly one unit applies at every point of the body and none at `tail`:
the first derivation consumes the whole body -/
theorem greedy_units_head (E : Env) (step : St → List St) (q : Cp) (noBs : Bool) (tail : List Cp)
    (hdbl : ∀ st t, E.s.toList.drop st.pos = q :: q :: t → ∃ st', step st = [st'] ∧ st'.pos = st.pos + 2)
    (hchr : ∀ st c t, E.s.toList.drop st.pos = c :: t → c ≠ q → (noBs = true → c ≠ 92) → c ≤ 1114111 →
      ∃ st', step st = [st'] ∧ st'.pos = st.pos + 1)
    (hend : ∀ st, E.s.toList.drop st.pos = tail → step st = []) :
    ∀ body, QBody q noBs body → ∀ (st : St) (fuel : Nat), E.s.toList.drop st.pos = body ++ tail → body.length ≤ fuel →
      ∃ st' more, repAux step true fuel 0 none st = st' :: more ∧ st'.pos = st.pos + body.length := by
  intro body hb
  induction hb with
  | nil =>
    intro st fuel hs _
    cases fuel with
    | zero => exact ⟨st, [], by simp [repAux_zero0], by simp⟩
    | succ fuel =>
      refine ⟨st, [], ?_, by simp⟩
      rw [repAux_greedy0, hend st (by simpa using hs)]
      simp
  | @dbl t _ ih =>
    intro st fuel hs hf
    cases fuel with
    | zero => simp at hf
    | succ fuel =>
      obtain ⟨st1, h1, hp1⟩ := hdbl st (t ++ tail) (by simpa using hs)
      have hs1 : E.s.toList.drop st1.pos = t ++ tail := by
        rw [hp1]
        exact drop_add_of_append _ _ [q, q] _ (by simpa using hs)
      obtain ⟨st', more, hrep, hpos⟩ := ih st1 fuel hs1 (by simp at hf; omega)
      refine ⟨st', more ++ [st], ?_, by rw [hpos, hp1]; simp; omega⟩
      have hfil : List.filter (fun st' : St => decide (st.pos < st'.pos)) [st1] = [st1] := by simp [hp1]
      rw [repAux_greedy0, h1, hfil]
      simp [hrep]
  | @chr c t hq hbs hle _ ih =>
    intro st fuel hs hf
    cases fuel with
    | zero => simp at hf
    | succ fuel =>
      obtain ⟨st1, h1, hp1⟩ := hchr st c (t ++ tail) (by simpa using hs) hq hbs hle
      have hs1 : E.s.toList.drop st1.pos = t ++ tail := by
        rw [hp1]
        exact drop_succ_of_cons _ _ c _ (by simpa using hs)
      obtain ⟨st', more, hrep, hpos⟩ := ih st1 fuel hs1 (by simp at hf; omega)
      refine ⟨st', more ++ [st], ?_, by rw [hpos, hp1]; simp; omega⟩
      have hfil : List.filter (fun st' : St => decide (st.pos < st'.pos)) [st1] = [st1] := by simp [hp1]
      rw [repAux_greedy0, h1, hfil]
      simp [hrep]

/-! ## the scan step -/

theorem firstMatch_split (E : Env) (pre : List Rule) (r : Rule) (post : List Rule) (p : Nat)
    (hpre : ∀ x ∈ pre, derivs E x.re ⟨p, []⟩ = []) (st : St) (more : List St)
    (hr : derivs E r.re ⟨p, []⟩ = st :: more) :
    firstMatch E (pre ++ r :: post) p = some (r.act, st.pos) := by
  induction pre with
  | nil => simp [firstMatch, matchAt, hr]
  | cons x xs ih =>
    have hx := hpre x (by simp)
    simp only [List.cons_append, firstMatch, matchAt, hx, List.head?_nil]
    exact ih (fun y hy => hpre y (by simp [hy]))

/-! ## locating a rule in the table by its content, not by its index -/

/-- the rule `r` occurs in the table and every rule before its first occurrence satisfies `pre` -/
def firstWith (pre : Rule → Bool) (r : Rule) : List Rule → Bool
  | [] => false
  | x :: xs => if x == r then true else pre x && firstWith pre r xs

theorem firstWith_spec (pre : Rule → Bool) (r : Rule) : ∀ rules, firstWith pre r rules = true →
    ∃ front back, rules = front ++ r :: back ∧ ∀ x ∈ front, pre x = true := by
  intro rules
  induction rules with
  | nil => intro h; simp [firstWith] at h
  | cons x xs ih =>
    intro h
    simp only [firstWith] at h
    split at h
    · rename_i hx
      have : x = r := by simpa using hx
      subst this
      exact ⟨[], xs, rfl, by simp⟩
    · simp only [Bool.and_eq_true] at h
      obtain ⟨front, back, hxs, hf⟩ := ih h.2
      refine ⟨x :: front, back, by simp [hxs], ?_⟩
      intro y hy
      simp only [List.mem_cons] at hy
      rcases hy with rfl | hy
      · exact h.1
      · exact hf y hy

/-- the scan step, given the table as `front ++ r :: back` -/
theorem firstMatch_first (E : Env) (pre : Rule → Bool) (r : Rule) (rules : List Rule) (p : Nat)
    (hfw : firstWith pre r rules = true) (hpre : ∀ x, pre x = true → derivs E x.re ⟨p, []⟩ = [])
    (st : St) (more : List St) (hr : derivs E r.re ⟨p, []⟩ = st :: more) :
    firstMatch E rules p = some (r.act, st.pos) := by
  obtain ⟨front, back, hrules, hf⟩ := firstWith_spec pre r rules hfw
  rw [hrules]
  exact firstMatch_split E front r back p (fun x hx => hpre x (hf x hx)) st more hr

end Sql
