import SqlProofs.Lex.Basic
import SqlProofs.RegexBound
/-!
# SqlProofs.Lex.Shift — the matcher only sees the text from one character before the start position on

Two subjects whose texts agree from position `x1 - 1` (in the first) resp. `x2 - 1` (in the second) on: for every expression whose
look-behinds are one-character classes (`lb1`), the derivations from any position `≥ x1` in the first subject are exactly the derivations
from the corresponding position in the second, shifted (`derivs_shift`).  Hence the scan steps from `x1` on in the first text and from
`x2` on in the second produce the same tokens (`scan_shift`).
-/
namespace Sql

/-- every look-behind is a single character class of width 1 -/
def lb1 : Re → Bool
  | .look false _ w r => w == 1 && (match r with | .set _ => true | _ => false)
  | .look true _ _ r => lb1 r
  | .cat a b => lb1 a && lb1 b
  | .alt a b => lb1 a && lb1 b
  | .rep _ _ _ r => lb1 r
  | .grp _ r => lb1 r
  | _ => true

structure SuffixEq (E1 E2 : Env) (x1 x2 : Nat) : Prop where
  x1pos : 1 ≤ x1
  x2pos : 1 ≤ x2
  text : E1.s.toList.drop (x1 - 1) = E2.s.toList.drop (x2 - 1)
  word : E1.word = E2.word
  lower : E1.lower = E2.lower

section
variable {E1 E2 : Env} {x1 x2 : Nat}

/-- position in the second subject -/
def shp (x1 x2 a : Nat) : Nat := a - x1 + x2

def shiftSt (x1 x2 : Nat) (st : St) : St :=
  ⟨shp x1 x2 st.pos, st.caps.map fun c => (c.1, shp x1 x2 c.2.1, shp x1 x2 c.2.2)⟩

/-- the state lies in the common part -/
def ValidAt (x : Nat) (st : St) : Prop := x ≤ st.pos ∧ ∀ c ∈ st.caps, x ≤ c.2.1 ∧ x ≤ c.2.2

theorem SuffixEq.get (H : SuffixEq E1 E2 x1 x2) (a : Nat) (ha : x1 ≤ a) : E2.s[shp x1 x2 a]? = E1.s[a]? := by
  have h1 := getElem?_of_drop E1 (x1 - 1) (a - x1 + 1) _ rfl
  have h2 := getElem?_of_drop E2 (x2 - 1) (a - x1 + 1) _ rfl
  rw [← H.text] at h2
  have e1 : x1 - 1 + (a - x1 + 1) = a := by have := H.x1pos; omega
  have e2 : x2 - 1 + (a - x1 + 1) = shp x1 x2 a := by have := H.x2pos; unfold shp; omega
  rw [e1] at h1; rw [e2] at h2
  rw [h1, h2]

theorem SuffixEq.getPred (H : SuffixEq E1 E2 x1 x2) (a : Nat) (ha : x1 ≤ a) : E2.s[shp x1 x2 a - 1]? = E1.s[a - 1]? := by
  have h1 := getElem?_of_drop E1 (x1 - 1) (a - x1) _ rfl
  have h2 := getElem?_of_drop E2 (x2 - 1) (a - x1) _ rfl
  rw [← H.text] at h2
  have e1 : x1 - 1 + (a - x1) = a - 1 := by have := H.x1pos; omega
  have e2 : x2 - 1 + (a - x1) = shp x1 x2 a - 1 := by have := H.x2pos; unfold shp; omega
  rw [e1] at h1; rw [e2] at h2
  rw [h1, h2]

theorem SuffixEq.size (H : SuffixEq E1 E2 x1 x2) : E1.s.size - (x1 - 1) = E2.s.size - (x2 - 1) := by
  have := congrArg List.length H.text
  simpa using this

theorem flatMap_map_shift {α β : Type} (sh : α → α) (sh' : β → β) (l : List α) (f g : α → List β)
    (h : ∀ m ∈ l, g (sh m) = (f m).map sh') : (l.map sh).flatMap g = (l.flatMap f).map sh' := by
  induction l with
  | nil => rfl
  | cons a t ih =>
    simp only [List.map_cons, List.flatMap_cons, List.map_append]
    rw [h a (by simp), ih (fun m hm => h m (by simp [hm]))]

theorem capOf_shift (caps : List (Nat × Nat × Nat)) (n : Nat) :
    capOf (caps.map fun c => (c.1, shp x1 x2 c.2.1, shp x1 x2 c.2.2)) n
      = (capOf caps n).map fun ab => (shp x1 x2 ab.1, shp x1 x2 ab.2) := by
  induction caps with
  | nil => rfl
  | cons c t ih =>
    simp only [capOf, List.map_cons, List.find?_cons] at ih ⊢
    by_cases hc : (c.1 == n) = true
    · simp [hc]
    · simp only [hc]
      exact ih

theorem capOf_valid (x : Nat) (caps : List (Nat × Nat × Nat)) (n : Nat) (h : ∀ c ∈ caps, x ≤ c.2.1 ∧ x ≤ c.2.2)
    (a b : Nat) (hc : capOf caps n = some (a, b)) : x ≤ a ∧ x ≤ b := by
  unfold capOf at hc
  split at hc
  · rename_i c hf
    injection hc with hc
    have := h c (List.mem_of_find?_eq_some hf)
    rw [hc] at this; exact this
  · simp at hc

theorem shiftSt_pos_add (st : St) (k : Nat) (h : x1 ≤ st.pos) :
    shiftSt x1 x2 { st with pos := st.pos + k } = { shiftSt x1 x2 st with pos := (shiftSt x1 x2 st).pos + k } := by
  simp only [shiftSt, shp, St.mk.injEq, and_true]
  omega

theorem if_map_shift (b : Bool) (st : St) :
    (if b = true then [shiftSt x1 x2 st] else []) = List.map (shiftSt x1 x2) (if b = true then [st] else []) := by
  cases b <;> rfl

theorem ifp_map_shift (p q : Prop) [Decidable p] [Decidable q] (h : p ↔ q) (st : St) :
    (if p then [shiftSt x1 x2 st] else []) = List.map (shiftSt x1 x2) (if q then [st] else []) := by
  by_cases hq : q
  · simp [hq, h.mpr hq]
  · have : ¬ p := fun hp => hq (h.mp hp)
    simp [hq, this]

/-- what a repetition needs of its body -/
def StepOK (x1 x2 : Nat) (step1 step2 : St → List St) : Prop :=
  ∀ st, ValidAt x1 st → step2 (shiftSt x1 x2 st) = (step1 st).map (shiftSt x1 x2) ∧
    ∀ st' ∈ step1 st, ValidAt x1 st' ∧ st.pos ≤ st'.pos

theorem repAux_shift (g : Bool) (step1 step2 : St → List St) (hstep : StepOK x1 x2 step1 step2) :
    ∀ (fuel lo : Nat) (hi : Option Nat) (st : St), ValidAt x1 st →
      repAux step2 g fuel lo hi (shiftSt x1 x2 st) = (repAux step1 g fuel lo hi st).map (shiftSt x1 x2) ∧
      ∀ st' ∈ repAux step1 g fuel lo hi st, ValidAt x1 st' ∧ st.pos ≤ st'.pos := by
  intro fuel
  induction fuel with
  | zero =>
    intro lo hi st hv
    simp only [repAux]
    split
    · exact ⟨rfl, fun st' h => by simp at h; subst h; exact ⟨hv, Nat.le_refl _⟩⟩
    · exact ⟨rfl, fun st' h => by simp at h⟩
  | succ fuel ih =>
    intro lo hi st hv
    have hstop : (if lo = 0 then [shiftSt x1 x2 st] else []) = (if lo = 0 then [st] else []).map (shiftSt x1 x2) := by
      split <;> rfl
    have hstopv : ∀ st' ∈ (if lo = 0 then [st] else []), ValidAt x1 st' ∧ st.pos ≤ st'.pos := by
      intro st' h
      split at h
      · simp at h; subst h; exact ⟨hv, Nat.le_refl _⟩
      · simp at h
    obtain ⟨hs1, hs2⟩ := hstep st hv
    -- the progress filter commutes with the shift
    have hfil : ((step1 st).map (shiftSt x1 x2)).filter (fun st' => (shiftSt x1 x2 st).pos < st'.pos)
        = ((step1 st).filter (fun st' => st.pos < st'.pos)).map (shiftSt x1 x2) := by
      rw [List.filter_map]
      congr 1
      apply List.filter_congr
      intro y hy
      have hy' := (hs2 y hy).1.1
      have := hv.1
      have hiff : ((shiftSt x1 x2 st).pos < (shiftSt x1 x2 y).pos) ↔ (st.pos < y.pos) := by
        simp only [shiftSt, shp]; omega
      simp only [Function.comp]
      exact decide_eq_decide.mpr hiff
    have hmore : ((step2 (shiftSt x1 x2 st)).filter (fun st' => (shiftSt x1 x2 st).pos < st'.pos)).flatMap
          (fun st' => repAux step2 g fuel (lo - 1) (hi.map (· - 1)) st')
        = (((step1 st).filter (fun st' => st.pos < st'.pos)).flatMap
          (fun st' => repAux step1 g fuel (lo - 1) (hi.map (· - 1)) st')).map (shiftSt x1 x2) := by
      rw [hs1, hfil]
      apply flatMap_map_shift
      intro m hm
      exact (ih (lo - 1) (hi.map (· - 1)) m (hs2 m (List.mem_filter.mp hm).1).1).1
    have hmorev : ∀ st' ∈ ((step1 st).filter (fun st' => st.pos < st'.pos)).flatMap
          (fun st' => repAux step1 g fuel (lo - 1) (hi.map (· - 1)) st'), ValidAt x1 st' ∧ st.pos ≤ st'.pos := by
      intro st' h
      simp only [List.mem_flatMap, List.mem_filter] at h
      obtain ⟨m, ⟨hm, _⟩, hr⟩ := h
      obtain ⟨hmv, hmp⟩ := hs2 m hm
      obtain ⟨h1, h2⟩ := (ih (lo - 1) (hi.map (· - 1)) m hmv).2 st' hr
      exact ⟨h1, Nat.le_trans hmp h2⟩
    rw [repAux, repAux]
    split
    · exact ⟨hstop, hstopv⟩
    · simp only
      split
      · refine ⟨by rw [hmore, hstop, List.map_append], ?_⟩
        intro st' h
        rcases List.mem_append.mp h with h | h
        · exact hmorev st' h
        · exact hstopv st' h
      · refine ⟨by rw [hmore, hstop, List.map_append], ?_⟩
        intro st' h
        rcases List.mem_append.mp h with h | h
        · exact hstopv st' h
        · exact hmorev st' h

theorem lookbehind_set (E : Env) (S : CpSet) (st : St) :
    (derivs E (.set S) { st with pos := st.pos - 1 }).any (fun st' => st'.pos == st.pos)
      = (match E.s[st.pos - 1]? with
         | some c => S.mem c && (st.pos - 1 + 1 == st.pos)
         | none => false) := by
  simp only [derivs]
  cases E.s[st.pos - 1]? with
  | none => rfl
  | some c =>
    simp only
    cases S.mem c <;> simp

theorem derivs_shift (H : SuffixEq E1 E2 x1 x2) : ∀ r : Re, lb1 r = true →
    StepOK x1 x2 (derivs E1 r) (derivs E2 r) := by
  have hx1 := H.x1pos
  have hx2 := H.x2pos
  have hsz := H.size
  intro r
  induction r with
  | eps =>
    intro _ st hv
    exact ⟨rfl, fun st' h => by simp [derivs] at h; subst h; exact ⟨hv, Nat.le_refl _⟩⟩
  | set S =>
    intro _ st hv
    have hg := H.get st.pos hv.1
    constructor
    · simp only [derivs]
      have : (shiftSt x1 x2 st).pos = shp x1 x2 st.pos := rfl
      rw [this, hg]
      cases E1.s[st.pos]? with
      | none => rfl
      | some c =>
        simp only
        split
        · have := shiftSt_pos_add (x2 := x2) st 1 hv.1
          simp only [List.map_cons, List.map_nil, this]
          rfl
        · rfl
    · intro st' h
      simp only [derivs] at h
      split at h
      · split at h
        · simp at h; subst h
          exact ⟨⟨by have := hv.1; simp; omega, hv.2⟩, by simp⟩
        · simp at h
      · simp at h
  | cat a b iha ihb =>
    intro hl st hv
    simp only [lb1, Bool.and_eq_true] at hl
    obtain ⟨ha1, ha2⟩ := iha hl.1 st hv
    constructor
    · simp only [derivs]
      rw [ha1]
      apply flatMap_map_shift
      intro m hm
      exact (ihb hl.2 m (ha2 m hm).1).1
    · intro st' h
      simp only [derivs, List.mem_flatMap] at h
      obtain ⟨m, hm, hr⟩ := h
      obtain ⟨hmv, hmp⟩ := ha2 m hm
      obtain ⟨h1, h2⟩ := (ihb hl.2 m hmv).2 st' hr
      exact ⟨h1, Nat.le_trans hmp h2⟩
  | alt a b iha ihb =>
    intro hl st hv
    simp only [lb1, Bool.and_eq_true] at hl
    obtain ⟨ha1, ha2⟩ := iha hl.1 st hv
    obtain ⟨hb1, hb2⟩ := ihb hl.2 st hv
    constructor
    · simp only [derivs]; rw [ha1, hb1, List.map_append]
    · intro st' h
      simp only [derivs, List.mem_append] at h
      rcases h with h | h
      · exact ha2 st' h
      · exact hb2 st' h
  | rep lo hi g r ih =>
    intro hl st hv
    simp only [lb1] at hl
    have key := repAux_shift g (derivs E1 r) (derivs E2 r) (ih hl) (E1.s.size - st.pos + 1) lo hi st hv
    have hfuel : E2.s.size - (shiftSt x1 x2 st).pos + 1 = E1.s.size - st.pos + 1 := by
      have := hv.1
      simp only [shiftSt, shp]
      omega
    simp only [derivs]
    rw [hfuel]
    exact key
  | grp n r ih =>
    intro hl st hv
    simp only [lb1] at hl
    obtain ⟨h1, h2⟩ := ih hl st hv
    constructor
    · simp only [derivs]
      rw [h1, List.map_map, List.map_map]
      rfl
    · intro st' h
      simp only [derivs, List.mem_map] at h
      obtain ⟨y, hy, rfl⟩ := h
      obtain ⟨hyv, hyp⟩ := h2 y hy
      refine ⟨⟨hyv.1, ?_⟩, hyp⟩
      intro c hc
      simp only [List.mem_cons] at hc
      rcases hc with rfl | hc
      · exact ⟨hv.1, hyv.1⟩
      · exact hyv.2 c hc
  | bref n =>
    intro _ st hv
    constructor
    · simp only [derivs]
      have hc : (shiftSt x1 x2 st).caps = st.caps.map fun c => (c.1, shp x1 x2 c.2.1, shp x1 x2 c.2.2) := rfl
      rw [hc, capOf_shift]
      cases hcap : capOf st.caps n with
      | none => rfl
      | some ab =>
        obtain ⟨a, b⟩ := ab
        obtain ⟨hax, hbx⟩ := capOf_valid x1 st.caps n hv.2 a b hcap
        have hpx := hv.1
        simp only [Option.map_some]
        have hlen : shp x1 x2 b - shp x1 x2 a = b - a := by unfold shp; omega
        have hpos : (shiftSt x1 x2 st).pos = shp x1 x2 st.pos := rfl
        rw [hlen, hpos]
        have hsf : sameFold E2 (shp x1 x2 a) (shp x1 x2 st.pos) (b - a) = sameFold E1 a st.pos (b - a) := by
          unfold sameFold
          congr 1
          funext k
          have e1 : shp x1 x2 a + k = shp x1 x2 (a + k) := by unfold shp; omega
          have e2 : shp x1 x2 st.pos + k = shp x1 x2 (st.pos + k) := by unfold shp; omega
          rw [e1, e2, H.get (a + k) (by omega), H.get (st.pos + k) (by omega), H.lower]
        have hle : (decide (shp x1 x2 st.pos + (b - a) ≤ E2.s.size)) = decide (st.pos + (b - a) ≤ E1.s.size) := by
          simp only [decide_eq_decide]; unfold shp; omega
        rw [hsf, hle]
        split
        · have := shiftSt_pos_add (x2 := x2) st (b - a) hv.1
          simp only [List.map_cons, List.map_nil, this]
          rfl
        · rfl
    · intro st' h
      simp only [derivs] at h
      split at h
      · split at h
        · simp at h; subst h
          exact ⟨⟨by have := hv.1; simp; omega, hv.2⟩, by simp⟩
        · simp at h
      · simp at h
  | look ahead neg w r ih =>
    intro hl st hv
    have hsub : ∀ st' ∈ derivs E1 (.look ahead neg w r) st, ValidAt x1 st' ∧ st.pos ≤ st'.pos := by
      intro st' h
      simp only [derivs] at h
      have : st' = st := by
        split at h
        · simp at h; exact h.2
        · simp at h; exact h.2
      subst this; exact ⟨hv, Nat.le_refl _⟩
    refine ⟨?_, hsub⟩
    cases ahead with
    | true =>
      simp only [lb1] at hl
      obtain ⟨h1, _⟩ := ih hl st hv
      rw [derivs, derivs]
      simp only [if_true, h1, List.isEmpty_map]
      exact if_map_shift _ st
    | false =>
      simp only [lb1, Bool.and_eq_true, beq_iff_eq] at hl
      obtain ⟨hw, hr⟩ := hl
      subst hw
      cases r with
      | set S =>
        have hp1 : ¬ st.pos < 1 := by have := hv.1; omega
        have hp2 : ¬ (shiftSt x1 x2 st).pos < 1 := by simp only [shiftSt, shp]; omega
        have hb1 := lookbehind_set E1 S st
        have hb2 := lookbehind_set E2 S (shiftSt x1 x2 st)
        have hg : E2.s[(shiftSt x1 x2 st).pos - 1]? = E1.s[st.pos - 1]? := H.getPred st.pos hv.1
        have hd1 : (st.pos - 1 + 1 == st.pos) = true := by simp; omega
        have hd2 : ((shiftSt x1 x2 st).pos - 1 + 1 == (shiftSt x1 x2 st).pos) = true := by simp; omega
        rw [hd1] at hb1; rw [hd2, hg] at hb2
        have e : ∀ (E : Env) (st : St), derivs E (.look false neg 1 (.set S)) st =
            (if ((if st.pos < 1 then false else
              (derivs E (.set S) { st with pos := st.pos - 1 }).any fun st' => st'.pos == st.pos) != neg) = true
             then [st] else []) := by
          intro E st; rfl
        rw [e E2, e E1]
        simp only [if_false, hp1, hp2, hb1, hb2]
        exact if_map_shift _ st
      | _ => simp at hr
  | atEnd =>
    intro _ st hv
    have hsub : ∀ st' ∈ derivs E1 .atEnd st, ValidAt x1 st' ∧ st.pos ≤ st'.pos := by
      intro st' h
      simp only [derivs] at h
      split at h
      · simp at h; subst h; exact ⟨hv, Nat.le_refl _⟩
      · simp at h
    refine ⟨?_, hsub⟩
    simp only [derivs]
    have hpos : (shiftSt x1 x2 st).pos = shp x1 x2 st.pos := rfl
    have hpx := hv.1
    have c1 : (shp x1 x2 st.pos = E2.s.size) ↔ (st.pos = E1.s.size) := by unfold shp; omega
    have c2 : (shp x1 x2 st.pos + 1 = E2.s.size) ↔ (st.pos + 1 = E1.s.size) := by unfold shp; omega
    rw [hpos, H.get st.pos hpx]
    simp only [c1, c2]
    exact if_map_shift _ st
  | wordB =>
    intro _ st hv
    have hsub : ∀ st' ∈ derivs E1 .wordB st, ValidAt x1 st' ∧ st.pos ≤ st'.pos := by
      intro st' h
      simp only [derivs] at h
      split at h
      · simp at h; subst h; exact ⟨hv, Nat.le_refl _⟩
      · simp at h
    refine ⟨?_, hsub⟩
    have hpx := hv.1
    have hpos : (shiftSt x1 x2 st).pos = shp x1 x2 st.pos := rfl
    have g1 : decide (shp x1 x2 st.pos > 0) = decide (st.pos > 0) := by simp only [decide_eq_decide]; unfold shp; omega
    simp only [derivs, isWordAt, hpos, H.get st.pos hpx, H.getPred st.pos hpx, H.word, g1]
    exact if_map_shift _ st

end

/-! ## scan steps -/

theorem firstMatch_shift {E1 E2 : Env} {x1 x2 : Nat} (H : SuffixEq E1 E2 x1 x2) : ∀ (rules : List Rule),
    (rules.all fun r => lb1 r.re) = true → ∀ q, x1 ≤ q →
    firstMatch E2 rules (shp x1 x2 q) = (firstMatch E1 rules q).map fun ae => (ae.1, shp x1 x2 ae.2) := by
  intro rules
  induction rules with
  | nil => intro _ q _; rfl
  | cons r rs ih =>
    intro hall q hq
    simp only [List.all_cons, Bool.and_eq_true] at hall
    have hv : ValidAt x1 ⟨q, []⟩ := ⟨hq, fun c hc => by simp at hc⟩
    have h1 := (derivs_shift H r.re hall.1 ⟨q, []⟩ hv).1
    have hs : shiftSt x1 x2 ⟨q, []⟩ = ⟨shp x1 x2 q, []⟩ := rfl
    rw [hs] at h1
    simp only [firstMatch, matchAt, h1, List.head?_map]
    cases hd : (derivs E1 r.re ⟨q, []⟩).head? with
    | none => simp only [Option.map_none]; exact ih hall.2 q hq
    | some st => simp [shiftSt]

end Sql
