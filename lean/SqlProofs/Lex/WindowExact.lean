import SqlProofs.Lex.Window
/-!
# SqlProofs.Lex.WindowExact — the exact list of end positions on a known window

`aexact K r off` computes, for expressions built from classes, sequences, alternations, groups, repetitions and `\b`, the **exact** list of
end offsets of the derivations of `r` started at offset `off`, in priority order, when the text reads `K.w` followed by one character outside
the classes `K.excl`; `none` = cannot tell (look-arounds, back-references, `$`, or a test on the unknown character that the exclusions do
not decide).  With it the *first* derivation — what `re.match` returns — of a dedicated keyword rule is computed, not only bounded.
-/
namespace Sql

def joinX (f : Nat → Option (List Nat)) : List Nat → Option (List Nat)
  | [] => some []
  | o :: os =>
    match f o, joinX f os with
    | some x, some y => some (x ++ y)
    | _, _ => none

def arepX (step : Nat → Option (List Nat)) (greedy : Bool) : Nat → Nat → Option Nat → Nat → Option (List Nat)
  | 0, _, _, _ => none
  | fuel+1, lo, hi, off =>
    if hi = some 0 then some (if lo = 0 then [off] else []) else
    match step off with
    | none => none
    | some l =>
      match joinX (arepX step greedy fuel (lo - 1) (hi.map (· - 1))) (l.filter (fun o => off < o)) with
      | none => none
      | some more => some (if greedy then more ++ (if lo = 0 then [off] else []) else (if lo = 0 then [off] else []) ++ more)

def aWordBX (K : WCtx) (off : Nat) : Option (List Nat) :=
  if 0 < off ∧ off < K.w.size then
    (if K.word.mem (K.at (off - 1)) == K.word.mem (K.at off) then some [] else some [off])
  else if 0 < off ∧ off = K.w.size then
    (if K.cNotIn K.word then (if K.word.mem (K.at (off - 1)) then some [off] else some []) else none)
  else none

def aCatX (x : Option (List Nat)) (f : Nat → Option (List Nat)) : Option (List Nat) :=
  match x with
  | none => none
  | some l => joinX f l

def aexact (K : WCtx) : Re → Nat → Option (List Nat)
  | .eps, off => some [off]
  | .set S, off => aSet K S off
  | .cat a b, off => aCatX (aexact K a off) (aexact K b)
  | .alt a b, off => aAlt (aexact K a off) (aexact K b off)
  | .grp _ r, off => aexact K r off
  | .rep lo hi g r, off => arepX (aexact K r) g (K.w.size + 2 - off) lo hi off
  | .wordB, off => aWordBX K off
  | .bref _, _ => none
  | .look .., _ => none
  | .atEnd, _ => none

/-- the positions of `L` are exactly `p + o` for the offsets `o` of `l`, in order -/
def PosEq (p : Nat) (l : List Nat) (L : List St) : Prop := L.map (·.pos) = l.map (p + ·)

theorem PosEq.nil_iff {p : Nat} {L : List St} : PosEq p [] L ↔ L = [] := by
  simp [PosEq]

theorem posEq_flatMap (p : Nat) (f : Nat → Option (List Nat)) (g : St → List St)
    (hfg : ∀ o lo, f o = some lo → ∀ st, st.pos = p + o → PosEq p lo (g st)) :
    ∀ (l : List Nat) (L : List St) (res : List Nat), PosEq p l L → joinX f l = some res → PosEq p res (L.flatMap g) := by
  intro l
  induction l with
  | nil =>
    intro L res hL hj
    have : L = [] := PosEq.nil_iff.mp hL
    subst this
    simp [joinX] at hj; subst hj
    simp [PosEq]
  | cons o os ih =>
    intro L res hL hj
    cases L with
    | nil => simp [PosEq] at hL
    | cons m ms =>
      simp only [PosEq, List.map_cons, List.cons.injEq] at hL
      simp only [joinX] at hj
      split at hj
      · rename_i x y hx hy
        injection hj with hj; subst hj
        have h1 := hfg o x hx m hL.1
        have h2 := ih ms y hL.2 hy
        simp only [PosEq, List.flatMap_cons, List.map_append] at h1 h2 ⊢
        rw [h1, h2]
      · simp at hj

theorem posEq_filter (p off : Nat) (st : St) (hst : st.pos = p + off) :
    ∀ (l : List Nat) (L : List St), PosEq p l L →
      PosEq p (l.filter (fun o => off < o)) (L.filter (fun st' => st.pos < st'.pos)) := by
  intro l
  induction l with
  | nil => intro L h; have : L = [] := PosEq.nil_iff.mp h; subst this; simp [PosEq]
  | cons o os ih =>
    intro L h
    cases L with
    | nil => simp [PosEq] at h
    | cons m ms =>
      simp only [PosEq, List.map_cons, List.cons.injEq] at h
      have := ih ms h.2
      simp only [List.filter_cons]
      have hiff : (st.pos < m.pos) ↔ (off < o) := by rw [hst, h.1]; omega
      by_cases hlt : off < o
      · simp only [hlt, hiff.mpr hlt, decide_true, if_true]
        simp only [PosEq, List.map_cons, h.1] at this ⊢
        rw [this]
      · have : ¬ st.pos < m.pos := fun h' => hlt (hiff.mp h')
        simp only [hlt, this, decide_false, Bool.false_eq_true, if_false]
        exact ih ms h.2

theorem arepX_sound (p : Nat) (step : Nat → Option (List Nat)) (rstep : St → List St) (g : Bool)
    (hstep : ∀ off l, step off = some l → ∀ st, st.pos = p + off → PosEq p l (rstep st)) :
    ∀ (fa fr lo : Nat) (hi : Option Nat) (off : Nat) (res : List Nat), fa ≤ fr → arepX step g fa lo hi off = some res →
      ∀ st, st.pos = p + off → PosEq p res (repAux rstep g fr lo hi st) := by
  intro fa
  induction fa with
  | zero => intro fr lo hi off res _ h; simp [arepX] at h
  | succ fa ih =>
    intro fr lo hi off res hle h st hst
    cases fr with
    | zero => omega
    | succ fr =>
      have hstop : PosEq p (if lo = 0 then [off] else []) (if lo = 0 then [st] else []) := by
        split <;> simp [PosEq, hst]
      simp only [arepX] at h
      rw [repAux]
      split at h
      · rename_i hhi
        injection h with h; subst h
        simp only [hhi, if_true]
        exact hstop
      · rename_i hhi
        simp only [hhi, if_false]
        split at h
        · simp at h
        · rename_i l hl
          have h1 := hstep off l hl st hst
          have h2 := posEq_filter p off st hst l (rstep st) h1
          split at h
          · simp at h
          · rename_i more hmore
            injection h with h; subst h
            have h3 := posEq_flatMap p (arepX step g fa (lo - 1) (hi.map (· - 1)))
              (fun st' => repAux rstep g fr (lo - 1) (hi.map (· - 1)) st')
              (fun o lo' ho st' hst' => ih fr (lo - 1) (hi.map (· - 1)) o lo' (by omega) ho st' hst') _ _ more h2 hmore
            cases g with
            | true =>
              simp only [if_true, PosEq, List.map_append] at h3 hstop ⊢
              rw [h3, hstop]
            | false =>
              simp only [Bool.false_eq_true, if_false, PosEq, List.map_append] at h3 hstop ⊢
              rw [h3, hstop]

theorem aexact_sound (K : WCtx) (E : Env) (p : Nat) (c : Cp) (H : WSound K E p c) :
    ∀ (r : Re) (off : Nat) (l : List Nat), aexact K r off = some l →
      ∀ st, st.pos = p + off → PosEq p l (derivs E r st) := by
  have hsize : p + K.w.size + 1 ≤ E.s.size := by
    have := H.get_eq
    have := (Array.getElem?_eq_some_iff.mp this).1
    omega
  intro r
  induction r with
  | eps =>
    intro off l h st hst
    simp only [aexact, Option.some.injEq] at h; subst h
    simp [PosEq, derivs, hst]
  | set S =>
    intro off l h st hst
    obtain ⟨pos, caps⟩ := st
    simp only at hst; subst hst
    simp only [aexact, aSet] at h
    split at h
    · rename_i hlt
      have hg := H.get_lt off hlt
      split at h
      · rename_i hmem
        injection h with h; subst h
        simp [PosEq, derivs, hg, hmem, Nat.add_assoc]
      · rename_i hmem
        injection h with h; subst h
        simp [PosEq, derivs, hg, hmem]
    · split at h
      · rename_i hoff
        split at h
        · rename_i hn
          injection h with h; subst h
          have hg := H.get_eq
          rw [← hoff] at hg
          have := H.cNotIn_sound S hn
          simp [PosEq, derivs, hg, this]
        · simp at h
      · simp at h
  | cat a b iha ihb =>
    intro off l h st hst
    simp only [aexact, aCatX] at h
    split at h
    · simp at h
    · rename_i la hla
      have h1 := iha off la hla st hst
      simp only [derivs]
      exact posEq_flatMap p (aexact K b) (derivs E b) (fun o lo ho st' hst' => ihb o lo ho st' hst') la _ l h1 h
  | alt a b iha ihb =>
    intro off l h st hst
    simp only [aexact, aAlt] at h
    split at h
    · rename_i x y hx hy
      injection h with h; subst h
      have h1 := iha off x hx st hst
      have h2 := ihb off y hy st hst
      simp only [PosEq, derivs, List.map_append] at h1 h2 ⊢
      rw [h1, h2]
    · simp at h
  | grp n r ih =>
    intro off l h st hst
    simp only [aexact] at h
    have := ih off l h st hst
    simp only [PosEq, derivs, List.map_map] at this ⊢
    exact this
  | bref n => intro off l h; simp [aexact] at h
  | rep lo hi g r ih =>
    intro off l h st hst
    simp only [aexact] at h
    simp only [derivs]
    refine arepX_sound p (aexact K r) (derivs E r) g (fun o l' h' st1 hst1 => ih o l' h' st1 hst1) _ _ lo hi off l ?_ h st hst
    omega
  | look ahead neg w r ih => intro off l h; simp [aexact] at h
  | atEnd => intro off l h; simp [aexact] at h
  | wordB =>
    intro off l h st hst
    obtain ⟨pos, caps⟩ := st
    simp only at hst; subst hst
    simp only [aexact, aWordBX] at h
    split at h
    · rename_i hr
      have g1 := H.get_lt (off - 1) (by omega)
      have g2 := H.get_lt off hr.2
      have e1 : p + off - 1 = p + (off - 1) := by omega
      rw [← e1] at g1
      have hpos : p + off > 0 := by omega
      split at h
      · rename_i heq
        injection h with h; subst h
        simp only [beq_iff_eq] at heq
        simp [PosEq, derivs, isWordAt, g1, g2, H.word, hpos, heq]
      · rename_i hne
        injection h with h; subst h
        have hne' : K.word.mem (K.at (off - 1)) ≠ K.word.mem (K.at off) := by simpa using hne
        simp [PosEq, derivs, isWordAt, g1, g2, H.word, hpos, hne']
    · split at h
      · rename_i hr
        have g1 := H.get_lt (off - 1) (by omega)
        have g2 := H.get_eq
        have e1 : p + off - 1 = p + (off - 1) := by omega
        rw [← e1] at g1
        rw [← hr.2] at g2
        have hpos : p + off > 0 := by omega
        split at h
        · rename_i hcn
          have hc := H.cNotIn_sound K.word hcn
          split at h
          · rename_i hm
            injection h with h; subst h
            simp [PosEq, derivs, isWordAt, g1, g2, H.word, hpos, hc, hm]
          · rename_i hm
            injection h with h; subst h
            simp [PosEq, derivs, isWordAt, g1, g2, H.word, hpos, hc, hm]
        · simp at h
      · simp at h

/-- the first derivation ends at the first computed offset -/
theorem aexact_head (K : WCtx) (E : Env) (p : Nat) (c : Cp) (H : WSound K E p c) (r : Re) (e : Nat) (l : List Nat)
    (h : aexact K r 0 = some (e :: l)) :
    ∃ st more, derivs E r ⟨p, []⟩ = st :: more ∧ st.pos = p + e := by
  have := aexact_sound K E p c H r 0 (e :: l) h ⟨p, []⟩ rfl
  cases hd : derivs E r ⟨p, []⟩ with
  | nil => rw [hd] at this; simp [PosEq] at this
  | cons st more =>
    rw [hd] at this
    simp only [PosEq, List.map_cons, List.cons.injEq] at this
    exact ⟨st, more, rfl, this.1⟩

end Sql
