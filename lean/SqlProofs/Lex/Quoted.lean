import SqlProofs.Lex.Basic
import SqlProofs.Lex.Classes
/-!
# SqlProofs.Lex.Quoted — the two quoted shapes `q(qq|\q|[^q])*q` and `q(qq|[^q])*q`:
on `q body q rest` with a well-formed body and `rest` not starting with `q`, the first derivation ends after the closing quote.
-/
namespace Sql

theorem derivs_cat (E : Env) (a b : Re) (st : St) : derivs E (.cat a b) st = (derivs E a st).flatMap (derivs E b) := rfl
theorem derivs_alt (E : Env) (a b : Re) (st : St) : derivs E (.alt a b) st = derivs E a st ++ derivs E b st := rfl
theorem derivs_grp (E : Env) (n : Nat) (r : Re) (st : St) :
    derivs E (.grp n r) st = (derivs E r st).map fun st' => { st' with caps := (n, st.pos, st'.pos) :: st'.caps } := rfl
theorem derivs_rep (E : Env) (lo : Nat) (hi : Option Nat) (g : Bool) (r : Re) (st : St) :
    derivs E (.rep lo hi g r) st = repAux (derivs E r) g (E.s.size - st.pos + 1) lo hi st := rfl

theorem derivs_cat_set_fail (E : Env) (S : CpSet) (b : Re) (st : St) (c : Cp) (t : List Cp)
    (h : E.s.toList.drop st.pos = c :: t) (hm : S.mem c = false) : derivs E (.cat (.set S) b) st = [] := by
  rw [derivs_cat, derivs_set_cons E S st c t h]; simp [hm]

theorem derivs_cat_set_ok (E : Env) (S : CpSet) (b : Re) (st : St) (c : Cp) (t : List Cp)
    (h : E.s.toList.drop st.pos = c :: t) (hm : S.mem c = true) :
    derivs E (.cat (.set S) b) st = derivs E b { st with pos := st.pos + 1 } := by
  rw [derivs_cat, derivs_set_cons E S st c t h]; simp [hm]

/-- `'(''|\\'|[^'])*'` with the quote, backslash and non-quote classes as parameters -/
def strRe (g : Nat) (q bs nq : CpSet) : Re :=
  .cat (.set q) (.cat (.rep 0 none true (.grp g (.alt (.cat (.set q) (.set q)) (.alt (.cat (.set bs) (.set q)) (.set nq))))) (.set q))

/-- ``(``|[^`])*`` with the quote and non-quote classes as parameters -/
def nameRe (g : Nat) (q nq : CpSet) : Re :=
  .cat (.set q) (.cat (.rep 0 none true (.grp g (.alt (.cat (.set q) (.set q)) (.set nq)))) (.set q))

/-- what the classes of a quoted shape contain -/
structure QuoteSets (qc : Cp) (q nq : CpSet) : Prop where
  hq : ∀ c, q.mem c = true ↔ c = qc
  hnq : ∀ c, nq.mem c = true ↔ (c ≠ qc ∧ c ≤ 1114111)

theorem quoteSets (a : Nat) (ha : 1 ≤ a ∧ a ≤ 1114111) : QuoteSets a (cs a) (csNot a) := ⟨cs_mem a, csNot_mem a ha⟩

theorem size_of_drop (E : Env) (p : Nat) (l : List Cp) (h : E.s.toList.drop p = l) : l.length = E.s.size - p := by
  rw [← h]; simp

/-- common tail of both shapes: `q (rep step) q` once the three facts about `step` are known -/
theorem quoted_head (E : Env) (step : Re) (qc : Cp) (q : CpSet) (noBs : Bool) (hq : ∀ c, q.mem c = true ↔ c = qc)
    (body rest : List Cp)
    (hdbl : ∀ st t, E.s.toList.drop st.pos = qc :: qc :: t → ∃ st', derivs E step st = [st'] ∧ st'.pos = st.pos + 2)
    (hchr : ∀ st c t, E.s.toList.drop st.pos = c :: t → c ≠ qc → (noBs = true → c ≠ 92) → c ≤ 1114111 →
      ∃ st', derivs E step st = [st'] ∧ st'.pos = st.pos + 1)
    (hend : ∀ st, E.s.toList.drop st.pos = qc :: rest → derivs E step st = [])
    (p : Nat) (hsfx : E.s.toList.drop p = qc :: (body ++ qc :: rest)) (hb : QBody qc noBs body) :
    ∃ st more, derivs E (.cat (.set q) (.cat (.rep 0 none true step) (.set q))) ⟨p, []⟩ = st :: more ∧
      st.pos = p + 1 + body.length + 1 := by
  have hqq : q.mem qc = true := (hq qc).2 rfl
  have h1 : E.s.toList.drop (p + 1) = body ++ qc :: rest := drop_succ_of_cons _ _ _ _ hsfx
  have hlen := size_of_drop E (p + 1) _ h1
  obtain ⟨st', more, hrep, hpos⟩ := greedy_units_head E (derivs E step) qc noBs (qc :: rest) hdbl hchr hend body hb
    ⟨p + 1, []⟩ (E.s.size - (p + 1) + 1) h1 (by simp at hlen; omega)
  have h2 : E.s.toList.drop st'.pos = qc :: rest := by
    rw [hpos]; exact drop_add_of_append _ _ body _ h1
  rw [derivs_cat, derivs_set_cons E q ⟨p, []⟩ qc _ hsfx]
  simp only [hqq, if_true, List.flatMap_cons, List.flatMap_nil, List.append_nil]
  rw [derivs_cat, derivs_rep, hrep, List.flatMap_cons, derivs_set_cons E q st' qc _ h2]
  simp only [hqq, if_true, List.cons_append, List.nil_append]
  exact ⟨_, _, rfl, by simp [hpos]⟩

theorem strRe_head (E : Env) (g : Nat) (qc : Cp) (q bs nq : CpSet) (hs : QuoteSets qc q nq)
    (hbs : ∀ c, bs.mem c = true ↔ c = 92) (hq92 : qc ≠ 92)
    (p : Nat) (body rest : List Cp) (hsfx : E.s.toList.drop p = qc :: (body ++ qc :: rest))
    (hb : QBody qc true body) (hr : rest.head? ≠ some qc) :
    ∃ st more, derivs E (strRe g q bs nq) ⟨p, []⟩ = st :: more ∧ st.pos = p + 1 + body.length + 1 := by
  have hqq : q.mem qc = true := (hs.hq qc).2 rfl
  have hbq : bs.mem qc = false := by
    cases h : bs.mem qc with
    | false => rfl
    | true => exact absurd ((hbs qc).1 h) hq92
  have hnqq : nq.mem qc = false := by
    cases h : nq.mem qc with
    | false => rfl
    | true => exact absurd rfl ((hs.hnq qc).1 h).1
  refine quoted_head E _ qc q true hs.hq body rest ?_ ?_ ?_ p hsfx hb
  · intro st t h
    have h' : E.s.toList.drop (st.pos + 1) = qc :: t := drop_succ_of_cons _ _ _ _ h
    simp only [derivs_grp, derivs_alt, derivs_cat, derivs_set_cons E _ st qc _ h, hqq, hbq, hnqq, if_true,
      List.flatMap_cons, List.flatMap_nil, List.append_nil, derivs_set_cons E _ ⟨st.pos + 1, st.caps⟩ qc _ h',
      Bool.false_eq_true, if_false, List.map_cons, List.map_nil]
    exact ⟨_, rfl, rfl⟩
  · intro st c t h hcq hc92 hcle
    have hqc : q.mem c = false := by
      cases h : q.mem c with
      | false => rfl
      | true => exact absurd ((hs.hq c).1 h) hcq
    have hbc : bs.mem c = false := by
      cases h : bs.mem c with
      | false => rfl
      | true => exact absurd ((hbs c).1 h) (hc92 rfl)
    have hnc : nq.mem c = true := (hs.hnq c).2 ⟨hcq, hcle⟩
    simp only [derivs_grp, derivs_alt, derivs_cat, derivs_set_cons E _ st c _ h, hqc, hbc, hnc, if_true,
      List.flatMap_nil, List.nil_append,
      Bool.false_eq_true, if_false, List.map_cons, List.map_nil]
    exact ⟨_, rfl, rfl⟩
  · intro st h
    have h' : E.s.toList.drop (st.pos + 1) = rest := drop_succ_of_cons _ _ _ _ h
    have hsecond : derivs E (.set q) ⟨st.pos + 1, st.caps⟩ = [] := by
      cases rest with
      | nil => exact derivs_set_nil E _ _ h'
      | cons d t =>
        rw [derivs_set_cons E _ ⟨st.pos + 1, st.caps⟩ d t h']
        have : q.mem d = false := by
          cases hd : q.mem d with
          | false => rfl
          | true => exact absurd (by rw [(hs.hq d).1 hd]; rfl) hr
        simp [this]
    simp only [derivs_grp, derivs_alt, derivs_cat, derivs_set_cons E _ st qc _ h, hqq, hbq, hnqq, if_true,
      List.flatMap_cons, List.flatMap_nil, List.append_nil, hsecond,
      Bool.false_eq_true, if_false, List.map_nil]

theorem nameRe_head (E : Env) (g : Nat) (qc : Cp) (q nq : CpSet) (hs : QuoteSets qc q nq)
    (p : Nat) (body rest : List Cp) (hsfx : E.s.toList.drop p = qc :: (body ++ qc :: rest))
    (hb : QBody qc false body) (hr : rest.head? ≠ some qc) :
    ∃ st more, derivs E (nameRe g q nq) ⟨p, []⟩ = st :: more ∧ st.pos = p + 1 + body.length + 1 := by
  have hqq : q.mem qc = true := (hs.hq qc).2 rfl
  have hnqq : nq.mem qc = false := by
    cases h : nq.mem qc with
    | false => rfl
    | true => exact absurd rfl ((hs.hnq qc).1 h).1
  refine quoted_head E _ qc q false hs.hq body rest ?_ ?_ ?_ p hsfx hb
  · intro st t h
    have h' : E.s.toList.drop (st.pos + 1) = qc :: t := drop_succ_of_cons _ _ _ _ h
    simp only [derivs_grp, derivs_alt, derivs_cat, derivs_set_cons E _ st qc _ h, hqq, hnqq, if_true,
      List.flatMap_cons, List.flatMap_nil, List.append_nil, derivs_set_cons E _ ⟨st.pos + 1, st.caps⟩ qc _ h',
      Bool.false_eq_true, if_false, List.map_cons, List.map_nil]
    exact ⟨_, rfl, rfl⟩
  · intro st c t h hcq _ hcle
    have hqc : q.mem c = false := by
      cases h : q.mem c with
      | false => rfl
      | true => exact absurd ((hs.hq c).1 h) hcq
    have hnc : nq.mem c = true := (hs.hnq c).2 ⟨hcq, hcle⟩
    simp only [derivs_grp, derivs_alt, derivs_cat, derivs_set_cons E _ st c _ h, hqc, hnc, if_true,
      List.flatMap_nil, List.nil_append,
      Bool.false_eq_true, if_false, List.map_cons, List.map_nil]
    exact ⟨_, rfl, rfl⟩
  · intro st h
    have h' : E.s.toList.drop (st.pos + 1) = rest := drop_succ_of_cons _ _ _ _ h
    have hsecond : derivs E (.set q) ⟨st.pos + 1, st.caps⟩ = [] := by
      cases rest with
      | nil => exact derivs_set_nil E _ _ h'
      | cons d t =>
        rw [derivs_set_cons E _ ⟨st.pos + 1, st.caps⟩ d t h']
        have : q.mem d = false := by
          cases hd : q.mem d with
          | false => rfl
          | true => exact absurd (by rw [(hs.hq d).1 hd]; rfl) hr
        simp [this]
    simp only [derivs_grp, derivs_alt, derivs_cat, derivs_set_cons E _ st qc _ h, hqq, hnqq, if_true,
      List.flatMap_cons, List.flatMap_nil, List.append_nil, hsecond,
      Bool.false_eq_true, if_false, List.map_nil]

end Sql
