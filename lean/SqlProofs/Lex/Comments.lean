import SqlProofs.Lex.Quoted
/-!
# SqlProofs.Lex.Comments — closed forms for the comment shapes:
`[\s\S]*?` followed by a two-character closer, and `.*?` followed by `(\r\n|\r|\n|$)`.
-/
namespace Sql

theorem memF {S : CpSet} {c : Cp} {P : Prop} (h : S.mem c = true ↔ P) (hn : ¬ P) : S.mem c = false := by
  cases hm : S.mem c with
  | false => rfl
  | true => exact absurd (h.1 hm) hn

theorem drop_add_body {α : Type} (l : List α) (p i : Nat) (body tail : List α) (h : l.drop p = body ++ tail)
    (hi : i ≤ body.length) : l.drop (p + i) = body.drop i ++ tail := by
  have : l.drop (p + i) = (l.drop p).drop i := by rw [List.drop_drop]
  rw [this, h, List.drop_append_of_le_length hi]

/-! ## lazy star and a two-character closer -/

/-- `any*? a b` on `body a b rest`, where `a b` does not occur inside `body`: the first derivation ends right after the closer -/
theorem lazy_close2_head (E : Env) (any a b : CpSet) (ca cb : Cp)
    (ha : ∀ c, a.mem c = true ↔ c = ca) (hb : ∀ c, b.mem c = true ↔ c = cb)
    (hany : ∀ c, c ≤ 1114111 → any.mem c = true) (hab : ca ≠ cb)
    (body rest : List Cp) (st : St) (hsfx : E.s.toList.drop st.pos = body ++ ca :: cb :: rest)
    (hle : ∀ c ∈ body, c ≤ 1114111) (hno : ¬ [ca, cb] <:+: body) :
    ∃ more, derivs E (.cat (.rep 0 none false (.set any)) (.cat (.set a) (.set b))) st
      = ⟨st.pos + body.length + 2, st.caps⟩ :: more := by
  have hlen := size_of_drop E st.pos _ hsfx
  have hKfail : ∀ i, i < body.length → derivs E (.cat (.set a) (.set b)) ⟨st.pos + i, st.caps⟩ = [] := by
    intro i hi
    have hd := drop_add_body _ _ i _ _ hsfx (Nat.le_of_lt hi)
    cases hbd : body.drop i with
    | nil => simp at hbd; omega
    | cons c t =>
      rw [hbd] at hd
      rw [derivs_cat, derivs_set_cons E a ⟨st.pos + i, st.caps⟩ c _ hd]
      by_cases hc : c = ca
      · subst hc
        have hd1 : E.s.toList.drop (st.pos + i + 1) = t ++ c :: cb :: rest := drop_succ_of_cons _ _ _ _ hd
        simp only [(ha c).2 rfl, if_true, List.flatMap_cons, List.flatMap_nil, List.append_nil]
        cases t with
        | nil =>
          rw [derivs_set_cons E b ⟨st.pos + i + 1, st.caps⟩ c _ hd1]
          simp [memF (hb c) hab]
        | cons d t' =>
          rw [derivs_set_cons E b ⟨st.pos + i + 1, st.caps⟩ d _ hd1]
          have hdcb : d ≠ cb := by
            intro h; subst h
            apply hno
            refine ⟨body.take i, t', ?_⟩
            have := List.take_append_drop i body
            rw [hbd] at this
            simpa using this
          simp [memF (hb d) hdcb]
      · simp [memF (ha c) hc]
  have hKend : derivs E (.cat (.set a) (.set b)) ⟨st.pos + body.length, st.caps⟩
      = [⟨st.pos + body.length + 2, st.caps⟩] := by
    have hd : E.s.toList.drop (st.pos + body.length) = ca :: cb :: rest := drop_add_of_append _ _ _ _ hsfx
    have hd1 : E.s.toList.drop (st.pos + body.length + 1) = cb :: rest := drop_succ_of_cons _ _ _ _ hd
    rw [derivs_cat, derivs_set_cons E a ⟨st.pos + body.length, st.caps⟩ ca _ hd]
    simp only [(ha ca).2 rfl, if_true, List.flatMap_cons, List.flatMap_nil, List.append_nil]
    rw [derivs_set_cons E b ⟨st.pos + body.length + 1, st.caps⟩ cb _ hd1]
    simp [(hb cb).2 rfl]
  obtain ⟨more, hmore⟩ := lazy_star_flat E any (.cat (.set a) (.set b)) (ca :: cb :: rest) body st
    (E.s.size - st.pos + 1) hsfx (fun c hc => hany c (hle c hc)) hKfail (by simp at hlen; omega)
  rw [derivs_cat, derivs_rep, hmore, hKend]
  exact ⟨_, rfl⟩

/-! ## lazy star and an end of line -/

/-- how a line comment ends: `\r\n`, `\r` (not followed by `\n`), `\n`, or the end of the text -/
def EolCtx (close rest : List Cp) : Prop :=
  close = [13, 10] ∨ (close = [13] ∧ rest.head? ≠ some 10) ∨ close = [10] ∨ (close = [] ∧ rest = [])

/-- `(\r\n|\r|\n|$)` as a function of its three classes -/
def eolRe (g : Nat) (cr lf : CpSet) : Re :=
  .grp g (.alt (.cat (.set cr) (.set lf)) (.alt (.set cr) (.alt (.set lf) .atEnd)))

theorem eol_fail (E : Env) (g : Nat) (cr lf : CpSet) (hcr : ∀ c, cr.mem c = true ↔ c = 13) (hlf : ∀ c, lf.mem c = true ↔ c = 10)
    (st : St) (c : Cp) (t : List Cp) (h : E.s.toList.drop st.pos = c :: t) (h13 : c ≠ 13) (h10 : c ≠ 10) :
    derivs E (eolRe g cr lf) st = [] := by
  simp only [eolRe, derivs_grp, derivs_alt, derivs_cat, derivs_set_cons E _ st c t h, memF (hcr c) h13, memF (hlf c) h10,
    derivs_atEnd_cons E st c t h h10, Bool.false_eq_true, if_false, List.flatMap_nil, List.append_nil, List.map_nil]

theorem eol_match (E : Env) (g : Nat) (cr lf : CpSet) (hcr : ∀ c, cr.mem c = true ↔ c = 13) (hlf : ∀ c, lf.mem c = true ↔ c = 10)
    (st : St) (close rest : List Cp) (h : E.s.toList.drop st.pos = close ++ rest) (hctx : EolCtx close rest)
    (hsz : st.pos ≤ E.s.size) :
    ∃ st' more, derivs E (eolRe g cr lf) st = st' :: more ∧ st'.pos = st.pos + close.length := by
  have c13 : cr.mem 13 = true := (hcr 13).2 rfl
  have c10 : cr.mem 10 = false := memF (hcr 10) (by decide)
  have l10 : lf.mem 10 = true := (hlf 10).2 rfl
  have l13 : lf.mem 13 = false := memF (hlf 13) (by decide)
  rcases hctx with hc | ⟨hc, hr⟩ | hc | ⟨hc, hr⟩
  · subst hc
    have h' : E.s.toList.drop (st.pos + 1) = 10 :: rest := drop_succ_of_cons _ _ _ _ h
    simp only [eolRe, derivs_grp, derivs_alt, derivs_cat, derivs_set_cons E _ st 13 _ h, c13, if_true,
      List.flatMap_cons, List.flatMap_nil, List.append_nil, derivs_set_cons E _ ⟨st.pos + 1, st.caps⟩ 10 _ h', l10,
      List.cons_append, List.map_cons]
    exact ⟨_, _, rfl, rfl⟩
  · subst hc
    have h' : E.s.toList.drop (st.pos + 1) = rest := drop_succ_of_cons _ _ _ _ h
    have hsecond : derivs E (.set lf) ⟨st.pos + 1, st.caps⟩ = [] := by
      cases rest with
      | nil => exact derivs_set_nil E _ _ h'
      | cons d t =>
        rw [derivs_set_cons E _ ⟨st.pos + 1, st.caps⟩ d t h']
        have : lf.mem d = false := memF (hlf d) (by intro hd; subst hd; exact hr rfl)
        simp [this]
    simp only [eolRe, derivs_grp, derivs_alt, derivs_cat, derivs_set_cons E _ st 13 _ h, c13, if_true,
      List.flatMap_cons, List.flatMap_nil, List.append_nil, hsecond, List.nil_append,
      List.cons_append, List.map_cons]
    exact ⟨_, _, rfl, rfl⟩
  · subst hc
    simp only [eolRe, derivs_grp, derivs_alt, derivs_cat, derivs_set_cons E _ st 10 _ h, c10, l10, if_true,
      Bool.false_eq_true, if_false, List.flatMap_nil, List.nil_append,
      List.cons_append, List.map_cons]
    exact ⟨_, _, rfl, rfl⟩
  · subst hc; subst hr
    have hnil : E.s.toList.drop st.pos = [] := by simpa using h
    have hlen := size_of_drop E st.pos _ hnil
    have hpos : st.pos = E.s.size := by simp at hlen; omega
    simp only [eolRe, derivs_grp, derivs_alt, derivs_cat, derivs_set_nil E _ st hnil, derivs_atEnd_size E st hpos,
      List.flatMap_nil, List.nil_append, List.map_cons, List.map_nil]
    exact ⟨_, _, rfl, rfl⟩

/-- `.*? (\r\n|\r|\n|$)` on `body close rest`, where `body` has no line break: the first derivation ends after `close` -/
theorem line_tail_head (E : Env) (g : Nat) (dot cr lf : CpSet)
    (hdot : ∀ c, dot.mem c = true ↔ (c ≠ 10 ∧ c ≤ 1114111))
    (hcr : ∀ c, cr.mem c = true ↔ c = 13) (hlf : ∀ c, lf.mem c = true ↔ c = 10)
    (body close rest : List Cp) (st : St) (hsfx : E.s.toList.drop st.pos = body ++ (close ++ rest))
    (hbody : ∀ c ∈ body, c ≠ 13 ∧ c ≠ 10 ∧ c ≤ 1114111) (hctx : EolCtx close rest) (hsz : st.pos ≤ E.s.size) :
    ∃ st' more, derivs E (.cat (.rep 0 none false (.set dot)) (eolRe g cr lf)) st = st' :: more ∧
      st'.pos = st.pos + body.length + close.length := by
  have hlen := size_of_drop E st.pos _ hsfx
  have hKfail : ∀ i, i < body.length → derivs E (eolRe g cr lf) ⟨st.pos + i, st.caps⟩ = [] := by
    intro i hi
    have hd := drop_add_body _ _ i _ _ hsfx (Nat.le_of_lt hi)
    cases hbd : body.drop i with
    | nil => simp at hbd; omega
    | cons c t =>
      rw [hbd] at hd
      have hcm : c ∈ body := List.mem_of_mem_drop (by rw [hbd]; simp)
      have := hbody c hcm
      exact eol_fail E g cr lf hcr hlf ⟨st.pos + i, st.caps⟩ c _ hd this.1 this.2.1
  have hd : E.s.toList.drop (st.pos + body.length) = close ++ rest := drop_add_of_append _ _ _ _ hsfx
  obtain ⟨st', more', hK, hpos⟩ := eol_match E g cr lf hcr hlf ⟨st.pos + body.length, st.caps⟩ close rest hd hctx
    (by simp at hlen ⊢; omega)
  obtain ⟨more, hmore⟩ := lazy_star_flat E dot (eolRe g cr lf) (close ++ rest) body st
    (E.s.size - st.pos + 1) hsfx (fun c hc => (hdot c).2 ⟨(hbody c hc).2.1, (hbody c hc).2.2⟩) hKfail
    (by simp at hlen; omega)
  rw [derivs_cat, derivs_rep, hmore, hK]
  exact ⟨st', _, rfl, hpos⟩

end Sql
