import SqlModel.Regex
/-!
# SqlProofs.Lex.Classes — the literal character classes the region templates are written with, and what they contain
-/
namespace Sql

/-! ## literal classes -/

/-- the class `{a}` -/
def cs (a : Nat) : CpSet := ⟨[(a, a)]⟩
/-- the class of all code points except `a` (for `1 ≤ a`) -/
def csNot (a : Nat) : CpSet := ⟨[(0, a - 1), (a + 1, 1114111)]⟩
/-- `[\s\S]` -/
def csAll : CpSet := ⟨[(0, 1114111)]⟩
/-- `.` without DOTALL -/
def csDot : CpSet := ⟨[(0, 9), (11, 1114111)]⟩

theorem mem_cons' (a b : Nat) (rs : List (Nat × Nat)) (c : Nat) :
    (CpSet.mk ((a, b) :: rs)).mem c = ((decide (a ≤ c) && decide (c ≤ b)) || (CpSet.mk rs).mem c) := by
  simp [CpSet.mem]
theorem mem_nil' (c : Nat) : (CpSet.mk []).mem c = false := by simp [CpSet.mem]

theorem cs_mem (a : Nat) : ∀ c : Nat, (cs a).mem c = true ↔ c = a := by
  intro c
  simp only [cs, mem_cons', mem_nil', Bool.or_false, Bool.and_eq_true, decide_eq_true_eq]
  constructor <;> intro h <;> omega

theorem csNot_mem (a : Nat) (ha : 1 ≤ a ∧ a ≤ 1114111) : ∀ c : Nat, (csNot a).mem c = true ↔ (c ≠ a ∧ c ≤ 1114111) := by
  intro c
  simp only [csNot, mem_cons', mem_nil', Bool.or_false, Bool.and_eq_true, Bool.or_eq_true, decide_eq_true_eq]
  constructor <;> intro h <;> omega

theorem csAll_mem : ∀ c : Nat, c ≤ 1114111 → csAll.mem c = true := by
  intro c h
  simp only [csAll, mem_cons', mem_nil', Bool.or_false, Bool.and_eq_true, decide_eq_true_eq]
  omega

theorem csDot_mem : ∀ c : Nat, csDot.mem c = true ↔ (c ≠ 10 ∧ c ≤ 1114111) := by
  intro c
  simp only [csDot, mem_cons', mem_nil', Bool.or_false, Bool.and_eq_true, Bool.or_eq_true, decide_eq_true_eq]
  constructor <;> intro h <;> omega

end Sql
