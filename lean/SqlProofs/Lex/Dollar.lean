import SqlProofs.Lex.Comments
/-!
# SqlProofs.Lex.Dollar — the dollar-quote shape `((?<![\w"$])\$(?:[_A-Z]\w*)?\$)[\s\S]*?\1`
-/
namespace Sql

/-- `((?<!lb)\$(?:first word*)?\$)` -/
def dollarOpenRe (lb first word : CpSet) : Re :=
  .grp 1 (.cat (.look false true 1 (.set lb)) (.cat (.set (cs 36))
    (.cat (.rep 0 (some 1) true (.cat (.set first) (.rep 0 none true (.set word)))) (.set (cs 36)))))

/-- the whole dollar-quote rule -/
def dollarRe (lb first word : CpSet) : Re :=
  .cat (dollarOpenRe lb first word) (.cat (.rep 0 none false (.set csAll)) (.bref 1))

/-! ## greedy star of one class -/

theorem greedy_class_head (E : Env) (S : CpSet) (tail : List Cp) (htail : ∀ c, tail.head? = some c → S.mem c = false) :
    ∀ (ts : List Cp) (st : St) (fuel : Nat), E.s.toList.drop st.pos = ts ++ tail → (∀ c ∈ ts, S.mem c = true) →
      ts.length ≤ fuel →
      ∃ more, repAux (derivs E (.set S)) true fuel 0 none st = ⟨st.pos + ts.length, st.caps⟩ :: more := by
  intro ts
  induction ts with
  | nil =>
    intro st fuel hs _ _
    cases fuel with
    | zero => exact ⟨[], by simp [repAux_zero0]⟩
    | succ fuel =>
      have hstep : derivs E (.set S) st = [] := by
        cases htl : tail with
        | nil => exact derivs_set_nil E S st (by simpa [htl] using hs)
        | cons d t =>
          rw [derivs_set_cons E S st d t (by simpa [htl] using hs)]
          simp [htail d (by simp [htl])]
      rw [repAux_greedy0, hstep]
      exact ⟨[], by simp⟩
  | cons c ts ih =>
    intro st fuel hs hS hf
    cases fuel with
    | zero => simp at hf
    | succ fuel =>
      have hset : derivs E (.set S) st = [{ st with pos := st.pos + 1 }] := by
        rw [derivs_set_cons E S st c (ts ++ tail) (by simpa using hs)]; simp [hS c (by simp)]
      have hs1 : E.s.toList.drop (st.pos + 1) = ts ++ tail := drop_succ_of_cons _ _ c _ (by simpa using hs)
      obtain ⟨more, hmore⟩ := ih { st with pos := st.pos + 1 } fuel hs1 (fun x hx => hS x (by simp [hx]))
        (by simp at hf; omega)
      have hfil : List.filter (fun st' : St => decide (st.pos < st'.pos)) [{ st with pos := st.pos + 1 }]
          = [{ st with pos := st.pos + 1 }] := by simp
      rw [repAux_greedy0, hset, hfil]
      simp only [List.flatMap_cons, List.flatMap_nil, List.append_nil, hmore, List.cons_append]
      refine ⟨more ++ [st], ?_⟩
      simp [Nat.add_assoc, Nat.add_comm 1]

/-! ## optional group -/

theorem repAux_hi0 (step : St → List St) (g : Bool) (fuel : Nat) (st : St) :
    repAux step g fuel 0 (some 0) st = [st] := by
  cases fuel <;> simp [repAux]

theorem repAux_opt (step : St → List St) (fuel : Nat) (st : St) :
    repAux step true (fuel + 1) 0 (some 1) st = (step st).filter (fun st' => st.pos < st'.pos) ++ [st] := by
  rw [repAux]
  simp [repAux_hi0]

/-! ## the opening delimiter -/

/-- an optional tag: empty, or a first character of class `first` followed by characters of class `word` -/
def TagOK (first word : CpSet) (tag : List Cp) : Prop :=
  tag = [] ∨ ∃ t0 ts, tag = t0 :: ts ∧ first.mem t0 = true ∧ ∀ c ∈ ts, word.mem c = true

theorem look_behind_ok (E : Env) (lb : CpSet) (st : St)
    (h : st.pos = 0 ∨ ∃ c, E.s[st.pos - 1]? = some c ∧ lb.mem c = false) :
    derivs E (.look false true 1 (.set lb)) st = [st] := by
  by_cases hp : st.pos < 1
  · simp [derivs, hp]
  · rcases h with h | ⟨c, hc, hm⟩
    · omega
    · simp [derivs, hp, hc, hm]

theorem dollar_open_head (E : Env) (lb first word : CpSet) (hf36 : first.mem 36 = false) (hw36 : word.mem 36 = false)
    (p : Nat) (tag tail : List Cp) (h0 : E.s.toList.drop p = 36 :: (tag ++ 36 :: tail))
    (hlb : p = 0 ∨ ∃ c, E.s[p - 1]? = some c ∧ lb.mem c = false) (htag : TagOK first word tag) :
    ∃ more, derivs E (dollarOpenRe lb first word) ⟨p, []⟩
      = ⟨p + 1 + tag.length + 1, [(1, p, p + 1 + tag.length + 1)]⟩ :: more := by
  have c36 : (cs 36).mem 36 = true := (cs_mem 36 36).2 rfl
  have h1 : E.s.toList.drop (p + 1) = tag ++ 36 :: tail := drop_succ_of_cons _ _ _ _ h0
  have hlen := size_of_drop E (p + 1) _ h1
  -- the optional tag followed by `$`, from p + 1
  have hZ : ∃ more, derivs E (.cat (.rep 0 (some 1) true (.cat (.set first) (.rep 0 none true (.set word)))) (.set (cs 36)))
      ⟨p + 1, []⟩ = ⟨p + 1 + tag.length + 1, []⟩ :: more := by
    rw [derivs_cat, derivs_rep, repAux_opt]
    rcases htag with rfl | ⟨t0, ts, rfl, ht0, hts⟩
    · have h1' : E.s.toList.drop (p + 1) = 36 :: tail := by simpa using h1
      rw [derivs_cat_set_fail E first _ ⟨p + 1, []⟩ 36 tail h1' hf36]
      simp only [List.filter_nil, List.nil_append, List.flatMap_cons, List.flatMap_nil, List.append_nil,
        derivs_set_cons E _ ⟨p + 1, []⟩ 36 tail h1', c36, if_true]
      exact ⟨[], rfl⟩
    · have h1' : E.s.toList.drop (p + 1) = t0 :: (ts ++ 36 :: tail) := by simpa using h1
      have h2 : E.s.toList.drop (p + 1 + 1) = ts ++ 36 :: tail := drop_succ_of_cons _ _ _ _ h1'
      obtain ⟨more, hm⟩ := greedy_class_head E word (36 :: tail) (by intro c hc; simp at hc; subst hc; exact hw36) ts
        ⟨p + 1 + 1, []⟩ (E.s.size - (p + 1 + 1) + 1) h2 hts (by simp at hlen; omega)
      have h3 : E.s.toList.drop (p + 1 + 1 + ts.length) = 36 :: tail := drop_add_of_append _ _ ts _ h2
      rw [derivs_cat, derivs_set_cons E first ⟨p + 1, []⟩ t0 _ h1']
      simp only [ht0, if_true, List.flatMap_cons, List.flatMap_nil, List.append_nil, derivs_rep, hm]
      have hfil : ∀ l : List St, List.filter (fun st' : St => decide (p + 1 < st'.pos)) (⟨p + 1 + 1 + ts.length, []⟩ :: l)
          = ⟨p + 1 + 1 + ts.length, []⟩ :: List.filter (fun st' : St => decide (p + 1 < st'.pos)) l := by
        intro l; rw [List.filter_cons_of_pos]; simp; omega
      simp only [hfil, List.cons_append, List.flatMap_cons, derivs_set_cons E _ ⟨p + 1 + 1 + ts.length, []⟩ 36 tail h3, c36,
        if_true]
      have hpos : p + 1 + (t0 :: ts).length + 1 = p + 1 + 1 + ts.length + 1 := by simp; omega
      rw [hpos]
      exact ⟨_, rfl⟩
  obtain ⟨more, hm⟩ := hZ
  refine ⟨more.map (fun st' => { st' with caps := (1, p, st'.pos) :: st'.caps }), ?_⟩
  rw [dollarOpenRe, derivs_grp, derivs_cat, look_behind_ok E lb ⟨p, []⟩ hlb]
  simp only [List.flatMap_cons, List.flatMap_nil, List.append_nil]
  rw [derivs_cat, derivs_set_cons E _ ⟨p, []⟩ 36 _ h0]
  simp only [c36, if_true, List.flatMap_cons, List.flatMap_nil, List.append_nil, hm, List.map_cons]

/-! ## the back-reference -/

/-- `\1` at `j`, group 1 being `[a, a + op.length)` which reads `op`: a derivation exists only if the text at `j` equals `op` up to case -/
theorem bref_fail (E : Env) (a j : Nat) (op tl rest' : List Cp) (caps : List (Nat × Nat × Nat))
    (hcap : capOf caps 1 = some (a, a + op.length))
    (ha : E.s.toList.drop a = op ++ tl) (hj : E.s.toList.drop j = rest')
    (hne : (rest'.take op.length).map E.lower ≠ op.map E.lower) :
    derivs E (.bref 1) ⟨j, caps⟩ = [] := by
  simp only [derivs, hcap, Nat.add_sub_cancel_left]
  split
  · rename_i hcond
    exfalso
    apply hne
    simp only [Bool.and_eq_true, decide_eq_true_eq] at hcond
    obtain ⟨hsz, hsf⟩ := hcond
    simp only [sameFold, List.all_eq_true, List.mem_range] at hsf
    apply List.ext_getElem?
    intro k
    by_cases hk : k < op.length
    · have := hsf k hk
      have e1 : E.s[a + k]? = op[k]? := by
        rw [getElem?_of_drop E a k _ ha, List.getElem?_append_left hk]
      have e2 : E.s[j + k]? = rest'[k]? := getElem?_of_drop E j k _ hj
      rw [e1, e2] at this
      simp only [List.getElem?_map, List.getElem?_take, hk, if_true]
      cases h1 : op[k]? with
      | none => simp [h1] at this
      | some x =>
        cases h2 : rest'[k]? with
        | none => simp [h1, h2] at this
        | some y =>
          simp only [h1, h2, beq_iff_eq] at this
          simp [this]
    · have h1 : op[k]? = none := by simp; omega
      simp [List.getElem?_take, hk]
  · rfl

theorem bref_match (E : Env) (a j : Nat) (op tl rest' : List Cp) (caps : List (Nat × Nat × Nat))
    (hcap : capOf caps 1 = some (a, a + op.length)) (hop : 0 < op.length)
    (ha : E.s.toList.drop a = op ++ tl) (hj : E.s.toList.drop j = op ++ rest') :
    derivs E (.bref 1) ⟨j, caps⟩ = [⟨j + op.length, caps⟩] := by
  have hlen := size_of_drop E j _ hj
  have hsz : j + op.length ≤ E.s.size := by simp at hlen; omega
  have hsf : sameFold E a j op.length = true := by
    simp only [sameFold, List.all_eq_true, List.mem_range]
    intro k hk
    have e1 : E.s[a + k]? = op[k]? := by rw [getElem?_of_drop E a k _ ha, List.getElem?_append_left hk]
    have e2 : E.s[j + k]? = op[k]? := by rw [getElem?_of_drop E j k _ hj, List.getElem?_append_left hk]
    rw [e1, e2]
    have : op[k]? = some op[k] := List.getElem?_eq_getElem hk
    simp [this]
  simp [derivs, hcap, hsz, hsf]

/-- the whole rule on `op body op rest`, where `op = $tag$` does not occur (up to case) starting inside the body -/
theorem dollar_head (E : Env) (lb first word : CpSet) (hf36 : first.mem 36 = false) (hw36 : word.mem 36 = false)
    (p : Nat) (tag body rest : List Cp)
    (h0 : E.s.toList.drop p = (36 :: (tag ++ [36])) ++ (body ++ ((36 :: (tag ++ [36])) ++ rest)))
    (hlb : p = 0 ∨ ∃ c, E.s[p - 1]? = some c ∧ lb.mem c = false) (htag : TagOK first word tag)
    (hle : ∀ c ∈ body, c ≤ 1114111)
    (hbody : ∀ i, i < body.length →
      (((body ++ ((36 :: (tag ++ [36])) ++ rest)).drop i).take (tag.length + 2)).map E.lower
        ≠ (36 :: (tag ++ [36])).map E.lower) :
    ∃ st more, derivs E (dollarRe lb first word) ⟨p, []⟩ = st :: more ∧
      st.pos = p + (tag.length + 2) + body.length + (tag.length + 2) := by
  have hoplen : (36 :: (tag ++ [36])).length = tag.length + 2 := by simp
  obtain ⟨more1, hopen⟩ := dollar_open_head E lb first word hf36 hw36 p tag (body ++ ((36 :: (tag ++ [36])) ++ rest))
    (by simpa using h0) hlb htag
  have hq : p + 1 + tag.length + 1 = p + (tag.length + 2) := by omega
  rw [hq] at hopen
  have h1 : E.s.toList.drop (p + (tag.length + 2)) = body ++ ((36 :: (tag ++ [36])) ++ rest) := by
    have := drop_add_of_append _ _ _ _ h0
    rwa [hoplen] at this
  have hlen := size_of_drop E _ _ h1
  have hcap : capOf [(1, p, p + (tag.length + 2))] 1 = some (p, p + (36 :: (tag ++ [36])).length) := by
    rw [hoplen]; rfl
  have hKfail : ∀ i, i < body.length →
      derivs E (.bref 1) ⟨p + (tag.length + 2) + i, [(1, p, p + (tag.length + 2))]⟩ = [] := by
    intro i hi
    have hd := drop_add_body _ _ i _ _ h1 (Nat.le_of_lt hi)
    refine bref_fail E p _ (36 :: (tag ++ [36])) _ _ _ hcap h0 hd ?_
    rw [hoplen, ← List.drop_append_of_le_length (Nat.le_of_lt hi)]
    exact hbody i hi
  have hKend : derivs E (.bref 1) ⟨p + (tag.length + 2) + body.length, [(1, p, p + (tag.length + 2))]⟩
      = [⟨p + (tag.length + 2) + body.length + (36 :: (tag ++ [36])).length, [(1, p, p + (tag.length + 2))]⟩] :=
    bref_match E p _ (36 :: (tag ++ [36])) _ rest _ hcap (by simp) h0 (drop_add_of_append _ _ _ _ h1)
  obtain ⟨more2, hlazy⟩ := lazy_star_flat E csAll (.bref 1) ((36 :: (tag ++ [36])) ++ rest) body
    ⟨p + (tag.length + 2), [(1, p, p + (tag.length + 2))]⟩ (E.s.size - (p + (tag.length + 2)) + 1) h1
    (fun c hc => csAll_mem c (hle c hc)) hKfail (by simp at hlen; omega)
  rw [dollarRe, derivs_cat, hopen, List.flatMap_cons, derivs_cat, derivs_rep, hlazy, hKend]
  exact ⟨_, _, rfl, by simp⟩

end Sql
