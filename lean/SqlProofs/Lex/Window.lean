import SqlProofs.Lex.Quoted
/-!
# SqlProofs.Lex.Window — which end positions can an expression reach on a known window of text?

`aover K r off` over-approximates, from the shape of `r` alone, the offsets (relative to a position `p`) at which a derivation of `r`
started at offset `off` can end, when the text at `p` reads `K.w` followed by one character that lies outside the classes `K.excl`
(anything may follow), and the character before `p`, if any, lies outside the classes `K.prevExcl`.  `none` = cannot tell.
`some []` therefore means: `r` has no derivation there, whatever the rest of the text is (`aover_sound`).
-/
namespace Sql

/-- is every range of the first (sorted) list inside a range of the second (sorted) list? — sufficient test for ⊆ -/
def subsetMerge : Nat → List (Nat × Nat) → List (Nat × Nat) → Bool
  | 0, _, _ => false
  | _+1, [], _ => true
  | _+1, _ :: _, [] => false
  | fuel+1, (a, b) :: rs, (x, y) :: es =>
    if x ≤ a && b ≤ y then subsetMerge fuel rs ((x, y) :: es)
    else if y < a then subsetMerge fuel ((a, b) :: rs) es
    else false

def CpSet.subsetOf (S X : CpSet) : Bool := subsetMerge (S.ranges.length + X.ranges.length + 1) S.ranges X.ranges

theorem subsetMerge_sound : ∀ (fuel : Nat) (rs es : List (Nat × Nat)), subsetMerge fuel rs es = true →
    ∀ c : Nat, (CpSet.mk rs).mem c = true → (CpSet.mk es).mem c = true := by
  intro fuel
  induction fuel with
  | zero => intro rs es h; simp [subsetMerge] at h
  | succ fuel ih =>
    intro rs es h c hc
    cases rs with
    | nil => simp [mem_nil'] at hc
    | cons r rs =>
      obtain ⟨a, b⟩ := r
      cases es with
      | nil => simp [subsetMerge] at h
      | cons e es =>
        obtain ⟨x, y⟩ := e
        simp only [subsetMerge] at h
        rw [mem_cons'] at hc
        split at h
        · rename_i hin
          simp only [Bool.and_eq_true, decide_eq_true_eq] at hin
          simp only [Bool.or_eq_true, Bool.and_eq_true, decide_eq_true_eq] at hc
          rcases hc with hc | hc
          · rw [mem_cons']
            simp only [Bool.or_eq_true, Bool.and_eq_true, decide_eq_true_eq]
            left; omega
          · exact ih rs ((x, y) :: es) h c hc
        · split at h
          · have := ih ((a, b) :: rs) es h c (by rw [mem_cons']; exact hc)
            rw [mem_cons', this]; simp
          · simp at h

theorem CpSet.subsetOf_sound (S X : CpSet) (h : S.subsetOf X = true) (c : Nat) (hX : X.mem c = false) : S.mem c = false := by
  cases hS : S.mem c with
  | false => rfl
  | true =>
    have := subsetMerge_sound _ S.ranges X.ranges h c hS
    have e : X.mem c = (CpSet.mk X.ranges).mem c := rfl
    rw [e, this] at hX; exact absurd hX (by simp)

structure WCtx where
  w : Array Cp
  excl : List CpSet
  prevExcl : List CpSet
  word : CpSet

def WCtx.cNotIn (K : WCtx) (S : CpSet) : Bool := K.excl.any (fun X => S.subsetOf X)
def WCtx.prevNotIn (K : WCtx) (S : CpSet) : Bool := K.prevExcl.any (fun X => S.subsetOf X)

def joinOpt (f : Nat → Option (List Nat)) (l : List Nat) (base : List Nat) : Option (List Nat) :=
  l.foldr (fun o acc => match f o, acc with
    | some x, some y => some (x ++ y)
    | _, _ => none) (some base)

def arep (step : Nat → Option (List Nat)) : Nat → Nat → Option Nat → Nat → Option (List Nat)
  | 0, _, _, _ => none
  | fuel+1, lo, hi, off =>
    if hi = some 0 then some (if lo = 0 then [off] else []) else
    match step off with
    | none => none
    | some l => joinOpt (arep step fuel (lo - 1) (hi.map (· - 1))) (l.filter (fun o => off < o)) (if lo = 0 then [off] else [])

/-! the per-constructor work is kept in small separate definitions so that unfolding the recursive `aover` stays cheap for the kernel -/

/-- the window character at `off` (0 outside the window; only used inside) -/
def WCtx.at (K : WCtx) (off : Nat) : Cp := K.w.getD off 0

def aSet (K : WCtx) (S : CpSet) (off : Nat) : Option (List Nat) :=
  if off < K.w.size then (if S.mem (K.at off) then some [off + 1] else some [])
  else if off = K.w.size then (if K.cNotIn S then some [] else none)
  else none

def aCat (x : Option (List Nat)) (f : Nat → Option (List Nat)) : Option (List Nat) :=
  match x with
  | none => none
  | some l => joinOpt f l []

def aAlt (x y : Option (List Nat)) : Option (List Nat) :=
  match x, y with
  | some x, some y => some (x ++ y)
  | _, _ => none

def aLook (K : WCtx) (ahead neg : Bool) (w : Nat) (r : Re) (off : Nat) (inner : Option (List Nat)) : Option (List Nat) :=
  if ahead && !neg then
    (match inner with
     | some [] => some []
     | _ => some [off])
  else if !ahead && !neg && w == 1 && off == 0 then
    (match r with
     | .set S => if K.prevNotIn S then some [] else some [off]
     | _ => some [off])
  else some [off]

def aWordB (K : WCtx) (off : Nat) : Option (List Nat) :=
  if 0 < off ∧ off < K.w.size then
    (if K.word.mem (K.at (off - 1)) == K.word.mem (K.at off) then some [] else some [off])
  else if 0 < off ∧ off = K.w.size then
    (if K.cNotIn K.word && !(K.word.mem (K.at (off - 1))) then some [] else some [off])
  else some [off]

def aover (K : WCtx) : Re → Nat → Option (List Nat)
  | .eps, off => some [off]
  | .set S, off => aSet K S off
  | .cat a b, off => aCat (aover K a off) (aover K b)
  | .alt a b, off => aAlt (aover K a off) (aover K b off)
  | .grp _ r, off => aover K r off
  | .bref _, _ => none
  | .rep lo hi _ r, off => arep (aover K r) (K.w.size + 2) lo hi off
  | .look ahead neg w r, off => aLook K ahead neg w r off (aover K r off)
  | .atEnd, off => some [off]
  | .wordB, off => aWordB K off

/-- the context the analysis talks about -/
structure WSound (K : WCtx) (E : Env) (p : Nat) (c : Cp) : Prop where
  text : ∃ rest, E.s.toList.drop p = K.w.toList ++ c :: rest
  cex : ∀ X ∈ K.excl, X.mem c = false
  prev : p = 0 ∨ ∃ d, E.s[p - 1]? = some d ∧ ∀ X ∈ K.prevExcl, X.mem d = false
  word : E.word = K.word

theorem WSound.get_lt {K : WCtx} {E : Env} {p : Nat} {c : Cp} (H : WSound K E p c) (off : Nat) (h : off < K.w.size) :
    E.s[p + off]? = some (K.at off) := by
  obtain ⟨rest, ht⟩ := H.text
  rw [getElem?_of_drop E p off _ ht, List.getElem?_append_left (by simpa using h)]
  simp [WCtx.at, Array.getD, h]

theorem WSound.get_eq {K : WCtx} {E : Env} {p : Nat} {c : Cp} (H : WSound K E p c) :
    E.s[p + K.w.size]? = some c := by
  obtain ⟨rest, ht⟩ := H.text
  rw [getElem?_of_drop E p _ _ ht, List.getElem?_append_right (by simp)]
  simp

theorem WSound.cNotIn_sound {K : WCtx} {E : Env} {p : Nat} {c : Cp} (H : WSound K E p c) (S : CpSet)
    (h : K.cNotIn S = true) : S.mem c = false := by
  simp only [WCtx.cNotIn, List.any_eq_true] at h
  obtain ⟨X, hX, hs⟩ := h
  exact CpSet.subsetOf_sound S X hs c (H.cex X hX)

/-! ## soundness -/

/-- `res` covers the end positions of `l` -/
def Covers (p : Nat) (res : List Nat) (l : List St) : Prop := ∀ st' ∈ l, ∃ o ∈ res, st'.pos = p + o

theorem joinOpt_spec (f : Nat → Option (List Nat)) : ∀ (l base res : List Nat), joinOpt f l base = some res →
    (∀ o ∈ l, ∃ lo, f o = some lo ∧ ∀ x ∈ lo, x ∈ res) ∧ (∀ x ∈ base, x ∈ res) := by
  intro l
  induction l with
  | nil => intro base res h; simp [joinOpt] at h; subst h; simp
  | cons a t ih =>
    intro base res h
    simp only [joinOpt, List.foldr_cons] at h
    split at h
    · rename_i x y hx hy
      injection h with h; subst h
      obtain ⟨i1, i2⟩ := ih base y hy
      refine ⟨?_, fun z hz => by simp [i2 z hz]⟩
      intro o ho
      simp only [List.mem_cons] at ho
      rcases ho with rfl | ho
      · exact ⟨x, hx, fun z hz => by simp [hz]⟩
      · obtain ⟨lo, h1, h2⟩ := i1 o ho
        exact ⟨lo, h1, fun z hz => by simp [h2 z hz]⟩
    · simp at h

theorem arep_sound (p : Nat) (step : Nat → Option (List Nat)) (rstep : St → List St) (g : Bool)
    (hstep : ∀ off l, step off = some l → ∀ st, st.pos = p + off → Covers p l (rstep st)) :
    ∀ (fa fr lo : Nat) (hi : Option Nat) (off : Nat) (res : List Nat), arep step fa lo hi off = some res →
      ∀ st, st.pos = p + off → Covers p res (repAux rstep g fr lo hi st) := by
  intro fa
  induction fa with
  | zero => intro fr lo hi off res h; simp [arep] at h
  | succ fa ih =>
    intro fr lo hi off res h st hst st' hm
    have stopCase : st' ∈ (if lo = 0 then [st] else []) → (∀ x ∈ (if lo = 0 then [off] else []), x ∈ res) →
        ∃ o ∈ res, st'.pos = p + o := by
      intro h1 h2
      split at h1
      · rename_i hlo
        simp only [List.mem_singleton] at h1
        subst h1
        exact ⟨off, h2 off (by simp [hlo]), hst⟩
      · simp at h1
    simp only [arep] at h
    split at h
    · rename_i hhi
      injection h with h
      cases fr with
      | zero =>
        simp only [repAux] at hm
        exact stopCase hm (by rw [← h]; exact fun x hx => hx)
      | succ fr =>
        rw [repAux] at hm
        simp only [hhi, if_true] at hm
        exact stopCase hm (by rw [← h]; exact fun x hx => hx)
    · rename_i hhi
      split at h
      · simp at h
      · rename_i l hl
        obtain ⟨j1, j2⟩ := joinOpt_spec _ _ _ _ h
        cases fr with
        | zero =>
          simp only [repAux] at hm
          exact stopCase hm j2
        | succ fr =>
          rw [repAux] at hm
          simp only [hhi, if_false] at hm
          have moreCase : st' ∈ ((rstep st).filter (fun st' => st.pos < st'.pos)).flatMap
              (fun st' => repAux rstep g fr (lo - 1) (hi.map (· - 1)) st') → ∃ o ∈ res, st'.pos = p + o := by
            intro hmm
            simp only [List.mem_flatMap, List.mem_filter, decide_eq_true_eq] at hmm
            obtain ⟨mid, ⟨hmid, hprog⟩, hrest⟩ := hmm
            obtain ⟨o, ho, hpo⟩ := hstep off l hl st hst mid hmid
            have hoff : off < o := by omega
            obtain ⟨lo', h1, h2⟩ := j1 o (by simp [ho, hoff])
            obtain ⟨o', ho', hpo'⟩ := ih fr (lo - 1) (hi.map (· - 1)) o lo' h1 mid hpo st' hrest
            exact ⟨o', h2 o' ho', hpo'⟩
          split at hm
          · rcases List.mem_append.mp hm with hm | hm
            · exact moreCase hm
            · exact stopCase hm j2
          · rcases List.mem_append.mp hm with hm | hm
            · exact stopCase hm j2
            · exact moreCase hm

theorem covers_self (p off : Nat) (st : St) (hst : st.pos = p + off) : Covers p [off] [st] := by
  intro st' hm
  simp only [List.mem_singleton] at hm
  subst hm
  exact ⟨off, by simp, hst⟩

theorem covers_sub_self (p off : Nat) (st : St) (hst : st.pos = p + off) (l : List St) (h : ∀ x ∈ l, x = st) :
    Covers p [off] l := by
  intro st' hm
  rw [h st' hm]
  exact ⟨off, by simp, hst⟩

theorem aover_sound (K : WCtx) (E : Env) (p : Nat) (c : Cp) (H : WSound K E p c) :
    ∀ (r : Re) (off : Nat) (l : List Nat), aover K r off = some l →
      ∀ st, st.pos = p + off → Covers p l (derivs E r st) := by
  intro r
  induction r with
  | eps =>
    intro off l h st hst
    simp only [aover, Option.some.injEq] at h; subst h
    simpa [derivs] using covers_self p off st hst
  | set S =>
    intro off l h st hst st' hm
    simp only [aover, aSet] at h
    split at h
    · rename_i hlt
      have hg := H.get_lt off hlt
      rw [← hst] at hg
      simp only [derivs, hg] at hm
      split at h
      · rename_i hmem
        injection h with h; subst h
        simp only [hmem, if_true, List.mem_singleton] at hm
        subst hm
        exact ⟨off + 1, by simp, by simp [hst, Nat.add_assoc]⟩
      · rename_i hmem
        simp [hmem] at hm
    · split at h
      · rename_i hoff
        split at h
        · rename_i hn
          have hg := H.get_eq
          rw [← hoff, ← hst] at hg
          have := H.cNotIn_sound S hn
          simp [derivs, hg, this] at hm
        · simp at h
      · simp at h
  | cat a b iha ihb =>
    intro off l h st hst st' hm
    simp only [aover, aCat] at h
    split at h
    · simp at h
    · rename_i la hla
      obtain ⟨j1, _⟩ := joinOpt_spec _ _ _ _ h
      simp only [derivs, List.mem_flatMap] at hm
      obtain ⟨mid, hmid, hrest⟩ := hm
      obtain ⟨o, ho, hpo⟩ := iha off la hla st hst mid hmid
      obtain ⟨lo, h1, h2⟩ := j1 o ho
      obtain ⟨o', ho', hpo'⟩ := ihb o lo h1 mid hpo st' hrest
      exact ⟨o', h2 o' ho', hpo'⟩
  | alt a b iha ihb =>
    intro off l h st hst st' hm
    simp only [aover, aAlt] at h
    split at h
    · rename_i x y hx hy
      injection h with h; subst h
      simp only [derivs, List.mem_append] at hm
      rcases hm with hm | hm
      · obtain ⟨o, ho, hpo⟩ := iha off x hx st hst st' hm
        exact ⟨o, by simp [ho], hpo⟩
      · obtain ⟨o, ho, hpo⟩ := ihb off y hy st hst st' hm
        exact ⟨o, by simp [ho], hpo⟩
    · simp at h
  | grp n r ih =>
    intro off l h st hst st' hm
    simp only [aover] at h
    simp only [derivs, List.mem_map] at hm
    obtain ⟨x, hx, rfl⟩ := hm
    exact ih off l h st hst x hx
  | bref n => intro off l h; simp [aover] at h
  | rep lo hi g r ih =>
    intro off l h st hst
    simp only [aover] at h
    simp only [derivs]
    exact arep_sound p (aover K r) (derivs E r) g (fun o l' h' st1 hst1 => ih o l' h' st1 hst1) _ _ lo hi off l h st hst
  | look ahead neg w r ih =>
    intro off l h st hst
    have hsub : ∀ x ∈ derivs E (.look ahead neg w r) st, x = st := by
      intro x hx
      simp only [derivs] at hx
      split at hx
      · simp at hx; exact hx.2
      · simp at hx; exact hx.2
    have dflt : l = [off] → Covers p l (derivs E (.look ahead neg w r) st) := by
      intro hl; subst hl; exact covers_sub_self p off st hst _ hsub
    simp only [aover, aLook] at h
    split at h
    · rename_i hcond
      simp only [Bool.and_eq_true, Bool.not_eq_true'] at hcond
      obtain ⟨h1, h2⟩ := hcond
      subst h1; subst h2
      split at h
      · rename_i hr
        injection h with h; subst h
        have hnil : derivs E r st = [] := by
          cases hd : derivs E r st with
          | nil => rfl
          | cons x t =>
            obtain ⟨o, ho, _⟩ := ih off [] hr st hst x (by rw [hd]; simp)
            simp at ho
        intro st' hm
        simp [derivs, hnil] at hm
      · injection h with h; exact dflt h.symm
    · split at h
      · rename_i hcond
        simp only [Bool.and_eq_true, Bool.not_eq_true', beq_iff_eq] at hcond
        obtain ⟨⟨⟨h1, h2⟩, h3⟩, h4⟩ := hcond
        subst h1; subst h2; subst h3; subst h4
        split at h
        · rename_i S
          split at h
          · rename_i hpn
            injection h with h; subst h
            intro st' hm
            exfalso
            have hp0 : st.pos = p := by omega
            simp only [derivs, Bool.false_eq_true, if_false] at hm
            rcases H.prev with hp | ⟨d, hd, hdx⟩
            · have : st.pos < 1 := by omega
              simp [this] at hm
            · by_cases hlt : st.pos < 1
              · simp [hlt] at hm
              · have hmem : S.mem d = false := by
                  simp only [WCtx.prevNotIn, List.any_eq_true] at hpn
                  obtain ⟨X, hX, hs⟩ := hpn
                  exact CpSet.subsetOf_sound S X hs d (hdx X hX)
                rw [← hp0] at hd
                simp [hlt, hd, hmem] at hm
          · injection h with h; exact dflt h.symm
        · injection h with h; exact dflt h.symm
      · injection h with h; exact dflt h.symm
  | atEnd =>
    intro off l h st hst
    simp only [aover, Option.some.injEq] at h; subst h
    refine covers_sub_self p off st hst _ ?_
    intro x hx
    simp only [derivs] at hx
    split at hx
    · simpa using hx
    · simp at hx
  | wordB =>
    intro off l h st hst
    have hsub : ∀ x ∈ derivs E .wordB st, x = st := by
      intro x hx
      simp only [derivs] at hx
      split at hx
      · simpa using hx
      · simp at hx
    have dflt : l = [off] → Covers p l (derivs E .wordB st) := by
      intro hl; subst hl; exact covers_sub_self p off st hst _ hsub
    simp only [aover, aWordB] at h
    split at h
    · rename_i hr
      split at h
      · rename_i heq
        injection h with h; subst h
        intro st' hm
        exfalso
        have g1 := H.get_lt (off - 1) (by omega)
        have g2 := H.get_lt off hr.2
        have e1 : st.pos - 1 = p + (off - 1) := by omega
        rw [← e1] at g1
        rw [← hst] at g2
        have hpos : st.pos > 0 := by omega
        simp only [beq_iff_eq] at heq
        simp [derivs, isWordAt, g1, g2, H.word, hpos, heq] at hm
      · injection h with h; exact dflt h.symm
    · split at h
      · rename_i hr
        split at h
        · rename_i hcond
          injection h with h; subst h
          simp only [Bool.and_eq_true, Bool.not_eq_true'] at hcond
          intro st' hm
          exfalso
          have g1 := H.get_lt (off - 1) (by omega)
          have g2 := H.get_eq
          have e1 : st.pos - 1 = p + (off - 1) := by omega
          rw [← e1] at g1
          rw [← hr.2, ← hst] at g2
          have hpos : st.pos > 0 := by omega
          have hc := H.cNotIn_sound K.word hcond.1
          simp [derivs, isWordAt, g1, g2, H.word, hpos, hc, hcond.2] at hm
        · injection h with h; exact dflt h.symm
      · injection h with h; exact dflt h.symm

end Sql
