import SqlProofs.Lex.Basic
import SqlProofs.RegexCost
/-!
# SqlProofs.Lex.Start — can an expression start at a given character?

`start c r` classifies, from the shape of `r` alone, what `r` can do at a position whose character is `c`:
`dead` — no derivation at all; `stay` — only zero-width derivations (possibly none); `any` — unknown.
Used to show by computation over the generated table that no earlier rule matches at the opener of a region.
-/
namespace Sql

inductive Start where
  | dead | stay | any
deriving DecidableEq, Repr

def Start.join : Start → Start → Start
  | .dead, x => x
  | .stay, .dead => .stay
  | .stay, .stay => .stay
  | _, _ => .any

def start (c : Cp) : Re → Start
  | .eps => .stay
  | .set S => if S.mem c then .any else .dead
  | .cat a b =>
    match start c a with
    | .dead => .dead
    | .stay => start c b
    | .any => .any
  | .alt a b => (start c a).join (start c b)
  | .rep lo _ _ r =>
    match start c r with
    | .dead => if lo = 0 then .stay else .dead
    | .stay => .stay
    | .any => .any
  | .grp _ r => start c r
  | .bref _ => .any
  | .look ahead neg _ r =>
    if ahead && !neg then (match start c r with | .dead => .dead | _ => .stay) else .stay
  | .atEnd => .stay
  | .wordB => .stay

def Start.Sem (E : Env) (c : Cp) (r : Re) : Start → Prop
  | .dead => ∀ st, E.s[st.pos]? = some c → derivs E r st = []
  | .stay => ∀ st, E.s[st.pos]? = some c → ∀ st' ∈ derivs E r st, st'.pos = st.pos
  | .any => True

theorem Start.dead_stay (E : Env) (c : Cp) (r : Re) (h : Start.Sem E c r .dead) : Start.Sem E c r .stay := by
  intro st hc st' hm
  rw [h st hc] at hm; simp at hm

/-- a repetition whose body makes no progress from `st` yields at most `st` itself -/
theorem repAux_no_progress (step : St → List St) (g : Bool) (fuel lo : Nat) (hi : Option Nat) (st : St)
    (h : ∀ st' ∈ step st, ¬ st.pos < st'.pos) : ∀ x ∈ repAux step g fuel lo hi st, x = st := by
  have hfil : (step st).filter (fun st' => st.pos < st'.pos) = [] := by
    rw [List.filter_eq_nil_iff]; intro a ha; simpa using h a ha
  cases fuel with
  | zero => intro x hx; simp only [repAux] at hx; split at hx <;> simp_all
  | succ fuel =>
    intro x hx
    rw [repAux] at hx
    simp only [hfil, List.flatMap_nil, List.nil_append, List.append_nil] at hx
    split at hx
    · split at hx <;> simp_all
    · split at hx <;> (split at hx <;> simp_all)

theorem repAux_lo_dead (step : St → List St) (g : Bool) (fuel lo : Nat) (hi : Option Nat) (st : St)
    (h : step st = []) (hlo : lo ≠ 0) : repAux step g fuel lo hi st = [] := by
  cases fuel with
  | zero => simp [repAux, hlo]
  | succ fuel =>
    rw [repAux]
    simp [h, hlo]

theorem start_sound (E : Env) (c : Cp) : ∀ r : Re, Start.Sem E c r (start c r) := by
  intro r
  induction r with
  | eps => intro st _ st' hm; simp [derivs] at hm; rw [hm]
  | set S =>
    simp only [start]
    split
    · trivial
    · rename_i hS
      intro st hc
      simp [derivs, hc, hS]
  | cat a b iha ihb =>
    simp only [start]
    split
    · rename_i ha; rw [ha] at iha
      intro st hc
      simp [derivs, iha st hc]
    · rename_i ha; rw [ha] at iha
      have key : ∀ st, E.s[st.pos]? = some c → ∀ mid ∈ derivs E a st, E.s[mid.pos]? = some c := by
        intro st hc mid hm; rw [iha st hc mid hm]; exact hc
      cases hb : start c b with
      | dead =>
        rw [hb] at ihb
        intro st hc
        simp only [derivs, List.flatMap_eq_nil_iff]
        intro mid hm
        exact ihb mid (key st hc mid hm)
      | stay =>
        rw [hb] at ihb
        intro st hc st' hm
        simp only [derivs, List.mem_flatMap] at hm
        obtain ⟨mid, h1, h2⟩ := hm
        rw [ihb mid (key st hc mid h1) st' h2, iha st hc mid h1]
      | any => trivial
    · trivial
  | alt a b iha ihb =>
    simp only [start]
    cases ha : start c a <;> cases hb : start c b <;> rw [ha] at iha <;> rw [hb] at ihb <;>
      simp only [Start.join] <;> try trivial
    · intro st hc; simp [derivs, iha st hc, ihb st hc]
    · intro st hc st' hm
      simp only [derivs, iha st hc, List.nil_append] at hm
      exact ihb st hc st' hm
    · intro st hc st' hm
      simp only [derivs, ihb st hc, List.append_nil] at hm
      exact iha st hc st' hm
    · intro st hc st' hm
      simp only [derivs, List.mem_append] at hm
      rcases hm with hm | hm
      · exact iha st hc st' hm
      · exact ihb st hc st' hm
  | rep lo hi g r ih =>
    simp only [start]
    have stayCase : Start.Sem E c r .stay → Start.Sem E c (.rep lo hi g r) .stay := by
      intro h st hc st' hm
      simp only [derivs] at hm
      rw [repAux_no_progress (derivs E r) g _ lo hi st (fun x hx => by rw [h st hc x hx]; omega) st' hm]
    split
    · rename_i hr; rw [hr] at ih
      split
      · exact stayCase (Start.dead_stay E c r ih)
      · rename_i hlo
        intro st hc
        simp only [derivs]
        exact repAux_lo_dead _ _ _ _ _ _ (ih st hc) hlo
    · rename_i hr; rw [hr] at ih; exact stayCase ih
    · trivial
  | grp n r ih =>
    simp only [start]
    cases hr : start c r <;> rw [hr] at ih
    · intro st hc; simp [derivs, ih st hc]
    · intro st hc st' hm
      simp only [derivs, List.mem_map] at hm
      obtain ⟨x, hx, rfl⟩ := hm
      exact ih st hc x hx
    · trivial
  | bref n => trivial
  | look ahead neg w r ih =>
    have stayCase : Start.Sem E c (.look ahead neg w r) .stay := by
      intro st _ st' hm
      simp only [derivs] at hm
      split at hm
      · simp at hm; rw [hm.2]
      · simp at hm; rw [hm.2]
    simp only [start]
    split
    · rename_i hcond
      simp only [Bool.and_eq_true, Bool.not_eq_true'] at hcond
      obtain ⟨h1, h2⟩ := hcond
      subst h1; subst h2
      split
      · rename_i hr; rw [hr] at ih
        intro st hc
        simp [derivs, ih st hc]
      · exact stayCase
    · exact stayCase
  | atEnd =>
    intro st _ st' hm
    simp only [derivs] at hm
    split at hm
    · simp at hm; rw [hm]
    · simp at hm
  | wordB =>
    intro st _ st' hm
    simp only [derivs] at hm
    split at hm
    · simp at hm; rw [hm]
    · simp at hm

/-- no rule of `pre` has a derivation at a position whose character is `c` -/
theorem no_match_of_start (E : Env) (c : Cp) (pre : List Rule) (h : (pre.all fun r => start c r.re == .dead) = true)
    (p : Nat) (hc : E.s[p]? = some c) : ∀ x ∈ pre, derivs E x.re ⟨p, []⟩ = [] := by
  intro x hx
  simp only [List.all_eq_true, beq_iff_eq] at h
  have := start_sound E c x.re
  rw [h x hx] at this
  exact this ⟨p, []⟩ hc

/-- contrapositive of `firstSet_sound`: an expression whose first-character set does not contain the current character
(or that stands at the end of the text) has no derivation -/
theorem no_match_by_first_char (E : Env) (r : Re) (S : List (Nat × Nat)) (h : firstSet r = some S) (st : St)
    (hc : ∀ c, E.s[st.pos]? = some c → (CpSet.mk S).mem c = false) : derivs E r st = [] := by
  cases hd : derivs E r st with
  | nil => rfl
  | cons st' t =>
    obtain ⟨c, h1, h2⟩ := firstSet_sound E r S h st st' (by rw [hd]; simp)
    rw [hc c h1] at h2
    exact absurd h2 (by simp)

/-- the rule cannot start at character `c` -/
def deadOn (c : Cp) (x : Rule) : Bool := start c x.re == .dead

theorem dead_at (E : Env) (c : Cp) (r : Re) (h : start c r = .dead) (p : Nat) (hc : E.s[p]? = some c) :
    derivs E r ⟨p, []⟩ = [] := by
  have := start_sound E c r
  rw [h] at this
  exact this ⟨p, []⟩ hc

theorem deadOn_at (E : Env) (c : Cp) (x : Rule) (h : deadOn c x = true) (p : Nat) (hc : E.s[p]? = some c) :
    derivs E x.re ⟨p, []⟩ = [] := dead_at E c x.re (by simpa [deadOn] using h) p hc

end Sql
