import SqlProofs.StripwsFixed
import SqlProofs.FilterTotal
/-!
# SqlProofs.StripwsFixedTree — `StripWhitespaceFilter` reaches a fixed point in one pass (tree level)

`stripWhitespace_fixed_point`: under three decidable conditions on the input tree (`fixCond`: no comma of an IdentifierList is
directly preceded by two whitespace children — otherwise KF-C10-3 —, no Parenthesis group ends in a whitespace child;
`rootTailOK`: the statement does not end in two whitespace tokens) a second pass over the result returns it unchanged.
Method: the first pass puts every child list into the normal form of its class (`lvlNF`, `treeNF`; `first_pass_node`), and a
tree in normal form is reproduced by every further pass (`treeNF_fixed`), which needs no more fuel than the first.
KF-C10-5 (`(a -- c\n\n)`) is *not* a tree-level failure: `kf5_tree_fixed_but_blank_before_close` in StripwsFixed.lean.
-/
set_option linter.unusedSimpArgs false
namespace Sql
open FNode (leaves leavesL)

/-! ## level normal forms that are fixed points of the level functions -/

theorem stripwsDefaultGo_of_nf : ∀ (l : List FNode) (a b : Bool), wsNFGo a b l = true → stripwsDefaultGo a b l = l
  | [], _, _, _ => rfl
  | k :: rest, a, b, h => by
    simp only [wsNFGo, Bool.and_eq_true] at h
    cases k with
    | tok tt v =>
      by_cases hw : tt.isIn T.Whitespace = true
      · simp only [hw, Bool.not_true, Bool.false_or, beq_iff_eq] at h
        simp only [stripwsDefaultGo, hw, if_true, FNode.isWhitespace]
        rw [← h.1, stripwsDefaultGo_of_nf rest _ _ (by simpa [FNode.isWhitespace, hw] using h.2)]
      · simp only [stripwsDefaultGo, hw, Bool.false_eq_true, if_false, FNode.isWhitespace]
        rw [stripwsDefaultGo_of_nf rest _ _ (by simpa [FNode.isWhitespace, hw] using h.2)]
    | grp c cv g =>
      simp only [stripwsDefaultGo, FNode.isWhitespace]
      rw [stripwsDefaultGo_of_nf rest _ _ (by simpa [FNode.isWhitespace] using h.2)]

theorem stripwsDefault_of_nf (l : List FNode) (h : wsNF l = true) : stripwsDefault l = l :=
  stripwsDefaultGo_of_nf l false true h

theorem Del.length_le {α : Type} {p : α → Bool} {l' l : List α} (h : Del p l' l) : l'.length ≤ l.length := by
  induction h with
  | nil => exact Nat.le_refl _
  | keep _ ih => simp; exact ih
  | drop _ _ ih => simp; omega

theorem Del.eq_of_length {α : Type} {p : α → Bool} {l' l : List α} (h : Del p l' l) (hl : l'.length = l.length) : l' = l := by
  induction h with
  | nil => rfl
  | keep _ ih => simp only [List.length_cons, Nat.add_right_cancel_iff] at hl; rw [ih hl]
  | drop _ h2 _ =>
    have := h2.length_le
    simp only [List.length_cons] at hl
    omega

/-- the two guarded loops leave a list with this whitespace pattern alone -/
def insideOK (pat : List Bool) : Bool := trimInsideBy id pat == pat

theorem trimInsideBy_of_insideOK (l : List FNode) (h : insideOK (l.map FNode.isWhitespace) = true) :
    trimInsideBy FNode.isWhitespace l = l := by
  apply (trimInsideBy_del FNode.isWhitespace l).eq_of_length
  have hm := map_trimInsideBy FNode.isWhitespace FNode.isWhitespace id (fun _ => rfl) l
  have : trimInsideBy id (l.map FNode.isWhitespace) = l.map FNode.isWhitespace := by
    simpa [insideOK] using h
  rw [this] at hm
  have := congrArg List.length hm
  simpa using this

/-- `trimPenGroup` leaves the list alone: the last-but-one child is not a group, or its last child is not whitespace -/
def penOK (l : List FNode) : Bool :=
  match l.reverse with
  | _ :: .grp _ _ gks :: _ =>
    (match gks.getLast? with
     | some k => !k.isWhitespace
     | none => false)
  | _ => true

theorem dropTrailingWs_of_last (gks : List FNode) (k : FNode) (h1 : gks.getLast? = some k) (h2 : k.isWhitespace = false) :
    dropTrailingWs gks = gks := by
  unfold dropTrailingWs
  obtain ⟨ys, hys⟩ := List.getLast?_eq_some_iff.mp h1
  rw [hys]
  simp [List.dropWhile_cons, h2]

theorem trimPenGroup_of_penOK (l : List FNode) (h : penOK l = true) : trimPenGroup l = .ok l := by
  unfold penOK at h
  unfold trimPenGroup
  split at h
  · rename_i last c cv gks revInit hr
    rw [hr]
    simp only
    cases hg : gks.getLast? with
    | none => rw [hg] at h; cases h
    | some k =>
      rw [hg] at h
      have hk : k.isWhitespace = false := by simpa using h
      have hd := dropTrailingWs_of_last gks k hg hk
      rw [hd]
      cases gks with
      | nil => simp at hg
      | cons g0 grest =>
        simp only
        have := congrArg List.reverse hr
        simp only [List.reverse_reverse, List.reverse_cons, List.append_assoc, List.cons_append, List.nil_append] at this
        rw [this]
  · rename_i hno
    split
    · rename_i last c cv gks revInit hr
      exact absurd hr (hno _ _ _ _ _)
    · rfl

/-- the normal form of one child list, by class: a fixed point of the class's `_stripws_*` handler -/
def lvlNF (c : Cls) (l : List FNode) : Bool :=
  wsNF l &&
  (match c with
   | .IdentifierList => noWsComma l
   | .Parenthesis => insideOK (l.map FNode.isWhitespace) && penOK l
   | _ => true)

theorem stripwsDispatch_of_lvlNF (c : Cls) (l : List FNode) (h : lvlNF c l = true) : stripwsDispatch c l = .ok l := by
  unfold lvlNF at h
  simp only [Bool.and_eq_true] at h
  obtain ⟨hnf, hc⟩ := h
  unfold stripwsDispatch
  split
  · simp only at hc
    unfold stripwsIdentifierList
    rw [dropWsBeforeComma_fixed l hc, stripwsDefault_of_nf l hnf]
  · simp only [Bool.and_eq_true] at hc
    unfold stripwsParenthesis
    rw [trimInsideBy_of_insideOK l hc.1, trimPenGroup_of_penOK l hc.2]
    simp only [stripwsDefault_of_nf l hnf]
  · rw [stripwsDefault_of_nf l hnf]


/-! ## pointwise relations between child lists -/

inductive PW (R : FNode → FNode → Prop) : List FNode → List FNode → Prop
  | nil : PW R [] []
  | cons {a b : FNode} {as bs : List FNode} : R a b → PW R as bs → PW R (a :: as) (b :: bs)

theorem PW.append {R : FNode → FNode → Prop} {a a' b b' : List FNode} (h1 : PW R a a') (h2 : PW R b b') :
    PW R (a ++ b) (a' ++ b') := by
  induction h1 with
  | nil => exact h2
  | cons h _ ih => exact .cons h ih

theorem PW.reverse {R : FNode → FNode → Prop} {a a' : List FNode} (h : PW R a a') : PW R a.reverse a'.reverse := by
  induction h with
  | nil => exact .nil
  | cons h _ ih => simp only [List.reverse_cons]; exact PW.append ih (.cons h .nil)

theorem PW.length {R : FNode → FNode → Prop} {a a' : List FNode} (h : PW R a a') : a.length = a'.length := by
  induction h with
  | nil => rfl
  | cons _ _ ih => simp [ih]

theorem PW.mono {R S : FNode → FNode → Prop} (hRS : ∀ x y, R x y → S x y) {a a' : List FNode} (h : PW R a a') : PW S a a' := by
  induction h with
  | nil => exact .nil
  | cons h _ ih => exact .cons (hRS _ _ h) ih

theorem PW.mem_right {R : FNode → FNode → Prop} {a a' : List FNode} (h : PW R a a') : ∀ y ∈ a', ∃ x ∈ a, R x y := by
  induction h with
  | nil => intro y hy; simp at hy
  | cons h _ ih =>
    intro y hy
    rcases List.mem_cons.mp hy with rfl | h2
    · exact ⟨_, List.mem_cons_self, h⟩
    · obtain ⟨x, hx, hr⟩ := ih y h2
      exact ⟨x, List.mem_cons_of_mem _ hx, hr⟩

/-- what `_stripws_default` does to one child: a group stays itself, a leaf stays a leaf of the same type -/
def DefRel (x y : FNode) : Prop :=
  match x with
  | .grp .. => y = x
  | .tok tt _ => ∃ v', y = .tok tt v'

theorem stripwsDefaultGo_pw : ∀ (l : List FNode) (a b : Bool), PW DefRel l (stripwsDefaultGo a b l)
  | [], _, _ => .nil
  | k :: rest, a, b => by
    unfold stripwsDefaultGo
    refine .cons ?_ (stripwsDefaultGo_pw rest _ _)
    cases k with
    | tok tt v => simp only [DefRel]; split <;> exact ⟨_, rfl⟩
    | grp c cv g => rfl

theorem DefRel_ws (x y : FNode) (h : DefRel x y) : y.isWhitespace = x.isWhitespace := by
  cases x with
  | tok tt v => obtain ⟨v', rfl⟩ := h; rfl
  | grp c cv g => simp only [DefRel] at h; rw [h]

/-! ## tree normal form -/

mutual
/-- every child list of the tree is in the normal form of its class -/
def treeNF : FNode → Bool
  | .tok .. => true
  | .grp c _ ks => lvlNF c ks && treeNFL ks
def treeNFL : List FNode → Bool
  | [] => true
  | k :: ks => treeNF k && treeNFL ks
end

theorem treeNFL_iff : ∀ (l : List FNode), treeNFL l = true ↔ ∀ x ∈ l, treeNF x = true
  | [] => by simp [treeNFL]
  | k :: l => by simp only [treeNFL, Bool.and_eq_true, List.mem_cons, forall_eq_or_imp, treeNFL_iff l]

theorem treeNF_of_leaf (x : FNode) (h : x.isGroup = false) : treeNF x = true := by
  cases x with
  | tok tt v => rfl
  | grp c cv g => cases h

/-- a `Parenthesis` child whose own last child is whitespace would be re-trimmed by an enclosing parenthesis -/
def parenLastOK : FNode → Bool
  | .grp .Parenthesis _ ks =>
    (match ks.getLast? with
     | some k => !k.isWhitespace
     | none => true)
  | _ => true

theorem noWsComma_prefix : ∀ (x y : List FNode), noWsComma (x ++ y) = true → noWsComma x = true
  | [], _, _ => rfl
  | [a], _, _ => rfl
  | a :: b :: r, y, h => by
    simp only [List.cons_append, noWsComma, Bool.and_eq_true] at h ⊢
    exact ⟨h.1, noWsComma_prefix (b :: r) y h.2⟩

/-- trimming the trailing whitespace of a normal-form child list keeps it in normal form (for a parenthesis: nothing is trimmed) -/
theorem lvlNF_dropTrailingWs (c : Cls) (cv : Text) (gks : List FNode) (h : lvlNF c gks = true)
    (hp : parenLastOK (.grp c cv gks) = true) : lvlNF c (dropTrailingWs gks) = true := by
  by_cases hc : c = .Parenthesis
  · subst hc
    simp only [parenLastOK] at hp
    cases hg : gks.getLast? with
    | none =>
      have : gks = [] := by simpa using hg
      subst this; exact h
    | some k =>
      rw [hg] at hp
      rw [dropTrailingWs_of_last gks k hg (by simpa using hp)]; exact h
  · unfold lvlNF at h ⊢
    simp only [Bool.and_eq_true] at h ⊢
    obtain ⟨y, hy⟩ := dropTrailingWs_prefix gks
    refine ⟨wsNFGo_dropTrailingWs _ _ _ h.1, ?_⟩
    cases c <;> first
      | rfl
      | exact absurd rfl hc
      | (simp only at h ⊢; rw [hy] at h; exact noWsComma_prefix _ y h.2)

/-- how `trimPenGroup` changes a child -/
def PenRel (x y : FNode) : Prop :=
  y = x ∨ ∃ c cv gks g0 grest, x = .grp c cv gks ∧ dropTrailingWs gks = g0 :: grest ∧ y = .grp c cv (g0 :: grest)

theorem PW_refl (R : FNode → FNode → Prop) (hR : ∀ x, R x x) : ∀ (l : List FNode), PW R l l
  | [] => .nil
  | _ :: l => .cons (hR _) (PW_refl R hR l)

theorem getLast?_dropTrailingWs (gks : List FNode) (g0 : FNode) (grest : List FNode) (h : dropTrailingWs gks = g0 :: grest) :
    ∃ k, (g0 :: grest).getLast? = some k ∧ k.isWhitespace = false := by
  refine ⟨(g0 :: grest).getLast (by simp), List.getLast?_eq_some_getLast (by simp), ?_⟩
  have hr : (dropTrailingWs gks).reverse = (g0 :: grest).getLast (by simp) :: (g0 :: grest).reverse.tail := by
    rw [h]
    have : (g0 :: grest).reverse ≠ [] := by simp
    rw [← List.head_reverse (by simp)]
    exact (List.cons_head_tail this).symm
  exact dropTrailingWs_last_not_ws gks _ _ hr

theorem trimPenGroup_spec (l l3 : List FNode) (h : trimPenGroup l = .ok l3) : penOK l3 = true ∧ PW PenRel l l3 := by
  unfold trimPenGroup at h
  split at h
  · rename_i last c cv gks revInit hr
    split at h
    · cases h
    · rename_i g0 grest hg
      simp only [Except.ok.injEq] at h
      have hl : l = revInit.reverse ++ [.grp c cv gks, last] := by
        have := congrArg List.reverse hr
        simpa using this
      constructor
      · rw [← h]
        unfold penOK
        simp only [List.reverse_append, List.reverse_cons, List.reverse_nil, List.nil_append, List.cons_append,
          List.reverse_reverse]
        obtain ⟨k, hk1, hk2⟩ := getLast?_dropTrailingWs gks g0 grest hg
        rw [hk1]; simp [hk2]
      · rw [← h, hl]
        apply PW.append (PW_refl _ (fun x => Or.inl rfl) _)
        exact .cons (Or.inr ⟨c, cv, gks, g0, grest, rfl, hg, rfl⟩) (.cons (Or.inl rfl) .nil)
  · rename_i hno
    simp only [Except.ok.injEq] at h
    rw [← h]
    refine ⟨?_, PW_refl _ (fun x => Or.inl rfl) _⟩
    unfold penOK
    split
    · rename_i last c cv gks revInit hr
      exact absurd hr (hno _ _ _ _ _)
    · rfl


theorem penOK_defrel (l out : List FNode) (h : PW DefRel l out) : penOK out = penOK l := by
  have hr := h.reverse
  unfold penOK
  generalize l.reverse = a at hr
  generalize out.reverse = b at hr
  cases hr with
  | nil => rfl
  | cons h1 hr1 =>
    cases hr1 with
    | nil => rfl
    | cons h2 _ =>
      rename_i x1 y1 x2 y2 as bs hpw
      cases x2 with
      | tok tt v => obtain ⟨v', rfl⟩ := h2; rfl
      | grp c cv g => simp only [DefRel] at h2; rw [h2]

/-- the two guarded loops are idempotent -/
theorem trimInsideBy_idem {α : Type} (p : α → Bool) (l : List α) :
    trimInsideBy p (trimInsideBy p l) = trimInsideBy p l := by
  rcases trimInsideBy_shape p l with ⟨he, hlen⟩ | ⟨a, z, mid, hs, hfirst, hlast⟩
  · rw [he, he]
  · rw [hs]
    -- first loop leaves `a :: mid ++ [z]` alone
    have h1 : trimAfterFirstBy p (a :: mid ++ [z]) = a :: mid ++ [z] := by
      simp only [List.cons_append, trimAfterFirstBy]
      cases mid with
      | nil => simp [popLeadBy_single]
      | cons b r =>
        have hb := hfirst b r rfl
        cases hr : r ++ [z] with
        | nil => simp at hr
        | cons c r' =>
          simp only [List.cons_append, hr, popLeadBy_cons2, hb, Bool.false_eq_true, if_false]
    -- second loop, seen from the other end
    have h2 : trimAfterFirstBy p (a :: mid ++ [z]).reverse = (a :: mid ++ [z]).reverse := by
      have hrev : (a :: mid ++ [z]).reverse = z :: (mid.reverse ++ [a]) := by simp
      rw [hrev]
      simp only [trimAfterFirstBy]
      cases hm : mid.reverse with
      | nil => simp [popLeadBy_single]
      | cons y ri =>
        have hmid : mid = ri.reverse ++ [y] := by
          have := congrArg List.reverse hm
          simpa using this
        have hy := hlast ri.reverse y hmid
        cases hr : ri ++ [a] with
        | nil => simp at hr
        | cons c r' =>
          simp only [List.cons_append, hr, popLeadBy_cons2, hy, Bool.false_eq_true, if_false]
    unfold trimInsideBy trimBeforeLastBy
    rw [h1, h2, List.reverse_reverse]

theorem insideOK_out (ks out : List FNode) (h : stripwsParenthesis ks = .ok out) :
    insideOK (out.map FNode.isWhitespace) = true := by
  rw [stripwsParenthesis_pattern ks out h, map_trimInsideBy FNode.isWhitespace FNode.isWhitespace id (fun _ => rfl)]
  simp [insideOK, trimInsideBy_idem]

/-- `_stripws_parenthesis` on children that are in normal form: the result is in the parenthesis normal form and all its
children still are in normal form -/
theorem paren_level_nf (ks out : List FNode) (hkids : treeNFL ks = true) (hlast : ∀ x ∈ ks, parenLastOK x = true)
    (h : stripwsParenthesis ks = .ok out) : lvlNF .Parenthesis out = true ∧ treeNFL out = true := by
  have hio := insideOK_out ks out h
  unfold stripwsParenthesis at h
  split at h
  · cases h
  · rename_i l3 hl3
    simp only [Except.ok.injEq] at h
    obtain ⟨hpen, hpw⟩ := trimPenGroup_spec _ l3 hl3
    have hdef : PW DefRel l3 out := by rw [← h]; exact stripwsDefaultGo_pw l3 false true
    constructor
    · unfold lvlNF
      simp only [Bool.and_eq_true]
      refine ⟨by rw [← h]; exact wsNF_stripwsDefault l3, hio, ?_⟩
      rw [penOK_defrel l3 out hdef]; exact hpen
    · rw [treeNFL_iff] at hkids ⊢
      intro y hy
      obtain ⟨x3, hx3, hd⟩ := hdef.mem_right y hy
      cases x3 with
      | tok tt v => obtain ⟨v', rfl⟩ := hd; rfl
      | grp c cv g =>
        simp only [DefRel] at hd
        rw [hd]
        obtain ⟨x2, hx2, hp⟩ := hpw.mem_right _ hx3
        have hx2ks : x2 ∈ ks := (trimInsideBy_del FNode.isWhitespace ks).mem x2 hx2
        rcases hp with hp | ⟨c2, cv2, gks, g0, grest, hx2e, hg, hye⟩
        · rw [hp]; exact hkids x2 hx2ks
        · injection hye with e1 e2 e3
          subst e1 e2 e3
          have hnf := hkids x2 hx2ks
          rw [hx2e] at hnf
          unfold treeNF at hnf ⊢
          rw [Bool.and_eq_true] at hnf ⊢
          have hpl := hlast x2 hx2ks
          rw [hx2e] at hpl
          refine ⟨by rw [← hg]; exact lvlNF_dropTrailingWs c cv gks hnf.1 hpl, ?_⟩
          rw [treeNFL_iff] at hnf ⊢
          intro z hz
          obtain ⟨yy, hyy⟩ := dropTrailingWs_prefix gks
          apply hnf.2 z
          rw [hyy, hg]
          exact List.mem_append_left _ hz


/-! ## recursion depth: the second pass does not need more fuel than the first -/

mutual
def gdepth : FNode → Nat
  | .tok .. => 0
  | .grp _ _ ks => gdepthL ks + 1
def gdepthL : List FNode → Nat
  | [] => 0
  | k :: ks => max (gdepth k) (gdepthL ks)
end

theorem gdepthL_le_iff (m : Nat) : ∀ (l : List FNode), gdepthL l ≤ m ↔ ∀ x ∈ l, gdepth x ≤ m
  | [] => by simp [gdepthL]
  | k :: l => by
    simp only [gdepthL, Nat.max_le, List.mem_cons, forall_eq_or_imp, gdepthL_le_iff m l]

mutual
theorem gdepth_le_fuel (f : Nat → Cls → List FNode → Except PyErr (List FNode)) : ∀ (n : FNode) (fuel d : Nat) (n' : FNode),
    bottomUp f fuel d n = .ok n' → gdepth n ≤ fuel
  | .tok tt v, fuel, d, n', _ => by simp [gdepth]
  | .grp c cv ks, fuel, d, n', h => by
    unfold bottomUp at h
    cases fuel with
    | zero => simp at h
    | succ fuel' =>
      simp only at h
      cases hk : bottomUpL f fuel' (d + 1) ks with
      | error e => rw [hk] at h; cases h
      | ok ks' =>
        have := gdepthL_le_fuel f ks fuel' (d + 1) ks' hk
        simp only [gdepth]; omega
theorem gdepthL_le_fuel (f : Nat → Cls → List FNode → Except PyErr (List FNode)) : ∀ (ns : List FNode) (fuel d : Nat) (ns' : List FNode),
    bottomUpL f fuel d ns = .ok ns' → gdepthL ns ≤ fuel
  | [], fuel, d, ns', _ => by simp [gdepthL]
  | k :: rest, fuel, d, ns', h => by
    unfold bottomUpL at h
    cases hk : bottomUp f fuel d k with
    | error e => rw [hk] at h; cases h
    | ok k' =>
      rw [hk] at h
      simp only at h
      cases hr : bottomUpL f fuel d rest with
      | error e => rw [hr] at h; cases h
      | ok rest' =>
        simp only [gdepthL, Nat.max_le]
        exact ⟨gdepth_le_fuel f k fuel d k' hk, gdepthL_le_fuel f rest fuel d rest' hr⟩
end

mutual
/-- a tree in normal form is reproduced by a further pass below the root, given enough fuel -/
theorem treeNF_fixed : ∀ (n : FNode) (fuel dd : Nat), treeNF n = true → gdepth n ≤ fuel →
    bottomUp stripwsLevel fuel (dd + 1) n = .ok n
  | .tok tt v, fuel, dd, _, _ => by unfold bottomUp; rfl
  | .grp c cv ks, fuel, dd, hnf, hd => by
    unfold treeNF at hnf
    simp only [Bool.and_eq_true] at hnf
    simp only [gdepth] at hd
    cases fuel with
    | zero => omega
    | succ fuel' =>
      unfold bottomUp
      simp only
      rw [treeNFL_fixed ks fuel' (dd + 1) hnf.2 (by omega)]
      simp only [stripwsLevel, stripwsDispatch_of_lvlNF c ks hnf.1]
      simp
theorem treeNFL_fixed : ∀ (ns : List FNode) (fuel dd : Nat), treeNFL ns = true → gdepthL ns ≤ fuel →
    bottomUpL stripwsLevel fuel (dd + 1) ns = .ok ns
  | [], fuel, dd, _, _ => by unfold bottomUpL; rfl
  | k :: rest, fuel, dd, hnf, hd => by
    unfold treeNFL at hnf
    simp only [Bool.and_eq_true] at hnf
    simp only [gdepthL, Nat.max_le] at hd
    unfold bottomUpL
    rw [treeNF_fixed k fuel dd hnf.1 hd.1]
    simp only
    rw [treeNFL_fixed rest fuel dd hnf.2 hd.2]
end


/-! ## the first pass produces a tree in normal form -/

theorem popLeadBy_getLast? {α : Type} (p : α → Bool) : ∀ (l : List α), (popLeadBy p l).getLast? = l.getLast?
  | [] => rfl
  | [b] => by rw [popLeadBy_single]
  | b :: c :: r => by
    rw [popLeadBy_cons2]
    split
    · rw [popLeadBy_getLast? p (c :: r)]; simp [List.getLast?_cons_cons]
    · rfl

theorem trimAfterFirstBy_getLast? {α : Type} (p : α → Bool) (l : List α) : (trimAfterFirstBy p l).getLast? = l.getLast? := by
  cases l with
  | nil => rfl
  | cons a tl =>
    simp only [trimAfterFirstBy]
    cases tl with
    | nil => simp [popLeadBy]
    | cons b r =>
      have h1 := popLeadBy_getLast? p (b :: r)
      have hne : popLeadBy p (b :: r) ≠ [] := popLeadBy_ne_nil p _ (by simp)
      cases hp : popLeadBy p (b :: r) with
      | nil => exact absurd hp hne
      | cons x y => rw [List.getLast?_cons_cons, ← hp, h1, List.getLast?_cons_cons]

theorem trimAfterFirstBy_head? {α : Type} (p : α → Bool) (l : List α) : (trimAfterFirstBy p l).head? = l.head? := by
  cases l <;> rfl

theorem trimInsideBy_getLast? {α : Type} (p : α → Bool) (l : List α) : (trimInsideBy p l).getLast? = l.getLast? := by
  unfold trimInsideBy trimBeforeLastBy
  rw [List.getLast?_reverse, trimAfterFirstBy_head?, List.head?_reverse, trimAfterFirstBy_getLast?]

/-- what the parent level sees of a child, before and after the child has been processed -/
def SRel (k k' : FNode) : Prop :=
  k'.isWhitespace = k.isWhitespace ∧ isComma k' = isComma k ∧ (parenLastOK k = true → parenLastOK k' = true)

theorem SRel_map_ws {ks ks' : List FNode} (h : PW SRel ks ks') : ks'.map FNode.isWhitespace = ks.map FNode.isWhitespace := by
  induction h with
  | nil => rfl
  | cons h _ ih => simp [h.1, ih]

theorem noWsWsComma_rel : ∀ {ks ks' : List FNode}, PW SRel ks ks' → noWsWsComma ks = true → noWsWsComma ks' = true
  | _, _, .nil, _ => rfl
  | _, _, .cons _ .nil, _ => rfl
  | _, _, .cons _ (.cons _ .nil), _ => rfl
  | _, _, .cons (a := a) (b := a') ha (.cons (a := b) (b := b') hb (.cons (a := c) (b := c') (as := r) (bs := r') hc hr)), h => by
    simp only [noWsWsComma, Bool.and_eq_true] at h ⊢
    refine ⟨?_, noWsWsComma_rel (.cons hb (.cons hc hr)) h.2⟩
    rw [ha.1, hb.1, hc.2.1]; exact h.1

theorem mem_dropWsBeforeComma : ∀ (l : List FNode) (x : FNode), x ∈ dropWsBeforeComma l → x ∈ l
  | [], x, h => by simp [dropWsBeforeComma] at h
  | a :: rest, x, h => by
    rw [dropWsBeforeComma_cons] at h
    split at h
    · exact List.mem_cons_of_mem _ (mem_dropWsBeforeComma rest x h)
    · rcases List.mem_cons.mp h with rfl | h2
      · exact List.mem_cons_self
      · exact List.mem_cons_of_mem _ (mem_dropWsBeforeComma rest x h2)

mutual
/-- hypotheses of the fixed-point theorem: no comma of an IdentifierList is preceded by two whitespace children (KF-C10-3), and
no Parenthesis ends in a whitespace child (an enclosing parenthesis would trim it after the inner one was normalised) -/
def fixCond : FNode → Bool
  | .tok .. => true
  | .grp c cv ks => parenLastOK (.grp c cv ks) && (c != .IdentifierList || noWsWsComma ks) && fixCondL ks
def fixCondL : List FNode → Bool
  | [] => true
  | k :: ks => fixCond k && fixCondL ks
end

theorem fixCondL_iff : ∀ (l : List FNode), fixCondL l = true ↔ ∀ x ∈ l, fixCond x = true
  | [] => by simp [fixCondL]
  | k :: l => by simp only [fixCondL, Bool.and_eq_true, List.mem_cons, forall_eq_or_imp, fixCondL_iff l]

theorem fixCond_parenLast (x : FNode) (h : fixCond x = true) : parenLastOK x = true := by
  cases x with
  | tok tt v => rfl
  | grp c cv ks => unfold fixCond at h; simp only [Bool.and_eq_true] at h; exact h.1.1

theorem gdepth_trim_le (c : Cls) (cv : Text) (gks g : List FNode) (y : List FNode) (hy : gks = g ++ y) :
    gdepth (.grp c cv g) ≤ gdepth (.grp c cv gks) := by
  simp only [gdepth, Nat.add_le_add_iff_right]
  rw [gdepthL_le_iff]
  intro x hx
  have : gdepthL gks ≤ gdepthL gks := Nat.le_refl _
  rw [gdepthL_le_iff] at this
  exact this x (by rw [hy]; exact List.mem_append_left _ hx)

/-- one level: processed children in normal form (and related to the originals) give a result in normal form -/
theorem level_nf (c : Cls) (cv : Text) (ks ks' out : List FNode) (dd : Nat) (hcond : fixCond (.grp c cv ks) = true)
    (hrel : PW SRel ks ks') (hnf : treeNFL ks' = true)
    (h : stripwsLevel (dd + 1) c ks' = .ok out) :
    lvlNF c out = true ∧ treeNFL out = true ∧ gdepthL out ≤ gdepthL ks' ∧
      out.getLast?.map FNode.isWhitespace = ks.getLast?.map FNode.isWhitespace := by
  unfold fixCond at hcond
  simp only [Bool.and_eq_true] at hcond
  obtain ⟨⟨hpl, hidl⟩, hkids⟩ := hcond
  have hlastmap : ∀ (l : List FNode), l.getLast?.map FNode.isWhitespace = (l.map FNode.isWhitespace).getLast? := by
    intro l; rw [List.getLast?_map]
  have hdepth_self : ∀ x ∈ ks', gdepth x ≤ gdepthL ks' := by
    have : gdepthL ks' ≤ gdepthL ks' := Nat.le_refl _
    rw [gdepthL_le_iff] at this
    exact this
  simp only [stripwsLevel] at h
  cases hd : stripwsDispatch c ks' with
  | error e => rw [hd] at h; cases h
  | ok o =>
    rw [hd] at h
    simp only [Nat.add_one_ne_zero, beq_iff_eq, if_false, Except.ok.injEq] at h
    subst h
    have hnfm := (treeNFL_iff ks').mp hnf
    -- results built by `_stripws_default` from a list whose members are members of ks'
    have from_default : ∀ (l : List FNode), (∀ x ∈ l, x ∈ ks') →
        treeNFL (stripwsDefault l) = true ∧ gdepthL (stripwsDefault l) ≤ gdepthL ks' := by
      intro l hl
      have hpw := stripwsDefaultGo_pw l false true
      constructor
      · rw [treeNFL_iff]
        intro y hy
        obtain ⟨x, hx, hdr⟩ := hpw.mem_right y hy
        cases x with
        | tok tt v => obtain ⟨v', rfl⟩ := hdr; rfl
        | grp c2 cv2 g => simp only [DefRel] at hdr; rw [hdr]; exact hnfm _ (hl _ hx)
      · rw [gdepthL_le_iff]
        intro y hy
        obtain ⟨x, hx, hdr⟩ := hpw.mem_right y hy
        cases x with
        | tok tt v => obtain ⟨v', rfl⟩ := hdr; simp [gdepth]
        | grp c2 cv2 g => simp only [DefRel] at hdr; rw [hdr]; exact hdepth_self _ (hl _ hx)
    unfold stripwsDispatch at hd
    split at hd
    · -- IdentifierList
      simp only [Except.ok.injEq] at hd
      subst hd
      simp only [bne_self_eq_false, Bool.false_or] at hidl
      have hww := noWsWsComma_rel hrel hidl
      obtain ⟨t1, t2⟩ := from_default (dropWsBeforeComma ks') (mem_dropWsBeforeComma ks')
      refine ⟨?_, t1, t2, ?_⟩
      · unfold lvlNF stripwsIdentifierList
        simp only [Bool.and_eq_true]
        refine ⟨wsNF_stripwsDefault _, ?_⟩
        unfold stripwsDefault
        rw [noWsComma_default]
        exact noWsComma_dropWsBeforeComma ks' hww
      · -- the last child stays (a whitespace token is only dropped before a comma)
        unfold stripwsIdentifierList stripwsDefault
        rw [hlastmap, map_ws_stripwsDefaultGo, ← hlastmap, hlastmap ks, ← SRel_map_ws hrel, ← hlastmap]
        -- last of dropWsBeforeComma
        have : ∀ (l : List FNode), (dropWsBeforeComma l).getLast? = l.getLast? := by
          intro l
          induction l with
          | nil => rfl
          | cons a rest ih =>
            rw [dropWsBeforeComma_cons]
            cases rest with
            | nil => simp [headIsComma, dropWsBeforeComma]
            | cons b r =>
              split
              · rw [ih]; simp [List.getLast?_cons_cons]
              · have hne : dropWsBeforeComma (b :: r) ≠ [] := by
                  intro h0
                  have := congrArg List.getLast? h0
                  rw [ih] at this
                  simp at this
                cases hdd : dropWsBeforeComma (b :: r) with
                | nil => exact absurd hdd hne
                | cons x y => rw [List.getLast?_cons_cons, ← hdd, ih, List.getLast?_cons_cons]
        rw [this]
    · -- Parenthesis
      have hlast : ∀ x ∈ ks', parenLastOK x = true := by
        intro x' hx'
        obtain ⟨x, hx, hr⟩ := hrel.mem_right x' hx'
        exact hr.2.2 (fixCond_parenLast x ((fixCondL_iff ks).mp hkids x hx))
      obtain ⟨p1, p2⟩ := paren_level_nf ks' o hnf hlast hd
      refine ⟨p1, p2, ?_, ?_⟩
      · -- depth: members are members of ks' or trimmed members
        unfold stripwsParenthesis at hd
        split at hd
        · cases hd
        · rename_i l3 hl3
          simp only [Except.ok.injEq] at hd
          obtain ⟨_, hpw⟩ := trimPenGroup_spec _ l3 hl3
          have hdef : PW DefRel l3 o := by rw [← hd]; exact stripwsDefaultGo_pw l3 false true
          rw [gdepthL_le_iff]
          intro y hy
          obtain ⟨x3, hx3, hdr⟩ := hdef.mem_right y hy
          cases x3 with
          | tok tt v => obtain ⟨v', rfl⟩ := hdr; simp [gdepth]
          | grp c2 cv2 g =>
            simp only [DefRel] at hdr
            rw [hdr]
            obtain ⟨x2, hx2, hp⟩ := hpw.mem_right _ hx3
            have hx2ks : x2 ∈ ks' := (trimInsideBy_del FNode.isWhitespace ks').mem x2 hx2
            rcases hp with hp | ⟨c3, cv3, gks, g0, grest, hx2e, hg, hye⟩
            · rw [hp]; exact hdepth_self x2 hx2ks
            · rw [hye]
              obtain ⟨yy, hyy⟩ := dropTrailingWs_prefix gks
              rw [hg] at hyy
              have := gdepth_trim_le c3 cv3 gks (g0 :: grest) yy hyy
              rw [← hx2e] at this
              exact Nat.le_trans this (hdepth_self x2 hx2ks)
      · rw [hlastmap, stripwsParenthesis_pattern ks' o hd, ← hlastmap, trimInsideBy_getLast?, hlastmap, SRel_map_ws hrel,
          ← hlastmap]
    · -- default
      simp only [Except.ok.injEq] at hd
      subst hd
      obtain ⟨t1, t2⟩ := from_default ks' (fun x hx => hx)
      refine ⟨?_, t1, t2, ?_⟩
      · rename_i h1 h2
        unfold lvlNF
        simp only [Bool.and_eq_true]
        refine ⟨wsNF_stripwsDefault _, ?_⟩
        cases c <;> first
          | simp
          | exact absurd rfl h1
          | exact absurd rfl h2
      · unfold stripwsDefault
        rw [hlastmap, map_ws_stripwsDefaultGo, SRel_map_ws hrel, ← hlastmap]


theorem parenLastOK_of_last (c : Cls) (cv cv' : Text) (ks out : List FNode)
    (hl : out.getLast?.map FNode.isWhitespace = ks.getLast?.map FNode.isWhitespace)
    (h : parenLastOK (.grp c cv ks) = true) : parenLastOK (.grp c cv' out) = true := by
  by_cases hc : c = .Parenthesis
  · subst hc
    simp only [parenLastOK] at h ⊢
    cases ho : out.getLast? with
    | none => rfl
    | some k =>
      rw [ho] at hl
      cases hk : ks.getLast? with
      | none => rw [hk] at hl; simp at hl
      | some k2 =>
        rw [hk] at hl h
        simp only [Option.map_some, Option.some.injEq] at hl
        simp only [hl]; exact h
  · cases c <;> first
      | rfl
      | exact absurd rfl hc

mutual
theorem first_pass_node : ∀ (n : FNode) (fuel dd : Nat) (n' : FNode), fixCond n = true →
    bottomUp stripwsLevel fuel (dd + 1) n = .ok n' → treeNF n' = true ∧ SRel n n' ∧ gdepth n' ≤ gdepth n
  | .tok tt v, fuel, dd, n', _, h => by
    unfold bottomUp at h
    simp only [Except.ok.injEq] at h
    rw [← h]
    exact ⟨rfl, ⟨rfl, rfl, fun x => x⟩, Nat.le_refl _⟩
  | .grp c cv ks, fuel, dd, n', hc, h => by
    unfold bottomUp at h
    cases fuel with
    | zero => simp at h
    | succ fuel' =>
      simp only at h
      cases hk : bottomUpL stripwsLevel fuel' (dd + 1 + 1) ks with
      | error e => rw [hk] at h; cases h
      | ok ks' =>
        rw [hk] at h
        simp only at h
        cases hl : stripwsLevel (dd + 1) c ks' with
        | error e => rw [hl] at h; cases h
        | ok out =>
          rw [hl] at h
          simp only [Except.ok.injEq] at h
          rw [← h]
          have hkids : fixCondL ks = true := by
            unfold fixCond at hc; simp only [Bool.and_eq_true] at hc; exact hc.2
          obtain ⟨l1, l2, l3⟩ := first_pass_list ks fuel' (dd + 1) ks' hkids hk
          obtain ⟨a1, a2, a3, a4⟩ := level_nf c cv ks ks' out dd hc l2 l1 hl
          refine ⟨?_, ⟨rfl, rfl, ?_⟩, ?_⟩
          · unfold treeNF; rw [a1, a2]; rfl
          · exact parenLastOK_of_last c cv cv ks out a4
          · simp only [gdepth]; omega
theorem first_pass_list : ∀ (ns : List FNode) (fuel dd : Nat) (ns' : List FNode), fixCondL ns = true →
    bottomUpL stripwsLevel fuel (dd + 1) ns = .ok ns' → treeNFL ns' = true ∧ PW SRel ns ns' ∧ gdepthL ns' ≤ gdepthL ns
  | [], fuel, dd, ns', _, h => by
    unfold bottomUpL at h
    simp only [Except.ok.injEq] at h
    rw [← h]; exact ⟨rfl, .nil, Nat.le_refl _⟩
  | k :: rest, fuel, dd, ns', hc, h => by
    unfold fixCondL at hc
    simp only [Bool.and_eq_true] at hc
    unfold bottomUpL at h
    cases hk : bottomUp stripwsLevel fuel (dd + 1) k with
    | error e => rw [hk] at h; cases h
    | ok k' =>
      rw [hk] at h
      simp only at h
      cases hr : bottomUpL stripwsLevel fuel (dd + 1) rest with
      | error e => rw [hr] at h; cases h
      | ok rest' =>
        rw [hr] at h
        simp only [Except.ok.injEq] at h
        rw [← h]
        obtain ⟨a1, a2, a3⟩ := first_pass_node k fuel dd k' hc.1 hk
        obtain ⟨b1, b2, b3⟩ := first_pass_list rest fuel dd rest' hc.2 hr
        refine ⟨by unfold treeNFL; rw [a1, b1]; rfl, .cons a2 b2, ?_⟩
        simp only [gdepthL]
        omega
end

/-- the children of the root do not end in two whitespace tokens (only one is popped per pass) -/
def rootTailOK (ks : List FNode) : Bool :=
  match (ks.map FNode.isWhitespace).reverse with
  | true :: true :: _ => false
  | _ => true

theorem popTrailingWs_idem_of_tail (D : List FNode) (h : rootTailOK D = true) :
    popTrailingWs (popTrailingWs D) = popTrailingWs D := by
  apply popTrailingWs_fixed
  intro x hx
  unfold rootTailOK at h
  cases hr : D.reverse with
  | nil =>
    have : D = [] := by simpa using hr
    subst this; simp [popTrailingWs] at hx
  | cons a r1 =>
    have hD : D = r1.reverse ++ [a] := by
      have := congrArg List.reverse hr
      simpa using this
    by_cases ha : a.isWhitespace = true
    · have hpop : popTrailingWs D = r1.reverse := by
        unfold popTrailingWs
        rw [hD]; simp [ha]
      rw [hpop] at hx
      cases r1 with
      | nil => simp at hx
      | cons b r2 =>
        simp only [List.reverse_cons, List.getLast?_append, List.getLast?_singleton, Option.or_some, Option.some.injEq] at hx
        rw [hD] at h
        simp only [List.map_append, List.map_cons, List.map_nil, List.reverse_append, List.reverse_cons, List.reverse_nil,
          List.nil_append, List.cons_append, List.map_reverse, List.reverse_reverse, ha] at h
        have hxb : x = b := by simpa using hx.symm
        rw [hxb]
        cases hb : b.isWhitespace with
        | false => rfl
        | true => rw [hb] at h; simp at h
    · have hpop : popTrailingWs D = D := by
        unfold popTrailingWs
        rw [hD]; simp [ha]
      rw [hpop, hD] at hx
      simp only [List.getLast?_append, List.getLast?_singleton, Option.or_some, Option.some.injEq] at hx
      have hxa : x = a := by simpa using hx.symm
      rw [hxa]; simpa using ha


/-- **`strip_whitespace` is a fixed point after one pass** on every tree that satisfies the three conditions: no comma of an
IdentifierList is directly preceded by two whitespace children (else KF-C10-3), no Parenthesis group ends in a whitespace child,
and the statement does not end in two whitespace tokens (only one is popped per pass).  The root is a group without a handler
of its own (a `Statement`).  The statement is about the *tree*: a second `format()` call re-lexes the text and may see a
different tree (KF-C10-5, `kf5_tree_fixed_but_blank_before_close`). -/
theorem stripWhitespace_fixed_point (fuel : Nat) (c : Cls) (cv : Text) (ks : List FNode) (n' : FNode)
    (hc1 : c ≠ .IdentifierList) (hc2 : c ≠ .Parenthesis)
    (hcond : fixCond (.grp c cv ks) = true) (hroot : rootTailOK ks = true)
    (h : stripWhitespace fuel (.grp c cv ks) = .ok n') : stripWhitespace fuel n' = .ok n' := by
  unfold stripWhitespace at h ⊢
  unfold bottomUp at h
  cases fuel with
  | zero => simp at h
  | succ f' =>
    simp only at h
    cases hk : bottomUpL stripwsLevel f' (0 + 1) ks with
    | error e => rw [hk] at h; cases h
    | ok ks' =>
      rw [hk] at h
      simp only at h
      have hkids : fixCondL ks = true := by
        unfold fixCond at hcond; simp only [Bool.and_eq_true] at hcond; exact hcond.2
      obtain ⟨l1, l2, l3⟩ := first_pass_list ks f' 0 ks' hkids hk
      have hfuel : gdepthL ks ≤ f' := gdepthL_le_fuel stripwsLevel ks f' (0 + 1) ks' hk
      -- the dispatch of the root is `_stripws_default`
      have hdisp : ∀ (l : List FNode), stripwsDispatch c l = .ok (stripwsDefault l) := by
        intro l
        unfold stripwsDispatch
        cases c <;> first
          | rfl
          | exact absurd rfl hc1
          | exact absurd rfl hc2
      have hlvl1 : stripwsLevel (0 + 1) c ks' = .ok (stripwsDefault ks') := by
        simp [stripwsLevel, hdisp]
      obtain ⟨a1, a2, a3, _⟩ := level_nf c cv ks ks' (stripwsDefault ks') 0 hcond l2 l1 hlvl1
      have hn' : n' = .grp c cv (popTrailingWs (stripwsDefault ks')) := by
        simp only [stripwsLevel, hdisp, beq_self_eq_true, if_true, Except.ok.injEq] at h
        exact h.symm
      rw [hn']
      obtain ⟨y, hy⟩ := popTrailingWs_prefix (stripwsDefault ks')
      -- the popped list: members of D, normal form as a prefix
      have hsub : ∀ x ∈ popTrailingWs (stripwsDefault ks'), x ∈ stripwsDefault ks' := by
        intro x hx; rw [hy]; exact List.mem_append_left _ hx
      have hnfL : treeNFL (popTrailingWs (stripwsDefault ks')) = true := by
        rw [treeNFL_iff] at a2 ⊢
        exact fun x hx => a2 x (hsub x hx)
      have hdep : gdepthL (popTrailingWs (stripwsDefault ks')) ≤ f' := by
        rw [gdepthL_le_iff]
        intro x hx
        have : gdepthL (stripwsDefault ks') ≤ f' := by omega
        rw [gdepthL_le_iff] at this
        exact this x (hsub x hx)
      have hwsnf : wsNF (popTrailingWs (stripwsDefault ks')) = true := by
        have hD : wsNF (stripwsDefault ks') = true := wsNF_stripwsDefault ks'
        rw [hy] at hD
        exact wsNFGo_prefix _ y _ _ hD
      have htail : rootTailOK (stripwsDefault ks') = true := by
        unfold rootTailOK at hroot ⊢
        unfold stripwsDefault
        rw [map_ws_stripwsDefaultGo, SRel_map_ws l2]
        exact hroot
      unfold bottomUp
      simp only
      rw [treeNFL_fixed _ f' 0 hnfL hdep]
      simp only [stripwsLevel, hdisp, stripwsDefault_of_nf _ hwsnf, beq_self_eq_true, if_true,
        popTrailingWs_idem_of_tail _ htail]

end Sql
