import SqlModel.Bookkeeping
import SqlProofs.IdentShape.Contexts
import SqlProofs.IdentShape.Contexts2
import SqlProofs.CteShape.Skeletons
import SqlProofs.ClauseShape.Skeletons
import SqlProofs.LeadingKeyword
import SqlModel
import SqlProofs.SplitValue
import SqlProofs.Resplit
import SqlProofs.WsRespell.Def
import SqlProofs.WsRespell.SqueezeDef
import SqlProofs.WsRespell.GapDef
import SqlModel.LexCost
import SqlProofs.SplitHeader
open Sql

def hexVal (ch : Char) : Nat :=
  if ch.isDigit then ch.toNat - 48 else if 'a' ≤ ch ∧ ch ≤ 'f' then ch.toNat - 87 else 0

def parseHex (w : String) : Nat := w.foldl (fun a ch => a*16 + hexVal ch) 0

def parseText (ws : List String) : Array Nat := (ws.filter (· ≠ "")).toArray.map parseHex

def hexOf (n : Nat) : String := String.ofList (Nat.toDigits 16 n)

def showText (t : List Nat) : String := " ".intercalate (t.map hexOf)

def showTT (t : TType) : String := if t.isEmpty then "Token" else ".".intercalate t

def hasBref : Re → Bool
  | .bref _ => true
  | .cat a b | .alt a b => hasBref a || hasBref b
  | .rep _ _ _ r | .grp _ r | .look _ _ _ r => hasBref r
  | _ => false

def cmdRe (s : Array Nat) : String := Id.run do
  let E := defaultCfg.env s
  let mut out := ""
  for p in [0:s.size+1] do
    for r in defaultCfg.rules do
      match matchAt E r.re p with
      | some st =>
        out := out ++ toString st.pos
        if hasBref r.re then
          match capOf st.caps 1 with
          | some (a, b) => out := out ++ ":" ++ toString a ++ ":" ++ toString b
          | none => pure ()
        out := out ++ " "
      | none => out := out ++ "- "
  return out

def cmdLex (s : Array Nat) : String :=
  match lex defaultCfg s with
  | .ok ts => "ok " ++ ";".intercalate (ts.map fun t => showTT t.tt ++ "=" ++ showText t.val)
  | .error e => "err " ++ e.name

/-- statement boundaries as token counts, then the `split()` strings: `ok n1 n2 … | hex ; hex ; …` -/
def cmdSplit (s : Array Nat) : String :=
  match lexSplit s with
  | .error e => "err " ++ e.name
  | .ok sts =>
    "ok " ++ " ".intercalate (sts.map fun st => toString st.length) ++ " | " ++
      " ; ".intercalate (sts.map fun st => showText (pyStrip (stmtText st)))

/-- `lexstable <hex text>`: for each statement of `lexSplit`, in order, whether the Lean hypothesis of `resplit_text_any`
(SqlProofs/Resplit.lean) holds: `lexStableB st || lexStableCB st`, i.e. re-lexing the stripped text of the statement gives its tokens
minus the whitespace-typed tokens at both ends (`LexStable`), or gives its tokens with the whitespace *characters* cut at both ends where
only Whitespace-typed tokens vanish and only value-blind tokens are shortened (`LexStableC`).
Answer: `ok` followed by one ` 1` or ` 0` per statement (just `ok` if there is no statement), or `err <PyErr>`.
`lexstable2` answers with two digits per statement instead: ` ab` with a = `LexStable`, b = `LexStableC`. -/
def cmdLexStable (both : Bool) (s : Array Nat) : String :=
  match lexSplit s with
  | .error e => "err " ++ e.name
  | .ok sts =>
    let d (b : Bool) : String := if b then "1" else "0"
    "ok" ++ String.join (sts.map fun st =>
      if both then " " ++ d (lexStableB st) ++ d (lexStableCB st) else " " ++ d (lexStableB st || lexStableCB st))

/-- `wsrespell <hex text>`: the decidable hypothesis `wsRespellable` of the lexical step of C11 (SqlProofs/WsRespell) on the token list of
the text.  Answer: `ok <0|1> <one digit per token>` (first digit: the whole list is white-space respellable; then the verdict of every
token, in order), or `err <PyErr>` if lexing fails. -/
def cmdWsRespell (s : Array Nat) : String :=
  match lex defaultCfg s with
  | .error e => "err " ++ e.name
  | .ok ts =>
    let d (b : Bool) : String := if b then "1" else "0"
    "ok " ++ d (wsRespellable ts) ++ " " ++ String.join ((wsCertBits (defaultCfg.env (tokensText ts).toArray) false 0 ts).map d)

/-- `wsrespellany <hex text>`: the decidable hypothesis `wsRespellableAny` of the LENGTH-CHANGING lexical step of C11 (SqlProofs/WsRespell/Squeeze*):
the certificate on the squeezed token list (every run of white-space tokens = one blank).  Answer: `ok <0|1> <one digit per token of the squeezed
list>`, or `err <PyErr>`.  `wsclass` lists, per rule of the table, whether it is in the run class (`1`) or not (`0`). -/
def cmdWsRespellAny (s : Array Nat) : String :=
  match lex defaultCfg s with
  | .error e => "err " ++ e.name
  | .ok ts =>
    let d (b : Bool) : String := if b then "1" else "0"
    let cs := squeezeToks ts
    "ok " ++ d (wsRespellableAny ts) ++ " " ++ String.join ((wsCertAnyBits (defaultCfg.env (tokensText cs).toArray) false 0 cs).map d)

def cmdWsClass : String :=
  "ok " ++ String.join (defaultCfg.rules.map fun r => if classRe r.re then "1" else "0")

/-- `gapcert <hex text>`: per-boundary certificate `gapFree` (SqlProofs/WsRespell/Gap*.lean) for adding/removing white space between two
consecutive significant tokens.  Answer: `ok <one digit per boundary>` (boundary j lies between significant tokens j and j+1), or `err <PyErr>`. -/
def cmdGapCert (s : Array Nat) : String :=
  match lex defaultCfg s with
  | .error e => "err " ++ e.name
  | .ok ts => "ok " ++ String.join ((gapBits ts).map fun b => if b then "1" else "0")

/-- `lexwork <hex text>`: the cost model of the whole scan loop (SqlModel/LexCost.lean, bounded by `C16.lex_work_poly`).
Answer: `ok <lexWork> <text length> <number of tokens>` (three decimal numbers), or `err <PyErr>` if lexing fails. -/
def cmdLexWork (s : Array Nat) : String :=
  match lex defaultCfg s with
  | .error e => "err " ++ e.name
  | .ok ts => s!"ok {lexWork defaultCfg s} {s.size} {ts.length}"

/-- `csl <isCreate> <beginDepth> <inCase> <type.path> <hex value>` → `delta isCreate beginDepth inCase inDeclare` -/
def cmdCsl (ws : List String) : String :=
  match ws with
  | ic :: bd :: ica :: tt :: rest =>
    let f : SplitFlags := { isCreate := ic == "1", beginDepth := bd.toNat!, inCase := ica.toNat! }
    let (d, f') := changeSplitLevel defaultSplitCfg f (parseTType tt) (parseText rest).toList
    s!"{d} {if f'.isCreate then 1 else 0} {f'.beginDepth} {f'.inCase} {if f'.inDeclare then 1 else 0}"
  | _ => "bad-request"

-- >>> grouping commands (parse / group) ---------------------------------------------------------
/-- `parse <fuel> <hex text>` → `ok <sexp> <sexp> …` (one `( Statement … )` per statement) or `err <PyErr>` -/
def cmdParse (ws : List String) : String :=
  match ws with
  | fuel :: rest =>
    match parseTrees fuel.toNat! (parseText rest) with
    | .error e => "err " ++ e.name
    | .ok ns => "ok" ++ sexpL ns
  | [] => "bad-request"

/-- `group <fuel> <sexp>`: the argument is either one `( Statement child … )` or the bare children of a
statement; answers `ok ( Statement … )` after `grouping.group`, or `err <PyErr>` -/
def cmdGroup (ws : List String) : String :=
  match ws with
  | fuel :: rest =>
    match parseNodes (rest.filter (· ≠ "")) with
    | none => "bad-request"
    | some ns =>
      let kids := match ns with
        | [.grp .Statement ks] => ks
        | _ => ns
      match group fuel.toNat! kids with
      | .error e => "err " ++ e.name
      | .ok ks => "ok " ++ (Node.grp .Statement ks).sexp
  | [] => "bad-request"
-- <<< grouping commands --------------------------------------------------------------------------

/-- `quiet <hex text>`: lex one statement body and evaluate the hypotheses of the C05/C17 unit theorems on its tokens:
`ok <quiet> <headNotEos> <level> <isCreate> <beginDepth> <inCase>` -/
def cmdQuiet (s : Array Nat) : String :=
  match lex defaultCfg s with
  | .error e => "err " ++ e.name
  | .ok ts =>
    let r := runFL defaultSplitCfg {} 0 ts
    s!"ok {quiet defaultSplitCfg {} 0 ts} {headNotEos defaultSplitCfg ts} {r.snd} {r.fst.isCreate} {r.fst.beginDepth} {r.fst.inCase}"

/-- `hdrok <hex text>`: the syntactic header hypothesis of `C17.create_one_statement_syntactic_header` on the tokens before the
first BEGIN keyword: `ok <first token is of kind create> <hdrOK of the tokens between> <number of header tokens>` -/
def cmdHdrOk (s : Array Nat) : String :=
  match lex defaultCfg s with
  | .error e => "err " ++ e.name
  | .ok ts =>
    let hdr := ts.takeWhile (fun t => !(kindIs defaultSplitCfg t .begin_))
    match hdr with
    | [] => "ok false false 0"
    | c :: hs => s!"ok {kindIs defaultSplitCfg c .create} {hdrOK defaultSplitCfg 0 hs} {hdr.length}"

/-- `views <hex text>`: the splitter's view (SqlProofs/SplitValue.lean `tokView`) of every non-whitespace token -/
def cmdViews (s : Array Nat) : String :=
  match lex defaultCfg s with
  | .error e => "err " ++ e.name
  | .ok ts =>
    "ok " ++ " ".intercalate ((ts.filter (fun t => !t.isWhitespace)).map fun t =>
      let v := Sql.tokView defaultSplitCfg t
      s!"{showTT v.1}|{repr v.2.1}|{v.2.2.1}|{v.2.2.2}".replace " " "_")

/-- `leadhyp <hex text>`: for every statement of lexer ∘ splitter, the hypothesis of `leading_kw_survives` and the `get_type()` the theorem
predicts: `ok <0|1>:<hex of predicted type or -> …` -/
def cmdLeadHyp (s : Array Nat) : String :=
  match lexSplit s with
  | .error e => "err " ++ e.name
  | .ok sts =>
    "ok " ++ " ".intercalate (sts.map fun st =>
      let hyp := Sql.LeadHyp kwNorm st
      let pred := match st.dropWhile Sql.skipTok with
        | k :: _ => ",".intercalate ((kwNorm k.val).map hexOf)
        | [] => "-"
      s!"{if hyp then 1 else 0}:{pred}")

-- >>> skel command ----------------------------------------------------------------------------
/-- `skel <fuel> <hex text>` → `ok <sexp> …`: the parsed statements without their whitespace leaves, or `err <PyErr>` -/
def cmdWsSkel (ws : List String) : String :=
  match ws with
  | fuel :: rest =>
    match parseTrees fuel.toNat! (parseText rest) with
    | .error e => "err " ++ e.name
    | .ok ns => "ok" ++ sexpL (ns.map Sql.Node.skel)
  | [] => "bad-request"
/-- `wsdomain <fuel> <hex text>`: for every statement of lexer ∘ splitter
`<noCommentTok><noAssignTok><WsDomain>:<c>` (0/1 each) where `c` is `1` when grouping the statement and grouping its
non-whitespace tokens give the same tree up to whitespace leaves, `0` when they differ, `e` when either fails -/
def cmdWsDomain (ws : List String) : String :=
  match ws with
  | fuel :: rest =>
    let fuel := fuel.toNat!
    match lexSplit (parseText rest) with
    | .error e => "err " ++ e.name
    | .ok sts =>
      "ok " ++ " ".intercalate (sts.map fun st =>
        let b := fun (x : Bool) => if x then "1" else "0"
        let c := match Sql.groupStatement fuel st, Sql.groupStatement fuel (Sql.skelToks st) with
          | .ok n, .ok n' => if sexpL [n.skel] == sexpL [n'] then "1" else "0"
          | _, _ => "e"
        s!"{b (Sql.noCommentTok st)}{b (Sql.noAssignTok st)}{b (Sql.WsDomain kwNorm fuel st)}:{c}")
  | [] => "bad-request"
-- <<< skel command ----------------------------------------------------------------------------

-- >>> delimsafe command -----------------------------------------------------------------------
/-- `delimsafe <hex text>`: for every statement of lexer ∘ splitter `<DelimSafe>:<delimShape of the model's grouped
tree, or e on error>` (0/1 each) -/
def cmdDelimSafe (s : Array Nat) : String :=
  match lexSplit s with
  | .error e => "err " ++ e.name
  | .ok sts =>
    "ok " ++ " ".intercalate (sts.map fun st =>
      let safe := Sql.DelimSafe st
      let shape := match Sql.group 200 (Sql.flatStatement st) with
        | .ok ks => if Sql.delimShapeL kwNorm ks then "1" else "0"
        | .error _ => "e"
      s!"{if safe then 1 else 0}:{shape}")
-- <<< delimsafe command -----------------------------------------------------------------------

-- >>> reindentsafe command --------------------------------------------------------------------
/-- `reindentsafe <hex text>`: for every statement of lexer ∘ splitter `<ReindentSafe>:<FilterSafe.reindent of the model's
grouped tree, or e on error>` (0/1 each) -/
def cmdReindentSafe (s : Array Nat) : String :=
  match lexSplit s with
  | .error e => "err " ++ e.name
  | .ok sts =>
    "ok " ++ " ".intercalate (sts.map fun st =>
      let safe := Sql.ReindentSafe st
      let dom := match Sql.groupStatement 200 st with
        | .ok tree => if Sql.FilterSafe.reindent false (Sql.FNode.ofNode tree) then "1" else "0"
        | .error _ => "e"
      s!"{if safe then 1 else 0}:{dom}")
-- <<< reindentsafe command --------------------------------------------------------------------

/-- `skelcheck`: evaluate the C12 skeleton table (19 contexts × 30 reference forms) with the compiled model:
`ok <number of skeletons whose check is true> <number of skeletons> <hex texts of failing skeletons …>` -/
def cmdSkelCheck : String :=
  let sks := Sql.Acc.contexts.flatMap Sql.Acc.skelsOf
  let bad := sks.filter (fun sk => !Sql.Acc.skelCheck sk)
  s!"ok {sks.length - bad.length} {sks.length}" ++ String.join (bad.map fun sk => " " ++ ",".intercalate (sk.text.map hexOf))

/-- `skeltexts`: the statement texts of the table, one comma-joined hex text per skeleton (for the oracle on the real code) -/
def cmdSkelTexts : String :=
  "ok " ++ " ".intercalate ((Sql.Acc.contexts.flatMap Sql.Acc.skelsOf).map fun sk =>
    ",".intercalate (sk.text.map hexOf) ++ "|" ++ (match sk.qual with | none => "-" | some q => ",".intercalate (q.map hexOf)) ++ "|" ++
    ",".intercalate (sk.name.map hexOf) ++ "|" ++ (match sk.alias with | none => "-" | some a => ",".intercalate (a.map hexOf)))

/-- `clausecheck`: evaluate the C13 clause table with the compiled model: `ok <passing> <total> <hex texts of failing skeletons …>`
(for a pinned skeleton "passing" means: decided NOT canonical) -/
def cmdClauseCheck : String :=
  let sks := Sql.Acc.clauseSkels
  let bad := sks.filter (fun sk => !Sql.Acc.clauseCheck sk)
  s!"ok {sks.length - bad.length} {sks.length}" ++ String.join (bad.map fun sk => " " ++ ",".intercalate (sk.text.map hexOf))

/-- `clausetexts`: `kind|pinned|text|target|item;item;…` per skeleton (hex, comma-joined code points) -/
def cmdClauseTexts : String :=
  let hx (t : Text) : String := if t.isEmpty then "-" else ",".intercalate (t.map hexOf)
  "ok " ++ " ".intercalate (Sql.Acc.clauseSkels.map fun sk =>
    let k := match sk.kind with
      | .identList => "identList" | .params => "params" | .cases => "cases" | .comparison => "comparison" | .typedLiteral => "typedLiteral"
    s!"{k}|{if sk.pinned then 1 else 0}|{hx sk.text}|{hx sk.target}|" ++ ";".intercalate (sk.items.map hx))

/-- `ctecheck`: evaluate the C18 CTE table with the compiled model: `ok <passing> <total> <hex texts of failing skeletons …>`
(for a pinned skeleton "passing" means: get_type() is decided NOT to be the demanded keyword) -/
def cmdCteCheck : String :=
  let sks := Sql.Acc.cteSkels
  let bad := sks.filter (fun sk => !Sql.Acc.cteCheck sk)
  s!"ok {sks.length - bad.length} {sks.length}" ++ String.join (bad.map fun sk => " " ++ ",".intercalate (sk.text.map hexOf))

/-- `ctetexts`: `pinned|text|want` per skeleton (hex, comma-joined code points) -/
def cmdCteTexts : String :=
  "ok " ++ " ".intercalate (Sql.Acc.cteSkels.map fun sk =>
    s!"{if sk.pinned then 1 else 0}|" ++ ",".intercalate (sk.text.map hexOf) ++ "|" ++ ",".intercalate (sk.want.map hexOf))

/-- `skelcheck2` / `skeltexts2`: as `skelcheck` / `skeltexts`, for the second context list of the C12 table (`contexts2`, 7 x 30) -/
def cmdSkelCheck2 : String :=
  let sks := Sql.Acc.contexts2.flatMap Sql.Acc.skelsOf
  let bad := sks.filter (fun sk => !Sql.Acc.skelCheck sk)
  s!"ok {sks.length - bad.length} {sks.length}" ++ String.join (bad.map fun sk => " " ++ ",".intercalate (sk.text.map hexOf))

def cmdSkelTexts2 : String :=
  "ok " ++ " ".intercalate ((Sql.Acc.contexts2.flatMap Sql.Acc.skelsOf).map fun sk =>
    ",".intercalate (sk.text.map hexOf) ++ "|" ++ (match sk.qual with | none => "-" | some q => ",".intercalate (q.map hexOf)) ++ "|" ++
    ",".intercalate (sk.name.map hexOf) ++ "|" ++ (match sk.alias with | none => "-" | some a => ",".intercalate (a.map hexOf)))

/-- `lexbound`: coefficient and degree of the whole-lexer work bound of `lex_work_poly` for the current table, and the per-rule degrees -/
def cmdLexBound : String :=
  let b := Sql.lexPB defaultCfg.rules
  s!"ok {b.c} {b.d} " ++ ",".intercalate (defaultCfg.rules.map fun r => toString (Sql.rulePB r).d)

-- >>> bookkeeping (heap) command ---------------------------------------------------------------
/-- `heap <leaf> … # <op> …`: leaf = comma-joined hex code points (`-` = empty); op = `self:Class:start:stop:includeEnd:extend`.
Answers `ok <result> … | <object> …` with result = id of `grp` or the exception name, object = `id:parent:kids:Class:value`.
`heapt …` (`withT`): the leaves have type `Name`, an op may also be `t:self:idx:Ttype` (`tlist[idx].ttype = Ttype`, dotted path; result
`T` or the exception name), and every object is printed with a sixth field, its `ttype` (`-` = none). -/
def cmdHeap (withT : Bool) (ws : List String) : String :=
  let ws := ws.filter (· ≠ "")
  let leaves := ws.takeWhile (· ≠ "#")
  let ops := (ws.dropWhile (· ≠ "#")).drop 1
  let pv (w : String) : Text := if w == "-" then [] else (w.splitOn ",").map parseHexWord
  let h0 := if withT then BK.mkStatementT (leaves.map fun w => ⟨T.Name, pv w⟩) else BK.mkStatement (leaves.map pv)
  let pop (w : String) : Option (BK.HOp × Bool) :=
    match w.splitOn ":" with
    | [a, c, b, e, i, x] =>
      match Cls.ofName? c with
      | some cls => some (.group ⟨a.toNat!, cls, b.toNat!, e.toNat!, i == "1", x == "1"⟩, false)
      | none => none
    | ["t", a, b, tt] => if withT then some (.setType a.toNat! b.toNat! (tt.splitOn "."), true) else none
    | _ => none
  match ops.mapM pop with
  | none => "bad-request"
  | some os =>
    let (h, rs) := BK.runHOps (fun h i => BK.strF h 100000 i) h0 (os.map (·.1))
    let sv (t : Text) : String := if t.isEmpty then "-" else ",".intercalate (t.map hexDigits)
    let so (i : Nat) : String :=
      let o := h.obj i
      let p := match o.parent with | none => "-" | some p => toString p
      let k := match o.kids with | none => "L" | some [] => "E" | some ks => ".".intercalate (ks.map toString)
      let base := s!"{i}:{p}:{k}:{o.cls.name}:{sv o.value}"
      if withT then base ++ ":" ++ (if o.ttype.isEmpty then "-" else ".".intercalate o.ttype) else base
    "ok " ++ " ".intercalate ((rs.zip (os.map (·.2))).map fun (r, isT) =>
        match r with | .ok g => if isT then "T" else toString g | .error e => e.name) ++ " | " ++
      " ".intercalate ((List.range h.size).map so)
-- <<< bookkeeping command -------------------------------------------------------------------------

def handle (line : String) : String :=
  match (line.trimRight.splitOn " ") with
  | "re" :: rest => cmdRe (parseText rest)
  | "lex" :: rest => cmdLex (parseText rest)
  | "split" :: rest => cmdSplit (parseText rest)
  | "lexstable" :: rest => cmdLexStable false (parseText rest)
  | "lexstable2" :: rest => cmdLexStable true (parseText rest)
  | "lexwork" :: rest => cmdLexWork (parseText rest)
  | "wsrespell" :: rest => cmdWsRespell (parseText rest)
  | "gapcert" :: rest => cmdGapCert (parseText rest)
  | "wsrespellany" :: rest => cmdWsRespellAny (parseText rest)
  | "wsclass" :: _ => cmdWsClass
  | "csl" :: rest => cmdCsl rest
  | "quiet" :: rest => cmdQuiet (parseText rest)
  | "hdrok" :: rest => cmdHdrOk (parseText rest)
  | "views" :: rest => cmdViews (parseText rest)
  | "parse" :: rest => cmdParse rest
  | "group" :: rest => cmdGroup rest
  | "heap" :: rest => cmdHeap false rest
  | "heapt" :: rest => cmdHeap true rest
  | "skelcheck" :: _ => cmdSkelCheck
  | "lexbound" :: _ => cmdLexBound
  | "skeltexts" :: _ => cmdSkelTexts
  | "clausecheck" :: _ => cmdClauseCheck
  | "clausetexts" :: _ => cmdClauseTexts
  | "ctecheck" :: _ => cmdCteCheck
  | "ctetexts" :: _ => cmdCteTexts
  | "skelcheck2" :: _ => cmdSkelCheck2
  | "skeltexts2" :: _ => cmdSkelTexts2
  | "leadhyp" :: rest => cmdLeadHyp (parseText rest)
  | "delimsafe" :: rest => cmdDelimSafe (parseText rest)
  | "reindentsafe" :: rest => cmdReindentSafe (parseText rest)
  | "skel" :: rest => cmdWsSkel rest
  | "wsdomain" :: rest => cmdWsDomain rest
  | "acc" :: rest => Sql.Driver.cmdAcc rest   -- accessors (SqlModel/AccDriver.lean), stream S-ACC
  -- >>> formatting-side commands (SqlModel/FilterDriver.lean)
  | "opt" :: rest => Sql.Driver.cmdOpt rest
  | "tokfilter" :: rest => Sql.Driver.cmdTokFilter rest
  | "treefilter" :: rest => Sql.Driver.cmdTreeFilter rest
  | "serialize" :: rest => Sql.Driver.cmdSerialize rest
  | "sertext" :: rest => Sql.Driver.cmdSerText rest
  | "caseconv" :: rest => Sql.Driver.cmdCaseConv rest
  | "fmtstmt" :: rest => Sql.Driver.cmdFmtStmt rest
  | "fmt" :: rest => Sql.Driver.cmdFmt rest
  | "filtersafe" :: rest => Sql.Driver.cmdFilterSafe rest
  | "liftok" :: rest => Sql.Driver.cmdLiftOk rest
  -- <<< formatting-side commands
  | _ => "bad-request"

partial def loop (h : IO.FS.Stream) (out : IO.FS.Stream) : IO Unit := do
  let line ← h.getLine
  if line.isEmpty then return ()
  out.putStrLn (handle line)
  loop h out

def main : IO Unit := do
  let out ← IO.getStdout
  loop (← IO.getStdin) out
