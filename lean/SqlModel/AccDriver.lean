import SqlModel.KwNorm
import SqlModel.Accessors
import SqlModel.Sexp
import SqlModel.Default
/-!
# SqlModel.AccDriver — the `acc` command of the line-protocol driver (stream S-ACC)

`acc <sexp of one statement>` answers one line of blank-separated items.  For every node in pre-order:

* `@<path>:<Class>` (`-` for a leaf), `w=<hex mask of the classes c with within(c)>`,
  `anc=`/`chd=` the pre-order numbers of the nodes `o` with `has_ancestor(o)` / `is_child_of(o)` (`-` if none);
* for groups: `fl` flatten, `sl` get_sublists, `tf` token_first under the four flag pairs, `rn al nm pn ha`
  (get_real_name, get_alias, get_name, get_parent_name, has_alias), `fn` `_get_first_name` under 32 argument
  combinations, the class-specific accessors (`ty off | wc tc or ai | ids | par win | cs0 cs1 | l r | ml`),
  and for every index `i ∈ 0 … len+1` and `None`: `x<i>=` token_index (three `start`s) `;` token_next (four flag
  pairs) `;` token_prev (four flag pairs).

Values: `N` None, `T`/`F`, `s<hex.hex…>` strings, `e<Exception>` raised, `/i/j` paths, `[p,p]` lists.
The Python twin is `acc_line` in tools/streams.py.
-/
namespace Sql
namespace Driver
open _root_.Sql.Acc

def accPath (p : Path) : String := "/" ++ "/".intercalate (p.map toString)

def accText (t : Text) : String := "s" ++ ".".intercalate (t.map hexDigits)

def accOptText : Option Text → String
  | none => "N"
  | some t => accText t

def accBool (b : Bool) : String := if b then "T" else "F"

def accExc {α : Type} (f : α → String) : Except PyErr α → String
  | .ok a => f a
  | .error e => "e" ++ e.name

def accList (xs : List String) : String := "[" ++ ",".intercalate xs ++ "]"

def accOptIdx : Option (Nat × Node) → String
  | none => "N"
  | some (i, _) => toString i

def accNums (xs : List Nat) : String := if xs.isEmpty then "-" else ",".intercalate (xs.map toString)

def accClsOrder : List Cls :=
  [Cls.Statement, .Identifier, .IdentifierList, .TypedLiteral, .Parenthesis, .SquareBrackets, .Assignment,
   .If, .For, .Comparison, .Comment, .Where, .Over, .Having, .Case, .Function, .Begin, .Operation, .Values,
   .Command, .TokenList]

def accFlagPairs : List (Bool × Bool) := [(true, false), (true, true), (false, false), (false, true)]

mutual
/-- all nodes in pre-order with their paths -/
def accWalk : Node → Path → List (Path × Node)
  | .tok tt v, p => [(p, .tok tt v)]
  | .grp c ks, p => (p, .grp c ks) :: accWalkL ks p 0
def accWalkL : List Node → Path → Nat → List (Path × Node)
  | [], _, _ => []
  | k :: ks, p, i => accWalk k (p ++ [i]) ++ accWalkL ks p (i + 1)
end

def accCase (p : Path) (e : CaseEntry) : String :=
  let f (xs : List (Nat × Node)) := accList (xs.map fun x => accPath (p ++ [x.1]))
  "(" ++ (match e.cond with | none => "N" | some c => f c) ++ ";" ++ f e.val ++ ")"

/-- the items of one group node -/
def accGroup (root : Node) (p : Path) (c : Cls) (ks : List Node) : List String := Id.run do
  let up := kwNorm
  let abs (q : Path) := accPath (p ++ q)
  let mut out : List String := []
  out := out ++ ["fl=" ++ accList ((flattenPathsL ks p 0).map accPath)]
  out := out ++ ["sl=" ++ accList ((getSublists ks).map fun x => abs [x.1])]
  out := out ++ ["tf=" ++ ",".intercalate (accFlagPairs.map fun (w, m) => accOptIdx (tokenFirstIdx ks w m))]
  out := out ++ ["rn=" ++ accExc accOptText (getRealName up c ks)]
  out := out ++ ["al=" ++ accExc accOptText (getAlias up c ks)]
  out := out ++ ["nm=" ++ accExc accOptText (getName up c ks)]
  out := out ++ ["pn=" ++ accExc accOptText (getParentName up ks)]
  out := out ++ ["ha=" ++ accExc accBool (hasAlias up c ks)]
  let mut fn : List String := []
  for idx in [none, some 0, some 1, some 2] do
    for rev in [false, true] do
      for kw in [false, true] do
        for rl in [false, true] do
          fn := fn ++ [accExc accOptText (getFirstName up ks idx rev kw rl)]
  out := out ++ ["fn=" ++ ",".intercalate fn]
  match c with
  | .Statement =>
    out := out ++ ["ty=" ++ accText (getType up ks)]
    if p.isEmpty then
      let leafPaths := (flattenPaths root []).toArray
      let n := (Node.textL ks).length
      let offs : List Int := (List.range (n + 3)).map fun (i : Nat) => Int.ofNat i - 1
      out := out ++ ["off=" ++ ",".intercalate (offs.map fun o =>
        match getTokenAtOffset ks o with
        | none => "N"
        | some (i, _) => match leafPaths[i]? with | some q => accPath q | none => "?")]
  | .Identifier =>
    out := out ++ ["wc=" ++ accBool (isWildcard up ks)]
    out := out ++ ["tc=" ++ accOptText (getTypecast up ks)]
    out := out ++ ["or=" ++ accOptText (getOrdering up ks)]
    out := out ++ ["ai=" ++ accList ((getArrayIndices ks).map fun (i, sub) =>
      accList (sub.map fun x => abs [i, x.1]))]
  | .IdentifierList =>
    out := out ++ ["ids=" ++ accList ((getIdentifiers up ks).map fun x => abs [x.1])]
  | .Function =>
    out := out ++ ["par=" ++ accExc (fun l => accList (l.map fun x => abs x.1)) (getParameters up ks)]
    out := out ++ ["win=" ++ accExc (fun x => match x with | none => "N" | some y => abs y.1) (getWindow up ks)]
  | .Case =>
    out := out ++ ["cs0=" ++ accExc (fun l => accList (l.map (accCase p))) (getCases up ks false)]
    out := out ++ ["cs1=" ++ accExc (fun l => accList (l.map (accCase p))) (getCases up ks true)]
  | .Comparison =>
    out := out ++ ["l=" ++ accExc (fun x => abs [x.1]) (comparisonLeft ks)]
    out := out ++ ["r=" ++ accExc (fun x => abs [x.1]) (comparisonRight ks)]
  | .Comment =>
    out := out ++ ["ml=" ++ (match isMultiline ks with | none => "L" | some b => accBool b)]
  | _ => pure ()
  let nav (idx : Option Nat) : String :=
    ",".intercalate (accFlagPairs.map fun (w, m) => accOptIdx (tokenNextO ks idx w m)) ++ ";" ++
    ",".intercalate (accFlagPairs.map fun (w, m) => accExc accOptIdx (tokenPrevO ks idx w m))
  for i in List.range (ks.length + 2) do
    let ix := ",".intercalate ([0, i, i + 1].map fun st => accExc toString (tokenIndex ks i st))
    out := out ++ ["x" ++ toString i ++ "=" ++ ix ++ ";" ++ nav (some i)]
  out := out ++ ["xN=" ++ nav none]
  return out

def accLine (root : Node) : String := Id.run do
  let nodes := accWalk root []
  let paths := nodes.map (·.1)
  let numbered := (List.range paths.length).zip paths
  let mut out : Array String := #[]
  for (p, n) in nodes do
    let cn := match n with | .grp c _ => c.name | .tok .. => "-"
    out := out.push ("@" ++ accPath p ++ ":" ++ cn)
    let mask := accClsOrder.foldl (fun (acc : Nat × Nat) c =>
      (if within c root p then acc.1 + acc.2 else acc.1, acc.2 * 2)) (0, 1)
    out := out.push ("w=" ++ hexDigits mask.1)
    out := out.push ("anc=" ++ accNums ((numbered.filter fun x => hasAncestor p x.2).map (·.1)))
    out := out.push ("chd=" ++ accNums ((numbered.filter fun x => isChildOf p x.2).map (·.1)))
    match n with
    | .grp c ks => out := out ++ (accGroup root p c ks).toArray
    | .tok .. => pure ()
  return " ".intercalate out.toList

/-- `acc <sexp of one statement>` -/
def cmdAcc (ws : List String) : String :=
  match parseNodes (ws.filter (· ≠ "")) with
  | some [n] => accLine n
  | _ => "bad-request"

end Driver
end Sql
