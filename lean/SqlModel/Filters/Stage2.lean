import SqlModel.Options
import SqlModel.Filters.StripComments
import SqlModel.Filters.StripWhitespace
import SqlModel.Filters.Spaces
import SqlModel.Filters.Serializer
import SqlModel.Filters.Output
/-!
# SqlModel.Filters.Stage2 — running a `FilterPlan` on one statement (the tail of `FilterStack.run`)

`for filter_ in stmtprocess: filter_.process(stmt)`, `for filter_ in postprocess: stmt = filter_.process(stmt)`,
where `sqlparse.format` has appended `SerializerUnicode` to `postprocess`.  The filter *objects* live as long as the
stack, so an output filter's `count` is the 1-based index of the statement within the run.
`ReindentFilter` and `AlignedIndentFilter` are stage 3 (not modelled yet): `run?` answers `none` for them.
`RightMarginFilter.process` raises `NotImplementedError` in the source.
-/
namespace Sql

def PreFilter.run : PreFilter → List Tok → Except PyErr (List Tok)
  | .keywordCase c, ts => .ok (keywordCaseFilter c ts)
  | .identifierCase c, ts => identifierCaseFilter c ts
  | .truncateString w ch, ts => truncateStringFilter w ch ts

/-- the preprocess chain on the lexer's token stream -/
def runPreprocess : List PreFilter → List Tok → Except PyErr (List Tok)
  | [], ts => .ok ts
  | f :: fs, ts =>
    match f.run ts with
    | .error e => .error e
    | .ok ts' => runPreprocess fs ts'

def StmtFilter.run? : StmtFilter → Option (Nat → FNode → Except PyErr FNode)
  | .spacesAroundOperators => some Sql.spacesAroundOperators
  | .stripComments => some Sql.stripComments
  | .stripWhitespace => some Sql.stripWhitespace
  | .rightMargin _ => some (fun _ _ => .error .notImplemented)
  | .reindent .. => none
  | .alignedIndent _ => none

/-- the stmtprocess chain; `none` when the plan contains a stage-3 filter -/
def runStmtprocess : List StmtFilter → Nat → FNode → Option (Except PyErr FNode)
  | [], _, n => some (.ok n)
  | f :: fs, fuel, n =>
    match f.run? with
    | none => none
    | some g =>
      match g fuel n with
      | .error e => some (.error e)
      | .ok n' => runStmtprocess fs fuel n'

def sqlVar : Text := [115, 113, 108]          -- 'sql', the default `varname`

def PostFilter.run (count : Nat) : PostFilter → FNode → FNode
  | .outputPython => Sql.outputPython count sqlVar
  | .outputPHP => Sql.outputPHP count (36 :: sqlVar)

/-- stmtprocess, postprocess and the serializer on the `count`-th statement of a `format()` run -/
def formatStmt (p : FilterPlan) (count fuel : Nat) (stmt : FNode) : Option (Except PyErr Text) :=
  match runStmtprocess p.stmtprocess fuel stmt with
  | none => none
  | some (.error e) => some (.error e)
  | some (.ok n) => some (.ok (serialize (p.postprocess.foldl (fun n f => f.run count n) n)))

end Sql
