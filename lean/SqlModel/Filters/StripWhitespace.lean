import SqlModel.Filters.FNode
/-!
# SqlModel.Filters.StripWhitespace — `StripWhitespaceFilter` of filters/others.py

Children first (`depth + 1`), then the handler chosen by the lower-cased class name
(`_stripws_identifierlist`, `_stripws_parenthesis`, otherwise `_stripws_default`), then at `depth == 0` one
trailing whitespace token is popped.  The default handler does not delete whitespace tokens: it overwrites their
value with `' '` or `''` (so empty-valued tokens stay in the tree).  `tokens[1]` / `tokens[-2]` /
`tokens[-2].tokens[-1]` raise `IndexError` when the list is too short.
-/
namespace Sql

/-- `_stripws_default` -/
def stripwsDefaultGo : Bool → Bool → List FNode → List FNode
  | _, _, [] => []
  | lastWasWs, isFirst, k :: rest =>
    (match k with
     | .tok tt v => if tt.isIn T.Whitespace then .tok tt (if lastWasWs || isFirst then [] else [32]) else .tok tt v
     | g => g) :: stripwsDefaultGo k.isWhitespace false rest

def stripwsDefault (ks : List FNode) : List FNode := stripwsDefaultGo false true ks

/-- `token.ttype is T.Punctuation and token.value == ','` -/
def isComma : FNode → Bool
  | .tok tt v => tt == T.Punctuation && v == [44]
  | .grp .. => false

/-- the loop of `_stripws_identifierlist`: a whitespace token directly followed (in the snapshot) by a comma is removed -/
def dropWsBeforeComma : List FNode → List FNode
  | [] => []
  | a :: rest =>
    if a.isWhitespace && (match rest with
                           | b :: _ => isComma b
                           | [] => false)
    then dropWsBeforeComma rest
    else a :: dropWsBeforeComma rest

def stripwsIdentifierList (ks : List FNode) : List FNode := stripwsDefault (dropWsBeforeComma ks)

/-- drop trailing whitespace tokens -/
def dropTrailingWs (ks : List FNode) : List FNode := (ks.reverse.dropWhile FNode.isWhitespace).reverse

/-- `_stripws_parenthesis` -/
def stripwsParenthesis (ks : List FNode) : Except PyErr (List FNode) :=
  match ks with
  | [] => .error .indexError                                  -- `tokens[1]`
  | first :: tl =>
    -- while tlist.tokens[1].is_whitespace: tlist.tokens.pop(1)
    match tl.dropWhile FNode.isWhitespace with
    | [] => .error .indexError                                -- `tokens[1]` on a one-element list
    | t1 :: tl1 =>
      let all := first :: t1 :: tl1
      let last := (t1 :: tl1).getLast?.getD t1
      -- while tlist.tokens[-2].is_whitespace: tlist.tokens.pop(-2)
      match (dropTrailingWs all.dropLast).reverse with
      | [] => .error .indexError                              -- `tokens[-2]` on a one-element list
      | pen :: revInit =>
        -- if tlist.tokens[-2].is_group: while tlist.tokens[-2].tokens[-1].is_whitespace: …pop(-1)
        match pen with
        | .grp c cv gks =>
          (match dropTrailingWs gks with
           | [] => .error .indexError                         -- `tokens[-1]` on an empty list
           | gks' => .ok (stripwsDefault (revInit.reverse ++ [.grp c cv gks', last])))
        | .tok .. => .ok (stripwsDefault (revInit.reverse ++ [pen, last]))

/-- `_stripws`: dispatch on `type(tlist).__name__.lower()` -/
def stripwsDispatch (c : Cls) (ks : List FNode) : Except PyErr (List FNode) :=
  match c with
  | .IdentifierList => .ok (stripwsIdentifierList ks)
  | .Parenthesis => stripwsParenthesis ks
  | _ => .ok (stripwsDefault ks)

/-- `if depth == 0 and stmt.tokens and stmt.tokens[-1].is_whitespace: stmt.tokens.pop(-1)` -/
def popTrailingWs (ks : List FNode) : List FNode :=
  match ks.getLast? with
  | some l => if l.isWhitespace then ks.dropLast else ks
  | none => ks

def stripwsLevel (depth : Nat) (c : Cls) (ks : List FNode) : Except PyErr (List FNode) :=
  match stripwsDispatch c ks with
  | .error e => .error e
  | .ok ks' => .ok (if depth == 0 then popTrailingWs ks' else ks')

/-- `StripWhitespaceFilter().process(stmt)` -/
def stripWhitespace (fuel : Nat) (stmt : FNode) : Except PyErr FNode := bottomUp stripwsLevel fuel 0 stmt

end Sql
