import SqlModel.Filters.FNode
/-!
# SqlModel.Filters.StripWhitespace — `StripWhitespaceFilter` of filters/others.py

Children first (`depth + 1`), then the handler chosen by the lower-cased class name
(`_stripws_identifierlist`, `_stripws_parenthesis`, otherwise `_stripws_default`), then at `depth == 0` one
trailing whitespace token is popped.  The default handler does not delete whitespace tokens: it overwrites their
value with `' '` or `''` (so empty-valued tokens stay in the tree).  Since repo commit 4e9e704 the loops over `tokens[1]` /
`tokens[-2]` are guarded by `len(tokens) > 2`; `tokens[-2].tokens[-1]` still raises `IndexError` when the last-but-one child
is a group that consists of whitespace only.
-/
namespace Sql

/-- `_stripws_default` -/
def stripwsDefaultGo : Bool → Bool → List FNode → List FNode
  | _, _, [] => []
  | lastWasWs, isFirst, k :: rest =>
    (match k with
     | .tok tt v => if tt.isIn T.Whitespace then .tok tt (if lastWasWs || isFirst then [] else [32]) else .tok tt v
     | g => g) :: stripwsDefaultGo k.isWhitespace false rest

def stripwsDefault (ks : List FNode) : List FNode := stripwsDefaultGo false true ks

/-- `token.ttype is T.Punctuation and token.value == ','` -/
def isComma : FNode → Bool
  | .tok tt v => tt == T.Punctuation && v == [44]
  | .grp .. => false

/-- the loop of `_stripws_identifierlist`: a whitespace token directly followed (in the snapshot) by a comma is removed -/
def dropWsBeforeComma : List FNode → List FNode
  | [] => []
  | a :: rest =>
    if a.isWhitespace && (match rest with
                           | b :: _ => isComma b
                           | [] => false)
    then dropWsBeforeComma rest
    else a :: dropWsBeforeComma rest

def stripwsIdentifierList (ks : List FNode) : List FNode := stripwsDefault (dropWsBeforeComma ks)

/-- drop trailing whitespace tokens -/
def dropTrailingWs (ks : List FNode) : List FNode := (ks.reverse.dropWhile FNode.isWhitespace).reverse

/-- `while len(l) > k and l[0] is whitespace: l.pop(0)` with `k = 1`: drop leading elements satisfying `p` as long as
another element follows -/
def popLeadBy {α : Type} (p : α → Bool) : List α → List α
  | [] => []
  | b :: tl =>
    match tl with
    | [] => [b]
    | _ :: _ => if p b then popLeadBy p tl else b :: tl

/-- `while len(tokens) > 2 and tokens[1].is_whitespace: tokens.pop(1)` -/
def trimAfterFirstBy {α : Type} (p : α → Bool) : List α → List α
  | [] => []
  | first :: tl => first :: popLeadBy p tl

/-- `while len(tokens) > 2 and tokens[-2].is_whitespace: tokens.pop(-2)` (the same loop seen from the other end) -/
def trimBeforeLastBy {α : Type} (p : α → Bool) (l : List α) : List α := (trimAfterFirstBy p l.reverse).reverse

/-- both loops of `_stripws_parenthesis` -/
def trimInsideBy {α : Type} (p : α → Bool) (l : List α) : List α := trimBeforeLastBy p (trimAfterFirstBy p l)

/-- `if len(tokens) > 1 and tokens[-2].is_group: while tokens[-2].tokens[-1].is_whitespace: tokens[-2].tokens.pop(-1)`;
a group whose children are all whitespace (or that has none) is emptied and `tokens[-1]` raises IndexError -/
def trimPenGroup (l : List FNode) : Except PyErr (List FNode) :=
  match l.reverse with
  | last :: .grp c cv gks :: revInit =>
    (match dropTrailingWs gks with
     | [] => .error .indexError
     | g0 :: grest => .ok (revInit.reverse ++ [.grp c cv (g0 :: grest), last]))
  | _ => .ok l

/-- `_stripws_parenthesis` (as of repo commit 4e9e704: the two outer loops are guarded by `len(tokens) > 2`, the group test by
`len(tokens) > 1`) -/
def stripwsParenthesis (ks : List FNode) : Except PyErr (List FNode) :=
  match trimPenGroup (trimInsideBy FNode.isWhitespace ks) with
  | .error e => .error e
  | .ok l => .ok (stripwsDefault l)

/-- `_stripws`: dispatch on `type(tlist).__name__.lower()` -/
def stripwsDispatch (c : Cls) (ks : List FNode) : Except PyErr (List FNode) :=
  match c with
  | .IdentifierList => .ok (stripwsIdentifierList ks)
  | .Parenthesis => stripwsParenthesis ks
  | _ => .ok (stripwsDefault ks)

/-- `if depth == 0 and stmt.tokens and stmt.tokens[-1].is_whitespace: stmt.tokens.pop(-1)` -/
def popTrailingWs (ks : List FNode) : List FNode :=
  match ks.getLast? with
  | some l => if l.isWhitespace then ks.dropLast else ks
  | none => ks

def stripwsLevel (depth : Nat) (c : Cls) (ks : List FNode) : Except PyErr (List FNode) :=
  match stripwsDispatch c ks with
  | .error e => .error e
  | .ok ks' => .ok (if depth == 0 then popTrailingWs ks' else ks')

/-- `StripWhitespaceFilter().process(stmt)` -/
def stripWhitespace (fuel : Nat) (stmt : FNode) : Except PyErr FNode := bottomUp stripwsLevel fuel 0 stmt

end Sql
