import SqlModel.Filters.FNode
import SqlModel.Filters.ReOps
/-!
# SqlModel.Filters.StripComments — `StripCommentsFilter` of filters/others.py

`process(stmt)` first processes every sub-group (a `sql.Comment` group included: the comments inside it are removed
or replaced there), then runs `_process` on the group's own children.  `_process` walks the children with
`token_next_by(i=sql.Comment, t=T.Comment, idx=tidx)`; the model walks them as a zipper `(done reversed, rest)`:
`done.head?` is `tokens[tidx-1]` (`token_prev(tidx, skip_ws=False)`) and `rest.head?` is `tokens[tidx+1]`.
Mirrored details:
* hints (`token.ttype in sql_hints`, a plain tuple ⇒ equality; or a `Comment` group whose first child is one) stay;
* the replacement token is computed from `token.value` — for a `Comment` group that is the **cached** text, which
  still contains the comments the recursion has just removed;
* a comment that is removed *without* a replacement (no predecessor, or predecessor `(`) shifts its successor to
  `tidx`, and the next search starts at `tidx + 1`: the successor is never examined (`'/*a*//*b*/'` keeps `/*b*/`);
* a comment between two non-blank tokens is replaced by one blank or its line break, but a comment that is the first
  child of its group is removed without replacement even if the previous leaf is in the parent (`select x/*c*/as y`).
-/
namespace Sql

/-- `_get_insert_token(token)`: `re.search(r'([\r\n]+) *$', token.value)` -/
def insertTokenFor (value : Text) : FNode :=
  let E := reEnv value.toArray
  match reSearch E Gen.insertRe 0 with
  | some (_, st) => .tok T.Newline ((groupText E st 1).getD [])
  | none => .tok T.Whitespace [32]

/-- `imt(tk, i=sql.Comment, t=T.Comment)` -/
def isCommentNode (n : FNode) : Bool := n.isInst .Comment || n.ttIn T.Comment

/-- the `is_sql_hint` decision -/
def isSqlHint : FNode → Bool
  | .tok tt _ => ttInArg tt Gen.sqlHints
  | .grp c _ ks =>
    c == .Comment &&
    (match ks with
     | k :: _ => k.ttInArg Gen.sqlHints
     | [] => false)

/-- the condition under which the comment is *removed* rather than replaced -/
def commentAtEdge (prev next : Option FNode) : Bool :=
  match prev, next with
  | some p, some n => p.isWhitespace || p.matchPunct 40 || n.isWhitespace || n.matchPunct 41
  | _, _ => true

/-- `StripCommentsFilter._process` on one child list -/
def stripCommentsGo : List FNode → List FNode → List FNode
  | done, [] => done.reverse
  | done, k :: rest =>
    if !isCommentNode k || isSqlHint k then stripCommentsGo (k :: done) rest
    else
      let prev := done.head?
      let replace := !commentAtEdge prev rest.head? ||
        (match prev with
         | some p => !p.matchPunct 40
         | none => false)
      if replace then stripCommentsGo (insertTokenFor k.value :: done) rest
      else
        -- removed; the element now at `tidx` is skipped by `get_next_comment(idx=tidx)`
        match rest with
        | [] => done.reverse
        | n :: rest' => stripCommentsGo (n :: done) rest'

def stripCommentsLevel (ks : List FNode) : List FNode := stripCommentsGo [] ks

/-- `StripCommentsFilter().process(stmt)` -/
def stripComments (fuel : Nat) (stmt : FNode) : Except PyErr FNode :=
  bottomUp (fun _ _ ks => .ok (stripCommentsLevel ks)) fuel 0 stmt

end Sql
