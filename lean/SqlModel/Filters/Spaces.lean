import SqlModel.Filters.FNode
/-!
# SqlModel.Filters.Spaces — `SpacesAroundOperatorsFilter` and `StripTrailingSemicolonFilter`

`_process` visits the children whose type **equals** `T.Operator` or `T.Operator.Comparison` (plain tuple) from left
to right.  For each: if the next child exists and `next_.ttype != T.Whitespace` (inequality — a `Newline` token or a
group counts as "not whitespace"), `insert_after(tidx, ' ')` puts a blank **before the next child that is not
`is_whitespace`** (or at the end); if the previous child exists and its type `!= T.Whitespace`, a blank goes directly
before the operator.  The model does this in one left-to-right pass: `pending` says that a blank is still owed
before the first non-`is_whitespace` child (whitespace children passed meanwhile cannot be operators, so the real
loop does not stop at them either), `prev` is `tokens[tidx-1]` of the list as modified so far.
-/
namespace Sql

def wsTok : FNode := .tok T.Whitespace [32]

/-- `imt(tk, t=(T.Operator, T.Comparison))` -/
def isSpaceOp (n : FNode) : Bool := n.ttInArg Gen.spaceOpTTypes

def spacesGo : Option FNode → Bool → List FNode → List FNode
  | _, pending, [] => if pending then [wsTok] else []
  | prev, pending, k :: rest =>
    if pending && k.isWhitespace then k :: spacesGo (some k) true rest
    else
      let pre := if pending then [wsTok] else []
      let prev' := if pending then some wsTok else prev
      if isSpaceOp k then
        let after := match rest with
          | n :: _ => n.ttNe T.Whitespace
          | [] => false
        let before := match prev' with
          | some p => p.ttNe T.Whitespace
          | none => false
        pre ++ (if before then [wsTok] else []) ++ k :: spacesGo (some k) after rest
      else pre ++ k :: spacesGo (some k) false rest

/-- the one-pass formulation relies on it: no operator type is a whitespace type (so the children skipped while a
blank is pending are never operators themselves) -/
theorem spaceOps_not_whitespace :
    (match Gen.spaceOpTTypes with
     | .exact tts => tts.all fun t => !t.isIn T.Whitespace
     | _ => false) = true := by decide

def spacesLevel (ks : List FNode) : List FNode := spacesGo none false ks

/-- `SpacesAroundOperatorsFilter().process(stmt)` -/
def spacesAroundOperators (fuel : Nat) (stmt : FNode) : Except PyErr FNode :=
  bottomUp (fun _ _ ks => .ok (spacesLevel ks)) fuel 0 stmt

/-- `StripTrailingSemicolonFilter().process(stmt)`: pops while the last child `is_whitespace` or has `.value == ';'`
(a group's cached value); no recursion -/
def stripTrailingSemicolonKids (ks : List FNode) : List FNode :=
  (ks.reverse.dropWhile fun k => k.isWhitespace || k.value == [59]).reverse

def stripTrailingSemicolon : FNode → FNode
  | .grp c cv ks => .grp c cv (stripTrailingSemicolonKids ks)
  | t => t

end Sql
