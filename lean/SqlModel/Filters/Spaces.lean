import SqlModel.Filters.FNode
/-!
# SqlModel.Filters.Spaces — `SpacesAroundOperatorsFilter` and `StripTrailingSemicolonFilter`

`_process` visits the children whose type **equals** `T.Operator` or `T.Operator.Comparison` (plain tuple) from left
to right.  For each: if the next child exists and is not `is_whitespace`, `insert_after(tidx, ' ')` puts a blank directly
after the operator (`insert_after` inserts before the next non-whitespace sibling, which here is the next child); if the
previous child exists and is not `is_whitespace`, a blank goes directly before the operator.  (Before repo commit f036566
the two tests were `ttype != T.Whitespace`, which treated a `Newline` token as "not whitespace" and made the filter
non-idempotent; the model follows the source.)  The model does this in one left-to-right pass; `prev` is
`tokens[tidx-1]` of the list as modified so far.
-/
namespace Sql

def wsTok : FNode := .tok T.Whitespace [32]

/-- `imt(tk, t=(T.Operator, T.Comparison))` -/
def isSpaceOp (n : FNode) : Bool := n.ttInArg Gen.spaceOpTTypes

/-- `prev_ and not prev_.is_whitespace` / `next_ and not next_.is_whitespace` -/
def needsBlank : Option FNode → Bool
  | some p => !p.isWhitespace
  | none => false

def spacesGo : Option FNode → List FNode → List FNode
  | _, [] => []
  | prev, k :: rest =>
    if isSpaceOp k then
      (if needsBlank prev then [wsTok] else []) ++
        k :: (if needsBlank rest.head? then wsTok :: spacesGo (some wsTok) rest else spacesGo (some k) rest)
    else k :: spacesGo (some k) rest

/-- no operator type is a whitespace type (so an inserted or existing whitespace child is never an operator) -/
theorem spaceOps_not_whitespace :
    (match Gen.spaceOpTTypes with
     | .exact tts => tts.all fun t => !t.isIn T.Whitespace
     | _ => false) = true := by decide

def spacesLevel (ks : List FNode) : List FNode := spacesGo none ks

/-- `SpacesAroundOperatorsFilter().process(stmt)` -/
def spacesAroundOperators (fuel : Nat) (stmt : FNode) : Except PyErr FNode :=
  bottomUp (fun _ _ ks => .ok (spacesLevel ks)) fuel 0 stmt

/-- `StripTrailingSemicolonFilter().process(stmt)`: pops while the last child `is_whitespace` or has `.value == ';'`
(a group's cached value); no recursion -/
def stripTrailingSemicolonKids (ks : List FNode) : List FNode :=
  (ks.reverse.dropWhile fun k => k.isWhitespace || k.value == [59]).reverse

def stripTrailingSemicolon : FNode → FNode
  | .grp c cv ks => .grp c cv (stripTrailingSemicolonKids ks)
  | t => t

end Sql
