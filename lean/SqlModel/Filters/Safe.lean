import SqlModel.Filters.StripWhitespace
import SqlModel.Filters.Reindent
import SqlModel.Filters.Aligned
/-!
# SqlModel.Filters.Safe — decidable domains on which the statement filters raise nothing but `RecursionError`

Each predicate reads off the error branches of the corresponding model function and follows the filter's own traversal
(so nodes the filter never reaches are not constrained).  `StripCommentsFilter` and `SpacesAroundOperatorsFilter` have no
error branch besides the recursion budget; the serializer and the output filters are total functions.
Proofs: `SqlProofs/FilterTotal.lean`.
-/
namespace Sql
namespace FilterSafe

/-! ## `StripWhitespaceFilter`: only `_stripws_parenthesis` indexes (`tokens[1]`, `tokens[-2]`, `tokens[-2].tokens[-1]`) -/

/-- what `_stripws_parenthesis` sees of a child: 0 = whitespace token, 1 = other leaf or a group with a non-whitespace child,
2 = a group whose children are all whitespace (or that has none) -/
def wsCode : FNode → Nat
  | .tok tt _ => if tt.isIn T.Whitespace then 0 else 1
  | .grp _ _ ks => if ks.any (fun k => !k.isWhitespace) then 1 else 2

/-- `_stripws_parenthesis` does not raise on a child list with these codes: after the two guarded loops have removed the
whitespace after the first and before the last child, the last but one child (if there are at least two children) is not a
group consisting of whitespace only (`tokens[-2].tokens[-1]` on an emptied list) -/
def parenCodesOK (codes : List Nat) : Bool :=
  match (trimInsideBy (· == 0) codes).reverse with
  | _ :: pen :: _ => pen != 2
  | _ => true

mutual
def stripws : FNode → Bool
  | .tok .. => true
  | .grp c _ ks => (c != .Parenthesis || parenCodesOK (ks.map wsCode)) && stripwsL ks
def stripwsL : List FNode → Bool
  | [] => true
  | k :: ks => stripws k && stripwsL ks
end

/-! ## `AlignedIndentFilter` -/

def hasSelect (ks : List FNode) : Bool := ks.any (·.matchP ⟨T.DML, some [[83, 69, 76, 69, 67, 84]]⟩)

/-- `cond[0] if cond else value[0]` exists -/
def caseItemOK (cv : Option TL × TL) : Bool :=
  match cv.1 with
  | some (_ :: _) => true
  | _ => !cv.2.isEmpty

/-- every child referred to by the cases is (still) a child: its tag is a tag of the list and is not the tag of inserted tokens -/
def caseTagsOK (tl : TL) (cases : List (Option TL × TL)) : Bool :=
  cases.all fun cv => ((cv.1.getD []) ++ cv.2).all fun e => e.1 != 0 && (tlIndex tl e.1).isSome

/-- `_process_case` of the aligned filter does not raise: `max(condition_width)` needs a case or an `END` child -/
def alignedCaseOK (ks : List FNode) : Bool :=
  match getCases true (tagAll ks) with
  | .error _ => false
  | .ok cases =>
    cases.all caseItemOK && caseTagsOK (tagAll ks) cases &&
      (!cases.isEmpty || (tagAll ks).any (fun e => e.2.matchKw "END"))

mutual
def aligned : FNode → Bool
  | .tok .. => true
  | .grp c _ ks =>
    match c with
    | .Parenthesis => !hasSelect ks || alignedL ks
    | .IdentifierList => ks.any (fun k => !(k.isWhitespace || k.matchPunct 44)) && alignedL ks
    | .Case => alignedCaseOK ks
    | _ => alignedL ks
def alignedL : List FNode → Bool
  | [] => true
  | k :: ks => aligned k && alignedL ks
end

/-! ## `ReindentFilter` -/

/-- `rEnsureWs` does not meet a child with value `','` at the very end -/
def ensureWsOK : List FNode → Bool
  | [] => true
  | k :: rest => (k.value != [44] || !rest.isEmpty) && ensureWsOK rest

/-- `_process_identifierlist`: there is a first identifier item and it has a leaf; inside a function or VALUES the
"ensure whitespace" loop must not find a trailing comma, and (sufficient, the exact condition depends on `wrap_after`,
`offset` and `_last_func`) a second item exists for `identifiers[0]` after the `pop(0)` -/
def idListOK (inFn : Bool) (ks : List FNode) : Bool :=
  match ks.filter isIdentifierItem with
  | [] => false
  | n0 :: rest => n0.hasLeaf && (!inFn || (ensureWsOK ks && !rest.isEmpty))

def caseBreakOK (cv : Option TL × TL) : Bool :=
  match cv.1 with
  | none => !cv.2.isEmpty
  | some c => !c.isEmpty

/-- `_process_case` of the reindent filter: there is a first case, its condition is not `None`, its first token and the first
child have a leaf -/
def reindentCaseOK (ks : List FNode) : Bool :=
  match getCases false (tagAll ks) with
  | .ok ((some ((t0, n0) :: _), _) :: restCases) =>
    n0.hasLeaf && (match ks with | k0 :: _ => k0.hasLeaf | [] => false) &&
      (match ks[t0 - 1]? with | some k => k.hasLeaf | none => false) &&
      restCases.all caseBreakOK && caseTagsOK (tagAll ks) restCases
  | _ => false

mutual
/-- `inFn`: some proper ancestor is a `Function` or a `Values` group (`tlist.within(...)`) -/
def reindent (inFn : Bool) : FNode → Bool
  | .tok .. => true
  | .grp c _ ks =>
    match c with
    | .Where => !ks.any (·.matchKw "WHERE") || reindentL inFn ks
    | .Parenthesis => !ks.any (·.matchAnyP Gen.Parenthesis_M_OPEN) || reindentL inFn ks
    | .Function => !ks.isEmpty && reindentL true ks
    | .IdentifierList => idListOK inFn ks && reindentL inFn ks
    | .Case => reindentCaseOK ks && reindentL inFn ks
    | .Values => ks.all fun k => !isParenNode k || k.hasLeaf
    | _ => reindentL inFn ks
def reindentL (inFn : Bool) : List FNode → Bool
  | [] => true
  | k :: ks => reindent inFn k && reindentL inFn ks
end

end FilterSafe
end Sql
