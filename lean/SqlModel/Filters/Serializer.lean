import SqlModel.Filters.FNode
import SqlModel.Filters.ReOps
/-!
# SqlModel.Filters.Serializer — `SerializerUnicode` = `utils.split_unquoted_newlines` + `rstrip` + `'\n'.join`

`SPLIT_REGEX.split(text)` yields between-pieces and matches alternately; empty pieces are skipped, a piece at which
`LINE_MATCH` matches (a line break that is not inside a quoted string as `SPLIT_REGEX` sees it) starts a new line,
every other piece is appended to the current line.  Lines are `rstrip()`ped with Unicode `str.isspace`.
-/
namespace Sql

/-- `LINE_MATCH.match(line)` is not `None` -/
def lineMatches (piece : Text) : Bool := (matchAt (reEnv piece.toArray) Gen.lineRe 0).isSome

/-- the loop over `lines` in `split_unquoted_newlines`; the output lines are kept reversed, current line first -/
def splitLinesGo : List Text → Text → List Text → List Text
  | revDone, cur, [] => (cur :: revDone).reverse
  | revDone, cur, piece :: rest =>
    if piece.isEmpty then splitLinesGo revDone cur rest
    else if lineMatches piece then splitLinesGo (cur :: revDone) [] rest
    else splitLinesGo revDone (cur ++ piece) rest

/-- `utils.split_unquoted_newlines(text)` -/
def splitUnquotedNewlines (t : Text) : List Text := splitLinesGo [] [] (reSplit Gen.splitRe t)

/-- `'\n'.join(parts)` -/
def joinNl : List Text → Text
  | [] => []
  | [l] => l
  | l :: rest => l ++ 10 :: joinNl rest

/-- `SerializerUnicode.process` on the statement's text (`str(stmt)` re-joins the leaves) -/
def serializeText (t : Text) : Text := joinNl ((splitUnquotedNewlines t).map pyRStrip)

def serialize (stmt : FNode) : Text := serializeText stmt.text

/-- precondition of `splitLoop`: `SPLIT_REGEX` never matches the empty string -/
theorem splitRe_nonempty : 1 ≤ minW Gen.splitRe := by decide

/-- precondition of `repAux` (no unbounded repetition with a nullable body) for the regexes used here -/
theorem filterRes_repBodiesOK :
    repBodiesOK Gen.splitRe = true ∧ repBodiesOK Gen.lineRe = true ∧ repBodiesOK Gen.insertRe = true := by decide

end Sql
