import SqlModel.Pipeline
import SqlModel.PyVal
import SqlModel.Filters.Case
import SqlModel.Generated.FilterTables
/-!
# SqlModel.Filters.Tokens — the preprocess filters of filters/tokens.py on the lexer's `(ttype, value)` stream

The Python filters are generators; the model returns the whole list, or the first exception the generator
would raise while being consumed.
-/
namespace Sql

/-- `ttype in X` for a lexer token: `X` a token type / list (hierarchical) or a plain tuple (equality) -/
def ttInArg (t : TType) : TArg → Bool
  | .none => false
  | .hier tts => tts.any t.isIn
  | .exact tts => tts.contains t

/-- `KeywordCaseFilter(case).process`: `ttype in T.Keyword` is hierarchical -/
def kwCaseTok (c : CaseConv) (t : Tok) : Tok :=
  if ttInArg t.tt Gen.kwCaseTT then ⟨t.tt, c.apply t.val⟩ else t

def keywordCaseFilter (c : CaseConv) (ts : List Tok) : List Tok := ts.map (kwCaseTok c)

/-- one step of `IdentifierCaseFilter.process`: `ttype in (T.Name, T.String.Symbol)` is tuple membership
(equality), and `value.strip()[0]` raises `IndexError` on an all-blank value -/
def idCaseTok (c : CaseConv) (t : Tok) : Except PyErr Tok :=
  if ttInArg t.tt Gen.idCaseTT then
    match pyStrip t.val with
    | [] => .error .indexError
    | q :: _ => .ok (if q != 34 then ⟨t.tt, c.apply t.val⟩ else t)
  else .ok t

def identifierCaseFilter (c : CaseConv) : List Tok → Except PyErr (List Tok)
  | [] => .ok []
  | t :: ts =>
    match idCaseTok c t with
    | .error e => .error e
    | .ok t' => (identifierCaseFilter c ts).map (t' :: ·)

/-- `v[a:-a]` for `a ∈ {1, 2}` (Python slice clamping: empty when the string is too short) -/
def sliceInner (a : Nat) (v : Text) : Text := (v.take (v.length - a)).drop a

/-- `inner[:w]` for an arbitrary Python int `w` -/
def takeInt (w : Int) (v : Text) : Text :=
  if w ≥ 0 then v.take w.toNat else v.take (v.length - (-w).toNat)

/-- one step of `TruncateStringFilter(width, char).process`; `''.join((quote, inner[:width], char, quote))`
raises `TypeError` when `char` is not a `str` (`truncate_char` is never validated) -/
def truncTok (width : Int) (char : PyVal) (t : Tok) : Except PyErr Tok :=
  if t.tt != T.StringSingle then .ok t
  else
    -- (repo fix 465bc40: exactly one delimiting quote on each side; a value starting with two quotes is no special case any more)
    let inner := sliceInner 1 t.val
    let quote : Text := [39]
    if (inner.length : Int) > width then
      match char with
      | .str ch => .ok ⟨t.tt, quote ++ takeInt width inner ++ ch ++ quote⟩
      | _ => .error .typeError
    else .ok t

def truncateStringFilter (width : Int) (char : PyVal) : List Tok → Except PyErr (List Tok)
  | [] => .ok []
  | t :: ts =>
    match truncTok width char t with
    | .error e => .error e
    | .ok t' => (truncateStringFilter width char ts).map (t' :: ·)

end Sql
