import SqlModel.Filters.Indent
/-!
# SqlModel.Filters.Reindent — `ReindentFilter` of filters/reindent.py

The filter walks the statement top-down (`_process` dispatches on the lower-cased class name), mutating child lists and
consulting two pieces of mutable state, `offset` and `indent` (changed by the context managers `offset(self, n)` /
`indent(self, n)`, which add on entry and subtract on normal exit), plus `_last_func` and `_last_stmt`, which survive
from one statement of a `format()` call to the next.  `_get_offset(token)` flattens the *whole current statement* up to
`token` and measures the last line of that text.  Because the walk is in document order and every mutation happens
before the walk descends past it, "the text of the current statement before this child" is the text of the already
processed part; the model threads it through the walk as `pre`.

Recursion is open: every level function takes the recursive call `rec` as a parameter, and `rProcess` ties the knot
by structural recursion on the fuel (one unit per `_process` call on a group; exhaustion is `RecursionError`).
-/
namespace Sql

structure RCfg where
  char : Text
  width : Int
  wrapAfter : Int
  commaFirst : Bool
  indentColumns : Bool
  compact : Bool
deriving Repr

/-- the mutable attributes of the filter object (`_last_func` as the `.value` it will be asked for) -/
structure RSt where
  offset : Int
  indent : Int
  lastFunc : Option Text
deriving Repr

def RSt.init (indentAfterFirst : Bool) : RSt := { offset := 0, indent := if indentAfterFirst then 1 else 0, lastFunc := none }

/-- `self.leading_ws` -/
def rLeadingWs (cfg : RCfg) (st : RSt) : Int := st.offset + st.indent * cfg.width

/-- `self.nl(offset)` -/
def rNl (cfg : RCfg) (st : RSt) (off : Int := 0) : FNode :=
  .tok T.Whitespace (10 :: repeatText cfg.char (max 0 (rLeadingWs cfg st + off)))

/-- `self._get_offset(ks[idx])`, where `pre` is the text of the current statement before `ks`.
An addressed group without leaves makes the generator `_flatten_up_to_token` raise StopIteration ⇒ RuntimeError. -/
def rGetOffset (cfg : RCfg) (st : RSt) (pre : Text) (ks : List FNode) (idx : Nat) : Except PyErr Int :=
  match ks[idx]? with
  | none => .error .indexError
  | some k =>
    if !k.hasLeaf then .error .runtimeError
    else
      let line := lastLineOf (pre ++ FNode.textL (ks.take idx))
      .ok ((line.length : Int) - (cfg.char.length : Int) * max 0 (rLeadingWs cfg st))

abbrev RRec := List Cls → Text → RSt → FNode → Except PyErr (FNode × RSt)

/-- `for sgroup in tlist.get_sublists(): self._process(sgroup)`, threading the text before each child -/
def rMapKids (rec : Text → RSt → FNode → Except PyErr (FNode × RSt)) :
    Text → RSt → List FNode → Except PyErr (List FNode × RSt)
  | _, st, [] => .ok ([], st)
  | pre, st, k :: rest =>
    match rec pre st k with
    | .error e => .error e
    | .ok (k', st1) =>
      match rMapKids rec (pre ++ k'.text) st1 rest with
      | .error e => .error e
      | .ok (rest', st2) => .ok (k' :: rest', st2)

/-! ## `_split_statements`, `_split_kwds` -/

/-- `_split_statements`: before every DML/DDL keyword child that has a predecessor, the predecessor is dropped if it is
whitespace and a line break is inserted -/
def rSplitStatementsGo (nl : FNode) : List FNode → List FNode → List FNode
  | done, [] => done.reverse
  | done, k :: rest =>
    if k.ttInArg Gen.reindentStmtTTypes then
      match done with
      | [] => rSplitStatementsGo nl [k] rest
      | p :: done' => rSplitStatementsGo nl (k :: nl :: (if p.isWhitespace then done' else p :: done')) rest
    else rSplitStatementsGo nl (k :: done) rest

def rIsSplit (n : FNode) : Bool := n.matchKwRe Gen.reindentSplitRes

/-- body of the `while` loop of `_split_kwds` (`str(None)` is `'None'`, so a keyword without predecessor gets a break) -/
def rEmitKwd (nl : FNode) (done : List FNode) (k : FNode) : List FNode :=
  match done with
  | [] => [k, nl]
  | p :: done' =>
    let done1 := if p.isWhitespace then done' else p :: done'
    if endsWithNl p.text then k :: done1 else k :: nl :: done1

def rSplitKwds (nl : FNode) (ks : List FNode) : List FNode := splitKwdsGo rIsSplit (rEmitKwd nl) 0 [] ks

/-- `_process_default(tlist, stmts)` -/
def rDefault (cfg : RCfg) (rec : RRec) (anc : List Cls) (pre : Text) (st : RSt) (stmts : Bool) (ks : List FNode) :
    Except PyErr (List FNode × RSt) :=
  let nl := rNl cfg st
  let ks1 := if stmts then rSplitStatementsGo nl [] ks else ks
  rMapKids (rec anc) pre st (rSplitKwds nl ks1)

/-! ## the per-class handlers -/

/-- `_process_where` -/
def rWhere (cfg : RCfg) (rec : RRec) (anc : List Cls) (pre : Text) (st : RSt) (ks : List FNode) :
    Except PyErr (List FNode × RSt) :=
  match ks.findIdx? (·.matchKw "WHERE") with
  | none => .ok (ks, st)
  | some i =>
    match rDefault cfg rec anc pre { st with indent := st.indent + 1 } true (insertAt ks i (rNl cfg st)) with
    | .error e => .error e
    | .ok (ks', st') => .ok (ks', { st' with indent := st'.indent - 1 })

/-- `_process_parenthesis` -/
def rParenthesis (cfg : RCfg) (rec : RRec) (anc : List Cls) (pre : Text) (st : RSt) (ks : List FNode) :
    Except PyErr (List FNode × RSt) :=
  let isDml := ks.any (·.ttInArg Gen.reindentParenTTypes)
  match ks.findIdx? (·.matchAnyP Gen.Parenthesis_M_OPEN) with
  | none => .ok (ks, st)
  | some fidx =>
    let d : Int := if isDml then 1 else 0
    let st1 := { st with indent := st.indent + d }
    let ks1 := if isDml then rNl cfg st1 :: ks else ks
    let fidx1 := if isDml then fidx + 1 else fidx
    match rGetOffset cfg st1 pre ks1 fidx1 with
    | .error e => .error e
    | .ok off =>
      match rDefault cfg rec anc pre { st1 with offset := st1.offset + (off + 1) } (!isDml) ks1 with
      | .error e => .error e
      | .ok (ks', st') => .ok (ks', { st' with offset := st'.offset - (off + 1), indent := st'.indent - d })

/-- `_process_function` -/
def rFunction (cfg : RCfg) (rec : RRec) (anc : List Cls) (pre : Text) (st : RSt) (ks : List FNode) :
    Except PyErr (List FNode × RSt) :=
  match ks with
  | [] => .error .indexError
  | k0 :: _ => rDefault cfg rec anc pre { st with lastFunc := some k0.value } true ks

/-- `get_identifiers`: children that are neither whitespace nor a `,` -/
def isIdentifierItem (n : FNode) : Bool := !(n.isWhitespace || n.matchPunct 44)

/-- the wrapping loop of `_process_identifierlist` outside functions/VALUES; `off` is `self.offset` inside the `with` -/
def rIdListLoopA (cfg : RCfg) (st : RSt) : Int → TL → TL → TL
  | _, tl, [] => tl
  | position, tl, (tag, n) :: rest =>
    let position1 := position + (n.value.length : Int) + 1
    if position1 > cfg.wrapAfter - st.offset then
      match tlIndex tl tag with
      | none => rIdListLoopA cfg st position1 tl rest
      | some idx =>
        if cfg.commaFirst then
          match prevIdxBefore (fun e => !tlWs e) tl idx with
          | none => rIdListLoopA cfg st position1 tl rest              -- `continue`: position is not reset
          | some cidx =>
            let tl1 := insertAt tl cidx (0, rNl cfg st (-2))            -- the "comma" is now at cidx + 1
            let tl2 := match tl1[cidx + 2]? with
              | some w => if w.2.ttNe T.Whitespace then insertAfterIdx tlWs tl1 (cidx + 1) (0, FNode.tok T.Whitespace [32]) else tl1
              | none => tl1
            rIdListLoopA cfg st 0 tl2 rest
        else rIdListLoopA cfg st 0 (insertAt tl idx (0, rNl cfg st 0)) rest
    else rIdListLoopA cfg st position1 tl rest

/-- `for token in tlist: … if token.value == ',' and not next_ws.is_whitespace: insert_after(token, ' ')`
(the list iterator runs over the growing list; an inserted blank is visited and ignored) -/
def rEnsureWs : TL → Except PyErr TL
  | [] => .ok []
  | (t, k) :: rest =>
    if k.value == [44] then
      match rest with
      | [] => .error .attributeError                                  -- `None.is_whitespace`
      | (_, n) :: _ =>
        match rEnsureWs rest with
        | .error e => .error e
        | .ok rest' => .ok (if n.isWhitespace then (t, k) :: rest' else (t, k) :: (0, FNode.tok T.Whitespace [32]) :: rest')
    else (rEnsureWs rest).map ((t, k) :: ·)

/-- the wrapping loop inside functions/VALUES -/
def rIdListLoopB (cfg : RCfg) (st : RSt) : Int → TL → TL → TL
  | _, tl, [] => tl
  | position, tl, (tag, n) :: rest =>
    let position1 := position + (n.value.length : Int) + 1
    if cfg.wrapAfter > 0 && position1 > cfg.wrapAfter - st.offset then
      match tlIndex tl tag with
      | none => rIdListLoopB cfg st position1 tl rest
      | some idx => rIdListLoopB cfg st 0 (insertAt tl idx (0, rNl cfg st 0)) rest
    else rIdListLoopB cfg st position1 tl rest

def sumValueLens (ids : TL) : Int := ids.foldl (fun a e => a + (e.2.value.length : Int) + 1) 0

/-- `if adjusted_offset < 0: tlist.insert_before(identifiers[0], self.nl())` -/
def rIdListFirstBreak (cfg : RCfg) (st1 : RSt) (adjusted : Int) (tl1 ids' : TL) : Except PyErr TL :=
  if adjusted < 0 then
    match ids' with
    | [] => .error .indexError
    | (tg, _) :: _ =>
      match tlIndex tl1 tg with
      | some i => .ok (insertAt tl1 i (0, rNl cfg st1))
      | none => .error .valueError
  else .ok tl1

/-- `_process_identifierlist` -/
def rIdentifierList (cfg : RCfg) (rec : RRec) (anc : List Cls) (pre : Text) (st : RSt) (ks : List FNode) :
    Except PyErr (List FNode × RSt) :=
  let tl := tagAll ks
  let ids := tl.filter (fun e => isIdentifierItem e.2)
  let isTab := cfg.char == [9]
  match ids with
  | [] => .error .indexError                                -- `identifiers[0]` / `identifiers.pop(0)`
  | (t0, n0) :: idsRest =>
    if !n0.hasLeaf then .error .stopIteration                -- `next(….flatten())`
    else
      let firstOff : Except PyErr (TL × Int) :=
        if cfg.indentColumns then .ok (ids, if isTab then 1 else cfg.width)
        else if isTab then .ok (idsRest, 1)
        else (rGetOffset cfg st pre ks (t0 - 1)).map fun o => (idsRest, o)
      match firstOff with
      | .error e => .error e
      | .ok (ids', numOffset) =>
        if !(anc.drop 1).contains .Function && !(anc.drop 1).contains .Values then
          let tl' := rIdListLoopA cfg { st with offset := st.offset + numOffset } 0 tl ids'
          rDefault cfg rec anc pre st true (untag tl')
        else
          match rEnsureWs tl with
          | .error e => .error e
          | .ok tl1 =>
            let endAt := st.offset + sumValueLens ids'
            let adjusted : Int :=
              match st.lastFunc with
              | some v => if cfg.wrapAfter > 0 && endAt > cfg.wrapAfter - st.offset then -(v.length : Int) - 1 else 0
              | none => 0
            let st1 := { st with offset := st.offset + adjusted, indent := st.indent + 1 }
            match rIdListFirstBreak cfg st1 adjusted tl1 ids' with
            | .error e => .error e
            | .ok tl2 => rDefault cfg rec anc pre st true (untag (rIdListLoopB cfg st1 0 tl2 ids'))

/-- text of a list of tagged children (`''.join(str(x) for x in …)`) -/
def tlText (tl : TL) : Text := FNode.textL (untag tl)

/-- `''.join(str(x) for x in cond or [])` -/
def condText (cond : Option TL) : Text :=
  match cond with
  | some c => tlText c
  | none => []

/-- `token = value[0] if cond is None else cond[0]`, as the tag of that child -/
def caseBreakTag (cond : Option TL) (value : TL) : Except PyErr Nat :=
  match cond with
  | none => (match value with | (t, _) :: _ => .ok t | [] => .error .indexError)
  | some c => (match c with | (t, _) :: _ => .ok t | [] => .error .indexError)

/-- the loop over the remaining cases in `_process_case` -/
def rCaseLoop (cfg : RCfg) (st : RSt) : TL → List (Option TL × TL) → Except PyErr TL
  | tl, [] => .ok tl
  | tl, (cond, value) :: rest =>
    if !cfg.compact && st.offset + 1 + ((condText cond).length : Int) + ((tlText value).length : Int) > cfg.wrapAfter then
      match caseBreakTag cond value with
      | .error e => .error e
      | .ok t =>
        match tlIndex tl t with
        | none => .error .valueError
        | some i => rCaseLoop cfg st (insertAt tl i (0, rNl cfg st)) rest
    else rCaseLoop cfg st tl rest

/-- `_process_case` -/
def rCase (cfg : RCfg) (rec : RRec) (anc : List Cls) (pre : Text) (st : RSt) (ks : List FNode) :
    Except PyErr (List FNode × RSt) :=
  let tl := tagAll ks
  match getCases false tl with
  | .error e => .error e
  | .ok [] => .error .stopIteration                           -- `next(iterable)`
  | .ok ((cond0, _) :: restCases) =>
    match cond0 with
    | none => .error .typeError                               -- `cond[0]` on None
    | some [] => .error .indexError
    | some ((t0, n0) :: _) =>
      if !n0.hasLeaf then .error .stopIteration
      else
        match rGetOffset cfg st pre ks 0 with
        | .error e => .error e
        | .ok off1 =>
          let st1 := { st with offset := st.offset + off1 }
          match rGetOffset cfg st1 pre ks (t0 - 1) with
          | .error e => .error e
          | .ok off2 =>
            let st2 := { st1 with offset := st1.offset + off2 }
            match rCaseLoop cfg st2 tl restCases with
            | .error e => .error e
            | .ok tl' =>
              match rDefault cfg rec anc pre { st2 with offset := st2.offset + 5 } true (untag tl') with
              | .error e => .error e
              | .ok (ks', st3) =>
                let st4 := { st3 with offset := st3.offset - 5 - off2 }
                let ks'' := match ks'.findIdx? (·.matchAnyP Gen.Case_M_CLOSE) with
                  | some i => if !cfg.compact then insertAt ks' i (rNl cfg st4) else ks'
                  | none => ks'
                .ok (ks'', { st4 with offset := st4.offset - off1 })

def isParenNode (n : FNode) : Bool := n.isInst .Parenthesis

/-- one round of the `while token:` loop of `_process_values`: the break at the next comma after the parenthesis at `tidx` -/
def rValuesStep (cfg : RCfg) (st : RSt) (pre : Text) (fidx : Nat) (ks : List FNode) (tidx : Nat) : Except PyErr (List FNode) :=
  match nextIdxFrom (·.matchPunct 44) ks (tidx + 1) with
  | none => .ok ks
  | some pidx =>
    if cfg.commaFirst then
      (rGetOffset cfg st pre ks fidx).map fun o => insertAt ks pidx (rNl cfg st (o - 2))
    else
      (rGetOffset cfg st pre ks tidx).map fun o => insertAfterIdx FNode.isWhitespace ks pidx (rNl cfg st o)

/-- the `while token:` loop of `_process_values`; `fuel` bounds the number of parenthesis children -/
def rValuesLoop (cfg : RCfg) (st : RSt) (pre : Text) (fidx : Nat) : Nat → List FNode → Nat → Except PyErr (List FNode)
  | 0, ks, _ => .ok ks
  | fuel+1, ks, tidx =>
    match rValuesStep cfg st pre fidx ks tidx with
    | .error e => .error e
    | .ok ks1 =>
      match nextIdxFrom isParenNode ks1 (tidx + 1) with
      | none => .ok ks1
      | some t' => rValuesLoop cfg st pre fidx fuel ks1 t'

/-- `_process_values` (the children are not processed any further) -/
def rValues (cfg : RCfg) (pre : Text) (st : RSt) (ks : List FNode) : Except PyErr (List FNode × RSt) :=
  let ks0 := rNl cfg st :: ks
  match nextIdxFrom isParenNode ks0 0 with
  | none => .ok (ks0, st)
  | some fidx => (rValuesLoop cfg st pre fidx (ks0.length + 1) ks0 fidx).map fun ks' => (ks', st)

/-- `_process(tlist)`: dispatch on `type(tlist).__name__.lower()`; `anc` is the class of `tlist` followed by the classes
of its ancestors (what the children are given; `tlist.within(cls)` looks at `anc.drop 1`) -/
def rDispatch (cfg : RCfg) (rec : RRec) (c : Cls) (anc : List Cls) (pre : Text) (st : RSt) (ks : List FNode) :
    Except PyErr (List FNode × RSt) :=
  match c with
  | .Where => rWhere cfg rec anc pre st ks
  | .Parenthesis => rParenthesis cfg rec anc pre st ks
  | .Function => rFunction cfg rec anc pre st ks
  | .IdentifierList => rIdentifierList cfg rec anc pre st ks
  | .Case => rCase cfg rec anc pre st ks
  | .Values => rValues cfg pre st ks
  | _ => rDefault cfg rec anc pre st true ks

/-- `self._process(node)`; `anc` are the classes of the proper ancestors of `node` inside the current statement
(`tlist.within(cls)` walks the `parent` chain), `pre` the text of the current statement before `node` -/
def rProcess (cfg : RCfg) : Nat → List Cls → Text → RSt → FNode → Except PyErr (FNode × RSt)
  | _, _, _, st, .tok tt v => .ok (.tok tt v, st)
  | 0, _, _, _, .grp .. => .error .recursionError
  | fuel+1, anc, pre, st, .grp c cv ks =>
    match rDispatch cfg (fun a p s n => rProcess cfg fuel a p s n) c (c :: anc) pre st ks with
    | .error e => .error e
    | .ok (ks', st') => .ok (.grp c cv ks', st')

/-- `ReindentFilter.process(stmt)`; `last` is `str(self._last_stmt)` as it reads when this statement is processed
(`none` for the first statement of the run) -/
def reindentProcess (cfg : RCfg) (fuel : Nat) (st : RSt) (last : Option Text) (stmt : FNode) :
    Except PyErr (FNode × RSt) :=
  match rProcess cfg fuel [] [] st stmt with
  | .error e => .error e
  | .ok (n, st') =>
    match n, last with
    | .grp c cv ks, some t =>
      .ok (.grp c cv (.tok T.Whitespace (if t.getLast? == some 10 then [10] else [10, 10]) :: ks), st')
    | n, _ => .ok (n, st')

end Sql
