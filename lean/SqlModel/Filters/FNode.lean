import SqlModel.Tree
import SqlModel.Filters.Tokens
/-!
# SqlModel.Filters.FNode — the token tree as the statement filters see it

A `TokenList`'s `.value` is a string **cached** when the group was built (`Token.__init__(None, str(self))`,
refreshed only by the extend branch of `group_tokens`), while `str(group)` re-joins the leaves.  The filters mutate
leaf values and insert/remove tokens without refreshing any cache, and some of them then *read* `.value` of a group:
`StripCommentsFilter._get_insert_token(token)` on a `sql.Comment` group whose comments the recursion has already
removed, `StripTrailingSemicolonFilter` (`tokens[-1].value == ';'`), and the output filters
(`"'" in token.value`, `sql.Token(T.Text, token.value)` for every top-level child).  `FNode` therefore carries the
cached value of each group explicitly; `FNode.ofNode` fills it with the current text (what `grouping.group` leaves
behind), `FNode.toNode` forgets it.

Leaf attributes cached by `Token.__init__` (`is_whitespace`, `is_keyword`, `normalized`) are functions of the type
and the *initial* value; the filters of this stage never change a type, and they overwrite values of
whitespace-typed leaves only, whose `normalized` nobody reads, so the model computes them from the current leaf.
-/
namespace Sql

inductive FNode where
  | tok (tt : TType) (val : Text)
  | grp (cls : Cls) (cached : Text) (kids : List FNode)
deriving Repr, Inhabited

namespace FNode

mutual
/-- `str(node)` -/
def text : FNode → Text
  | .tok _ v => v
  | .grp _ _ ks => textL ks
def textL : List FNode → Text
  | [] => []
  | k :: ks => k.text ++ textL ks
end

mutual
/-- a freshly grouped tree: every cache equals the text -/
def ofNode : Node → FNode
  | .tok tt v => .tok tt v
  | .grp c ks => .grp c (Node.textL ks) (ofNodeL ks)
def ofNodeL : List Node → List FNode
  | [] => []
  | k :: ks => ofNode k :: ofNodeL ks
end

mutual
def toNode : FNode → Node
  | .tok tt v => .tok tt v
  | .grp c _ ks => .grp c (toNodeL ks)
def toNodeL : List FNode → List Node
  | [] => []
  | k :: ks => toNode k :: toNodeL ks
end

/-- `token.value`: the leaf's value, a group's *cached* value -/
def value : FNode → Text
  | .tok _ v => v
  | .grp _ c _ => c

def isGroup : FNode → Bool | .grp .. => true | .tok .. => false
def isWhitespace : FNode → Bool | .tok tt _ => tt.isIn T.Whitespace | .grp .. => false

/-- `isinstance(token, cls)` for one of the concrete group classes -/
def isInst (n : FNode) (c : Cls) : Bool :=
  match n with
  | .grp k _ _ => c == .TokenList || k == c
  | .tok .. => false

/-- `token.ttype in tt` (hierarchical; a group's `ttype` is `None`) -/
def ttIn (n : FNode) (tt : TType) : Bool :=
  match n with
  | .tok t _ => t.isIn tt
  | .grp .. => false

/-- `token.ttype in X` for a generated type argument -/
def ttInArg (n : FNode) (a : TArg) : Bool :=
  match n with
  | .tok t _ => Sql.ttInArg t a
  | .grp .. => false

/-- `token.match(T.Punctuation, ch)` (type identity, then the value; punctuation is not a keyword) -/
def matchPunct (n : FNode) (ch : Cp) : Bool :=
  match n with
  | .tok t v => t == T.Punctuation && v == [ch]
  | .grp .. => false

/-- `token.ttype != tt` (a group's `None` differs from every type) -/
def ttNe (n : FNode) (tt : TType) : Bool :=
  match n with
  | .tok t _ => t != tt
  | .grp .. => true

end FNode

mutual
/-- the recursion scheme of every statement filter: `[self.process(sgroup) for sgroup in stmt.get_sublists()]`,
then the filter's own work on `stmt.tokens`.  `fuel` is the Python stack budget (one unit per `process` call on a
group), `depth` the `depth` argument of `StripWhitespaceFilter.process`.  The level function sees the class and the
children (already processed) and returns the new children; the group's cached value is left alone. -/
def bottomUp (f : Nat → Cls → List FNode → Except PyErr (List FNode)) (fuel depth : Nat) (n : FNode) :
    Except PyErr FNode :=
  match n with
  | .tok tt v => .ok (.tok tt v)
  | .grp c cv ks =>
    match fuel with
    | 0 => .error .recursionError
    | fuel'+1 =>
      match bottomUpL f fuel' (depth + 1) ks with
      | .error e => .error e
      | .ok ks' =>
        match f depth c ks' with
        | .error e => .error e
        | .ok ks'' => .ok (.grp c cv ks'')
termination_by structural n
/-- the list comprehension over `get_sublists()`, in order; the first exception wins -/
def bottomUpL (f : Nat → Cls → List FNode → Except PyErr (List FNode)) (fuel depth : Nat) (ns : List FNode) :
    Except PyErr (List FNode) :=
  match ns with
  | [] => .ok []
  | k :: rest =>
    match bottomUp f fuel depth k with
    | .error e => .error e
    | .ok k' =>
      match bottomUpL f fuel depth rest with
      | .error e => .error e
      | .ok rest' => .ok (k' :: rest')
termination_by structural ns
end

end Sql
