import SqlModel.Filters.Reindent
/-!
# SqlModel.Filters.Lift — the decidable predicates of the C10 reindent clause (whole tree)

Model-side definitions (so that the driver can evaluate them; the theorems about them are `SqlProofs/ReindentBreaks.lean`
and `SqlProofs/ReindentLift*.lean`):
* `kwStep` / `selectedOK`: the `_next_token` automaton and "every selected child satisfies `chk` of its previous sibling";
* `nlBefore`, `lineBreakBefore` (output side), `noBreakBefore`, `noWsBreakBefore` (input side);
* `rExempt`, `brkOK` (output tree), `liftSide`, `liftOK` (input tree: the side conditions of `reindent_statement_lift`);
* `idListSplit`: clause (3) of `liftSide` fails somewhere (a split keyword is a direct child of a processed IdentifierList:
  known finding KF-C10-8), and `liftReport`: both predicates along the statement filters of a `format()` run.
-/
namespace Sql

/-- a whitespace-typed leaf whose value starts with a line break: what `self.nl()` builds -/
def isNlTok : FNode → Bool
  | .tok tt v => tt.isIn T.Whitespace && v.head? == some 10
  | .grp .. => false

/-- the previous sibling is an `nl()` token -/
def nlBefore : Option FNode → Bool
  | some p => isNlTok p
  | none => false

/-- the previous sibling is an `nl()` token, or a non-whitespace sibling whose text ends in a line break -/
def lineBreakBefore : Option FNode → Bool
  | some p => isNlTok p || (!p.isWhitespace && endsWithNl p.text)
  | none => false

/-- one step of the `_next_token` automaton: new count of pending BETWEENs, and whether `k` is handed to `_split_kwds` -/
def kwStep (isSplit : FNode → Bool) (d : Nat) (k : FNode) : Nat × Bool :=
  if !isSplit k then (d, false)
  else if k.normIs "BETWEEN" then (d + 1, false)
  else if d > 0 && k.normIs "AND" then (d - 1, false)
  else (0, true)

/-- every child that `_next_token` selects satisfies `chk` of its previous sibling -/
def selectedOK (isSplit : FNode → Bool) (chk : Option FNode → Bool) : Nat → Option FNode → List FNode → Bool
  | _, _, [] => true
  | d, prev, k :: rest =>
    (!(kwStep isSplit d k).2 || chk prev) && selectedOK isSplit chk (kwStep isSplit d k).1 (some k) rest

/-- input side, weak: no selected keyword directly follows a *whitespace* child whose text ends in a line break
(`_split_kwds` deletes such a child and then, misled by `uprev`, inserts nothing) -/
def noWsBreakBefore : Option FNode → Bool
  | some p => !(p.isWhitespace && endsWithNl p.text)
  | none => true

/-- input side, strong: no selected keyword directly follows a child whose text ends in a line break -/
def noBreakBefore : Option FNode → Bool
  | some p => !endsWithNl p.text
  | none => true

/-- somewhere in the list an `nl()` token is directly followed by a `WHERE` keyword -/
def wherePaired : List FNode → Bool
  | a :: b :: r => (isNlTok a && b.matchKw "WHERE") || wherePaired (b :: r)
  | _ => false

/-- sub-trees `ReindentFilter` never looks into -/
def rExempt (c : Cls) (ks : List FNode) : Bool :=
  match c with
  | .Values => true
  | .Where => (ks.findIdx? (·.matchKw "WHERE")).isNone
  | .Parenthesis => (ks.findIdx? (·.matchAnyP Gen.Parenthesis_M_OPEN)).isNone
  | _ => false

/-- the `WHERE` of a Where group (not one of `split_words`; `_process_where` breaks the line in front of it) -/
def whereClause (c : Cls) (ks : List FNode) : Bool :=
  match c with
  | .Where => wherePaired ks
  | _ => true

mutual
/-- output side: every selected clause keyword of every processed list — and the `WHERE` of every Where group — directly follows
an `nl()` token -/
def brkOK : FNode → Bool
  | .tok .. => true
  | .grp c _ ks => rExempt c ks || (selectedOK rIsSplit nlBefore 0 none ks && whereClause c ks && brkOKL ks)
def brkOKL : List FNode → Bool
  | [] => true
  | k :: r => brkOK k && brkOKL r
end

/-- the tags of the children in front of which `_process_case` may put a line break: `cond[0]` / `value[0]` of every case but
the first -/
def caseTargets (ks : List FNode) : List Nat :=
  match getCases false (tagAll ks) with
  | .ok (_ :: rest) => rest.filterMap fun cv => (caseBreakTag cv.1 cv.2).toOption
  | _ => []

/-- none of those children is a split keyword -/
def caseTargetsOK (ks : List FNode) : Bool :=
  (caseTargets ks).all fun t => (tagAll ks).all fun e => !(e.1 == t) || !rIsSplit e.2

/-- the side condition of one group -/
def liftSide (c : Cls) (ks : List FNode) : Bool :=
  match c with
  | .IdentifierList => ks.all fun k => !rIsSplit k
  | .Parenthesis =>
    selectedOK rIsSplit noBreakBefore 0 none ks &&
      (!(ks.any (·.ttInArg Gen.reindentParenTTypes)) || (match ks with | k :: _ => !rIsSplit k | [] => true))
  | .Case => selectedOK rIsSplit noBreakBefore 0 none ks && caseTargetsOK ks
  | _ => selectedOK rIsSplit noBreakBefore 0 none ks

mutual
/-- input side -/
def liftOK : FNode → Bool
  | .tok .. => true
  | .grp c _ ks => rExempt c ks || (liftSide c ks && liftOKL ks)
def liftOKL : List FNode → Bool
  | [] => true
  | k :: r => liftOK k && liftOKL r
end

mutual
/-- clause (3) of `liftSide` fails somewhere: a processed IdentifierList has a split keyword as a direct child -/
def idListSplit : FNode → Bool
  | .tok .. => false
  | .grp c _ ks =>
    !rExempt c ks && ((match c with | .IdentifierList => ks.any rIsSplit | _ => false) || idListSplitL ks)
def idListSplitL : List FNode → Bool
  | [] => false
  | k :: r => idListSplit k || idListSplitL r
end

end Sql
