import SqlModel.Filters.Indent
/-!
# SqlModel.Filters.Aligned — `AlignedIndentFilter` of filters/aligned_indent.py

Same architecture as `Reindent.lean`: top-down walk with dispatch on the lower-cased class name, `offset`/`indent` as
explicit state, open recursion tied by `aProcess` on the fuel.  Peculiarities mirrored here:
* `_process_statement` pops a leading whitespace token (only when `indent == 0`) and then calls `_process` on a fresh
  `sql.TokenList` that *shares* the statement's token list — one more `_process` level (one more unit of fuel);
* `nl(x)` takes either an int offset or a string, in which case the offset is `-len(x)`;
* a parenthesis is touched only if it has a child `SELECT` (type `DML`), a `Case` group's children are not processed;
* `_process_case` appends `(None, [end_token])` to the cases; with no `END` child `end_token` is `None`, and
  `tlist.insert_before(None, …)` raises `ValueError` from `list.index`.
-/
namespace Sql

structure ASt where
  offset : Int
  indent : Int
deriving Repr

def ASt.init : ASt := { offset := 0, indent := 0 }

/-- `self.nl(offset)` with an int argument (default 1) -/
def aNl (char : Text) (st : ASt) (off : Int := 1) : FNode :=
  .tok T.Whitespace (10 :: repeatText char ((Gen.alignedMaxKwdLen : Int) + off + st.indent * (2 + (Gen.alignedMaxKwdLen : Int)) + st.offset))

/-- `self.nl(s)` with a string argument -/
def aNlStr (char : Text) (st : ASt) (s : Text) : FNode := aNl char st (-(s.length : Int))

abbrev ARec := ASt → FNode → Except PyErr (FNode × ASt)

def aIsSplit (n : FNode) : Bool := n.matchKwRe Gen.alignedSplitRes

/-- `value.split()[0]` (the value of a matched keyword is never blank) -/
def firstWord (v : Text) : Text := (v.dropWhile isSpace).takeWhile (fun c => !isSpace c)

/-- body of the `while` loop of `_split_kwds` -/
def aEmitKwd (char : Text) (st : ASt) (done : List FNode) (k : FNode) : List FNode :=
  let tokenIndent := if k.matchKwRe [Gen.alignedJoinRe] || k.matchKwRe [Gen.alignedByRe] then firstWord k.value else k.text
  k :: aNlStr char st tokenIndent :: done

def aSplitKwds (char : Text) (st : ASt) (ks : List FNode) : List FNode :=
  splitKwdsGo aIsSplit (aEmitKwd char st) 0 [] ks

/-- the loop over `get_sublists()` in `_process_default`: `offset += 3` while processing a group whose previous
non-whitespace sibling is `GROUP BY` / `ORDER BY` -/
def aKidsGo (rec : ARec) : ASt → List FNode → List FNode → Except PyErr (List FNode × ASt)
  | st, done, [] => .ok (done.reverse, st)
  | st, done, k :: rest =>
    if k.isGroup then
      let off : Int := match done.find? (fun p => !p.isWhitespace) with
        | some p => if p.matchKwRe [Gen.alignedByRe] then 3 else 0
        | none => 0
      match rec { st with offset := st.offset + off } k with
      | .error e => .error e
      | .ok (k', st') => aKidsGo rec { st' with offset := st'.offset - off } (k' :: done) rest
    else aKidsGo rec st (k :: done) rest

/-- `_process_default` -/
def aDefault (char : Text) (rec : ARec) (st : ASt) (ks : List FNode) : Except PyErr (List FNode × ASt) :=
  aKidsGo rec st [] (aSplitKwds char st ks)

/-- `_process_parenthesis` -/
def aParenthesis (char : Text) (rec : ARec) (st : ASt) (ks : List FNode) : Except PyErr (List FNode × ASt) :=
  if ks.any (·.matchP ⟨T.DML, some [[83, 69, 76, 69, 67, 84]]⟩) then
    let st1 := { st with indent := st.indent + 1 }
    match aDefault char rec st1 (insertAfterIdx FNode.isWhitespace ks 0 (aNlStr char st1 [83, 69, 76, 69, 67, 84])) with
    | .error e => .error e
    | .ok (ks', st2) =>
      let st3 := { st2 with indent := st2.indent - 1 }
      .ok (insertAt ks' (ks'.length - 1) (aNl char st3), st3)
  else .ok (ks, st)

/-- `[tlist.insert_before(token, self.nl()) for token in identifiers[1:]]` -/
def aBreakIdentifiers (nl : FNode) : Bool → List FNode → List FNode
  | _, [] => []
  | seenFirst, k :: rest =>
    if !(k.isWhitespace || k.matchPunct 44) then
      if seenFirst then nl :: k :: aBreakIdentifiers nl true rest else k :: aBreakIdentifiers nl true rest
    else k :: aBreakIdentifiers nl seenFirst rest

/-- `_process_identifierlist` -/
def aIdentifierList (char : Text) (rec : ARec) (st : ASt) (ks : List FNode) : Except PyErr (List FNode × ASt) :=
  if ks.any (fun k => !(k.isWhitespace || k.matchPunct 44)) then
    aDefault char rec st (aBreakIdentifiers (aNl char st) false ks)
  else .error .indexError                                  -- `identifiers.pop(0)` on an empty list

/-- `len(' '.join(map(str, cond)))` -/
def joinedWidth : TL → Nat
  | [] => 0
  | [e] => e.2.text.length
  | e :: rest => e.2.text.length + 1 + joinedWidth rest

def condWidth (c : Option TL) : Nat :=
  match c with
  | some l => joinedWidth l
  | none => 0

/-- `if i > 0: tlist.insert_before(stmt, self.nl(offset_ - len(str(stmt))))`; a `stmt` of `None` (no `END`) makes
`tokens.index(None)` raise ValueError -/
def aCaseBreak (char : Text) (st : ASt) (i : Nat) (tl : TL) (stmt : Option (Nat × FNode)) : Except PyErr TL :=
  if i > 0 then
    match stmt with
    | none => .error .valueError
    | some (t, n) =>
      match tlIndex tl t with
      | none => .error .valueError
      | some idx => .ok (insertAt tl idx (0, aNl char st (10 - (n.text.length : Int))))
  else .ok tl

/-- `if cond: tlist.insert_after(cond[-1], ws)` with the padding that aligns the `THEN`s -/
def aCasePad (char : Text) (maxW : Nat) (tl1 : TL) (cond : Option TL) : Except PyErr TL :=
  match cond with
  | some (c0 :: crest) =>
    match tlIndex tl1 ((c0 :: crest).getLast?.getD c0).1 with
    | none => .error .valueError
    | some idx =>
      .ok (insertAfterIdx tlWs tl1 idx
        (0, .tok T.Whitespace (repeatText char ((maxW : Int) - (joinedWidth (c0 :: crest) : Int)))))
  | _ => .ok tl1

/-- the loop of `_process_case`; the `stmt` of the appended END case is `none` when there is no `END` -/
def aCaseLoop (char : Text) (st : ASt) (maxW : Nat) : Nat → TL → List (Option TL × Option (Nat × FNode)) → Except PyErr TL
  | _, tl, [] => .ok tl
  | i, tl, (cond, stmt) :: rest =>
    match aCaseBreak char st i tl stmt with
    | .error e => .error e
    | .ok tl1 =>
      match aCasePad char maxW tl1 cond with
      | .error e => .error e
      | .ok tl2 => aCaseLoop char st maxW (i + 1) tl2 rest

/-- `stmt = cond[0] if cond else value[0]` -/
def aCaseStmtOf (cv : Option TL × TL) : Except PyErr (Option TL × Option (Nat × FNode)) :=
  match cv.1 with
  | some (c0 :: _) => .ok (cv.1, some c0)
  | _ => match cv.2 with
    | v0 :: _ => .ok (cv.1, some v0)
    | [] => .error .indexError

/-- the `(cond, stmt)` pairs the loop of `_process_case` visits: the cases, then `(None, [end_token])` if there is an `END`
child (repo commit e93eb2e; before it the entry was appended even with `end_token = None`) -/
def aCaseStmts (endTok : Option (Nat × FNode)) : List (Option TL × TL) → Except PyErr (List (Option TL × Option (Nat × FNode)))
  | [] => .ok (match endTok with
      | some e => [(none, some e)]
      | none => [])                       -- `if end_token is not None: cases.append((None, [end_token]))`
  | cv :: rest =>
    match aCaseStmtOf cv, aCaseStmts endTok rest with
    | .ok x, .ok xs => .ok (x :: xs)
    | .error e, _ => .error e
    | _, .error e => .error e

/-- `_process_case` -/
def aCase (char : Text) (st : ASt) (ks : List FNode) : Except PyErr (List FNode × ASt) :=
  let tl := tagAll ks
  match getCases true tl with
  | .error e => .error e
  | .ok cases =>
    let endTok := tl.find? (fun e => e.2.matchKw "END")
    let maxW := (cases.map fun cv => condWidth cv.1).foldl max 0
    -- `max(condition_width)` of an empty list: no case and no END child
    if cases.isEmpty && endTok.isNone then .error .valueError else
    match aCaseStmts endTok cases with
    | .error e => .error e
    | .ok items => (aCaseLoop char st maxW 0 tl items).map fun tl' => (untag tl', st)

/-- dispatch of `_process` for the classes other than `Statement` -/
def aDispatch (char : Text) (rec : ARec) (c : Cls) (st : ASt) (ks : List FNode) : Except PyErr (List FNode × ASt) :=
  match c with
  | .Parenthesis => aParenthesis char rec st ks
  | .IdentifierList => aIdentifierList char rec st ks
  | .Case => aCase char st ks
  | _ => aDefault char rec st ks

/-- `self._process(node)` -/
def aProcess (char : Text) : Nat → ASt → FNode → Except PyErr (FNode × ASt)
  | _, st, .tok tt v => .ok (.tok tt v, st)
  | 0, _, .grp .. => .error .recursionError
  | fuel+1, st, .grp c cv ks =>
    if c == .Statement then
      -- `_process_statement`: optional pop, then `self._process(sql.TokenList(tlist.tokens))`
      let ks1 := match ks with
        | k :: rest => if k.isWhitespace && st.indent == 0 then rest else ks
        | [] => ks
      match fuel with
      | 0 => .error .recursionError
      | fuel'+1 =>
        match aDefault char (fun s n => aProcess char fuel' s n) st ks1 with
        | .error e => .error e
        | .ok (ks', st') => .ok (.grp c cv ks', st')
    else
      match aDispatch char (fun s n => aProcess char fuel s n) c st ks with
      | .error e => .error e
      | .ok (ks', st') => .ok (.grp c cv ks', st')

/-- `AlignedIndentFilter(char).process(stmt)` -/
def alignedProcess (char : Text) (fuel : Nat) (st : ASt) (stmt : FNode) : Except PyErr (FNode × ASt) :=
  aProcess char fuel st stmt

end Sql
