import SqlModel.Filters.FNode
import SqlModel.Filters.ReOps
import SqlModel.Filters.Output
import SqlModel.Generated.IndentTables
import SqlModel.Generated.Tables
import SqlModel.KwNorm
/-!
# SqlModel.Filters.Indent — what `ReindentFilter` and `AlignedIndentFilter` share

* Python list operations by index (`insert`, `insert_after` with its `token_next(skip_ws=True)` search);
* *tagged* child lists: the filters keep references to child objects (`identifiers`, `cond[0]`, `tlist[-1]`) and look
  them up again with `token_index` (identity) after other tokens have been inserted; the model tags the original
  children `1, 2, …` and inserted tokens `0`, so `token_index` is "position of the tag";
* `Token.match` on `FNode` leaves, with and without `regex=True`;
* `Case.get_cases`;
* the `_next_token` / `_split_kwds` scan shared by both filters.
-/
namespace Sql

/-! ## lists by index -/

/-- `l.insert(i, x)` for `0 ≤ i` (an index beyond the end appends) -/
def insertAt {α : Type} (l : List α) (i : Nat) (x : α) : List α := l.take i ++ x :: l.drop i

/-- first index `≥ start` whose element satisfies `p` -/
def nextIdxFrom {α : Type} (p : α → Bool) (l : List α) (start : Nat) : Option Nat :=
  ((l.drop start).findIdx? p).map (· + start)

/-- largest index `< before` whose element satisfies `p` -/
def prevIdxBefore {α : Type} (p : α → Bool) (l : List α) (before : Nat) : Option Nat :=
  ((l.take before).reverse.findIdx? p).map fun j => min before l.length - 1 - j

/-- `tlist.insert_after(idx, x)` (`skip_ws=True`): before the next element after `idx` that is not whitespace, else append -/
def insertAfterIdx {α : Type} (isWs : α → Bool) (l : List α) (idx : Nat) (x : α) : List α :=
  match nextIdxFrom (fun a => !isWs a) l (idx + 1) with
  | some n => insertAt l n x
  | none => l ++ [x]

/-! ## tagged child lists -/

abbrev TL := List (Nat × FNode)

def tagFrom : Nat → List FNode → TL
  | _, [] => []
  | i, k :: ks => (i, k) :: tagFrom (i + 1) ks

/-- tag the children `1, 2, …` -/
def tagAll (ks : List FNode) : TL := tagFrom 1 ks

def untag (tl : TL) : List FNode := tl.map (·.2)

/-- `tlist.token_index(token)` for a child that is still in the list -/
def tlIndex (tl : TL) (tag : Nat) : Option Nat := tl.findIdx? (·.1 == tag)

def tlWs (e : Nat × FNode) : Bool := e.2.isWhitespace

/-! ## leaf tests -/

namespace FNode

mutual
/-- does `next(node.flatten())` succeed -/
def hasLeaf : FNode → Bool
  | .tok .. => true
  | .grp _ _ ks => hasLeafL ks
def hasLeafL : List FNode → Bool
  | [] => false
  | k :: ks => k.hasLeaf || hasLeafL ks
end

/-- `token.normalized` of a leaf (`kwNorm`: `' '.join(value.upper().split())` for keyword types) -/
def normalized : FNode → Text
  | .tok tt v => if tt.isIn T.Keyword then kwNorm v else v
  | .grp _ cv _ => cv

/-- `token.match(p.tt, p.values)` without `regex` -/
def matchP (n : FNode) (p : MPat) : Bool :=
  match n with
  | .grp .. => false
  | .tok t v =>
    if t != p.tt then false else
    match p.values with
    | none => true
    | some vs => if t.isIn T.Keyword then (vs.map pyUpper).contains (kwNorm v) else vs.contains v

def matchAnyP (n : FNode) (ps : List MPat) : Bool := ps.any n.matchP

/-- `token.match(T.Keyword, word)` for an upper-case ASCII word -/
def matchKw (n : FNode) (w : String) : Bool := n.matchP ⟨T.Keyword, some [w.toList.map Char.toNat]⟩

/-- `token.normalized == word` for a leaf -/
def normIs (n : FNode) (w : String) : Bool :=
  match n with
  | .tok .. => n.normalized == w.toList.map Char.toNat
  | .grp .. => false

/-- `token.match(T.Keyword, patterns, regex=True)`: type identity with `T.Keyword`, then `re.compile(v, IGNORECASE).search`
on `normalized` for any of the patterns (the patterns are generated with that flag) -/
def matchKwRe (n : FNode) (res : List Re) : Bool :=
  match n with
  | .grp .. => false
  | .tok t _ =>
    t == T.Keyword &&
    (let E := reEnv n.normalized.toArray
     res.any fun r => (reSearch E r 0).isSome)

end FNode

def endsWithNl (t : Text) : Bool :=
  match t.getLast? with
  | some c => c == 10 || c == 13
  | none => false

/-- `char * n` for a Python int `n` (empty when `n ≤ 0`) -/
def repeatText (t : Text) (n : Int) : Text := (List.replicate n.toNat t).flatten

/-- `(raw or '\n').splitlines()[-1]` -/
def lastLineOf (raw : Text) : Text :=
  (pySplitLines (if raw.isEmpty then [10] else raw)).getLast?.getD []

/-! ## `Case.get_cases` on a tagged child list -/

/-- append `x` to the condition (`toCond`) or value list of the last case; a `None` condition raises AttributeError -/
def caseAppend (toCond : Bool) (x : Nat × FNode) : List (Option TL × TL) → Except PyErr (List (Option TL × TL))
  | [] => .error .indexError
  | [(c, v)] =>
    if toCond then
      match c with
      | some cl => .ok [(some (cl ++ [x]), v)]
      | none => .error .attributeError
    else .ok [(c, v ++ [x])]
  | e :: rest => (caseAppend toCond x rest).map (e :: ·)

/-- the loop of `get_cases`; `mode`: 0 = `None`, 1 = CONDITION, 2 = VALUE -/
def getCasesGo (skipWs : Bool) : Nat → List (Option TL × TL) → TL → Except PyErr (List (Option TL × TL))
  | _, ret, [] => .ok ret
  | mode, ret, x :: rest =>
    let n := x.2
    if n.matchKw "CASE" then getCasesGo skipWs mode ret rest
    else if skipWs && n.ttIn T.Whitespace then getCasesGo skipWs mode ret rest
    else
      let (ret1, mode1) : List (Option TL × TL) × Nat :=
        if n.matchKw "WHEN" then (ret ++ [(some [], [])], 1)
        else if n.matchKw "THEN" then (ret, 2)
        else if n.matchKw "ELSE" then (ret ++ [(none, [])], 2)
        else if n.matchKw "END" then (ret, 0)
        else (ret, mode)
      let ret2 := if mode1 != 0 && ret1.isEmpty then [(some [], [])] else ret1
      if mode1 == 1 then
        match caseAppend true x ret2 with
        | .error e => .error e
        | .ok r => getCasesGo skipWs mode1 r rest
      else if mode1 == 2 then
        match caseAppend false x ret2 with
        | .error e => .error e
        | .ok r => getCasesGo skipWs mode1 r rest
      else getCasesGo skipWs mode1 ret2 rest

/-- `tlist.get_cases(skip_ws)` -/
def getCases (skipWs : Bool) (tl : TL) : Except PyErr (List (Option TL × TL)) := getCasesGo skipWs 1 [] tl

/-! ## the `_next_token` / `_split_kwds` scan

`_next_token` returns the next child that matches one of the split words, except that after `BETWEEN` it skips ahead
(recursively) and, if what it then finds is `AND`, skips once more.  Read as a left-to-right scan over the split
keywords with a counter `d` of pending `BETWEEN`s: `BETWEEN` increments `d`; with `d > 0` an `AND` is swallowed and
decrements `d`; any other split keyword is *emitted* (returned to `_split_kwds`) and resets `d`.  `emit done k` is what
the `while` body of `_split_kwds` does with an emitted keyword `k`, given the reversed list of the children before it;
it returns the new reversed prefix, `k` included.  Everything the body changes lies before `k`, so the scan goes on
with the untouched rest. -/
def splitKwdsGo (isSplit : FNode → Bool) (emit : List FNode → FNode → List FNode) :
    Nat → List FNode → List FNode → List FNode
  | _, done, [] => done.reverse
  | d, done, k :: rest =>
    if !isSplit k then splitKwdsGo isSplit emit d (k :: done) rest
    else if k.normIs "BETWEEN" then splitKwdsGo isSplit emit (d + 1) (k :: done) rest
    else if d > 0 && k.normIs "AND" then splitKwdsGo isSplit emit (d - 1) (k :: done) rest
    else splitKwdsGo isSplit emit 0 (emit done k) rest

end Sql
