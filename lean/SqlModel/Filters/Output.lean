import SqlModel.Filters.FNode
import SqlModel.Generated.Unicode
/-!
# SqlModel.Filters.Output — `OutputPythonFilter` / `OutputPHPFilter` of filters/output.py

`process(stmt)` replaces the statement's children by a flat list of new leaves that spell an assignment of the
statement text to a variable.  It iterates over the **top-level children** and emits `token.value` for each —
for a group that is the *cached* value, so whatever earlier filters did inside top-level groups is lost
(`format('select a  ,  b from t', strip_whitespace=True, output_format='python')` keeps the double blanks).
`has_nl` on the other hand is computed from `str(stmt)` (the current leaves).
`count` is the filter object's statement counter *after* the increment (1 for the first statement).
-/
namespace Sql

/-- `str.splitlines()` (keepends=False): boundaries from the generated set, `\r\n` is one boundary
(`afterCR`: the previous character was a `\r` that ended a line, so a `\n` here belongs to it) -/
def splitLinesAux : Bool → Text → Text → List Text
  | _, cur, [] => if cur.isEmpty then [] else [cur.reverse]
  | afterCR, cur, c :: rest =>
    if afterCR && c == 10 then splitLinesAux false cur rest
    else if Gen.lineBreaks.contains c then cur.reverse :: splitLinesAux (c == 13) [] rest
    else splitLinesAux false (c :: cur) rest

def pySplitLines (t : Text) : List Text := splitLinesAux false [] t

/-- `str(n)` for a natural number -/
def natStr (n : Nat) : Text := (Nat.toDigits 10 n).map Char.toNat

/-- `value.replace(q, '\\' + q)` -/
def escapeQuote (q : Cp) (v : Text) : Text := v.flatMap fun c => if c == q then [92, q] else [c]

/-- `token.value.split('\n', 1)[1]` for a value that contains `\n` -/
def afterFirstNl (v : Text) : Text := (v.dropWhile (· != 10)).drop 1

def tText (s : String) : FNode := .tok T.Text (s.toList.map Char.toNat)
def tWs (v : Text) : FNode := .tok T.Whitespace v

/-- the common body loop; `lineBreak` is what is emitted for a whitespace token containing `\n` (before its
indentation), `q` the quote character to escape -/
def outputBody (lineBreak : List FNode) (q : Cp) : List FNode → List FNode
  | [] => []
  | k :: rest =>
    if k.isWhitespace && k.value.contains 10 then
      let after := afterFirstNl k.value
      lineBreak ++ (if after.isEmpty then [] else [tWs after]) ++ outputBody lineBreak q rest
    else
      FNode.tok T.Text (if k.value.contains q then escapeQuote q k.value else k.value) :: outputBody lineBreak q rest

/-- `has_nl = len(str(stmt).strip().splitlines()) > 1` -/
def hasNl (ks : List FNode) : Bool := (pySplitLines (pyStrip (FNode.textL ks))).length > 1

def outVarname (base : Text) (count : Nat) : Text := if count > 1 then base ++ natStr count else base

/-- `OutputPythonFilter._process` -/
def outputPythonKids (count : Nat) (base : Text) (ks : List FNode) : List FNode :=
  let varname := outVarname base count
  let nl := hasNl ks
  (if count > 1 then [tWs [10]] else []) ++
  [.tok T.Name varname, tWs [32], .tok T.Operator [61], tWs [32]] ++
  (if nl then [.tok T.Operator [40]] else []) ++
  [tText "'"] ++
  outputBody [tText " '", tWs [10], tWs (List.replicate (varname.length + 4) 32), tText "'"] 39 ks ++
  [tText "'"] ++
  (if nl then [.tok T.Operator [41]] else [])

/-- `OutputPHPFilter._process` -/
def outputPHPKids (count : Nat) (base : Text) (ks : List FNode) : List FNode :=
  let varname := outVarname base count
  let nl := hasNl ks
  (if count > 1 then [tWs [10]] else []) ++
  [.tok T.Name varname, tWs [32]] ++
  (if nl then [tWs [32]] else []) ++
  [.tok T.Operator [61], tWs [32], tText "\""] ++
  outputBody [tText " \";", tWs [10], .tok T.Name varname, tWs [32], .tok T.Operator [46, 61], tWs [32], tText "\""] 34 ks ++
  [tText "\"", .tok T.Punctuation [59]]

/-- `OutputPythonFilter(varname).process(stmt)` for the `count`-th statement (default `varname='sql'`) -/
def outputPython (count : Nat) (base : Text) : FNode → FNode
  | .grp c cv ks => .grp c cv (outputPythonKids count base ks)
  | t => t

/-- `OutputPHPFilter(varname).process(stmt)`; `base` is `'$' + varname` -/
def outputPHP (count : Nat) (base : Text) : FNode → FNode
  | .grp c cv ks => .grp c cv (outputPHPKids count base ks)
  | t => t

end Sql
