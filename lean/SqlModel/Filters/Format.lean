import SqlModel.Options
import SqlModel.Control
import SqlModel.GroupingParse
import SqlModel.Generated.ControlRun
import SqlModel.Filters.Stage2
import SqlModel.Filters.Reindent
import SqlModel.Filters.Aligned
/-!
# SqlModel.Filters.Format — `sqlparse.format(text, **options)` end to end

`validate_options` (outside any `try`), `build_filter_stack`, `SerializerUnicode` appended, then `''.join(stack.run(text))`.
`FilterStack.run` is a generator over lazily chained generators (lexer → preprocess filters → splitter); the model keeps
the one consequence of that laziness that is observable, the *order of exceptions*: a preprocess filter that raises on
token `n` (e.g. `TruncateStringFilter` with a non-`str` `truncate_char`) does so only after every statement whose
"yield trigger" (the first non-whitespace/comment token after it) lies before `n` has gone through grouping and all
statement filters.  Inside `run`, `RecursionError` becomes `SQLParseError` for the stages of `Gen.runTryStages`, and since
`run` is a generator a `StopIteration` escaping from a filter becomes `RuntimeError` (PEP 479).
The filter objects live for the whole run: output `count`, `ReindentFilter._last_stmt/_last_func/offset/indent`.
-/
namespace Sql

/-- a statement filter object with its state -/
inductive StmtObj where
  | spaces | stripComments | stripWs | rightMargin
  | reindent (cfg : RCfg) (st : RSt) (last : Option Text)
  | aligned (char : Text) (st : ASt)

def StmtObj.ofFilter : StmtFilter → StmtObj
  | .spacesAroundOperators => .spaces
  | .stripComments => .stripComments
  | .stripWhitespace => .stripWs
  | .rightMargin _ => .rightMargin
  | .reindent ch w iaf ic wa cf cp =>
    .reindent { char := ch, width := w, wrapAfter := wa, commaFirst := cf, indentColumns := ic, compact := cp } (RSt.init iaf) none
  | .alignedIndent ch => .aligned ch ASt.init

/-- `filter_.process(stmt)` -/
def StmtObj.process (fuel : Nat) (n : FNode) : StmtObj → Except PyErr (FNode × StmtObj)
  | .spaces => (spacesAroundOperators fuel n).map (·, .spaces)
  | .stripComments => (Sql.stripComments fuel n).map (·, .stripComments)
  | .stripWs => (stripWhitespace fuel n).map (·, .stripWs)
  | .rightMargin => .error .notImplemented
  | .reindent cfg st last => (reindentProcess cfg fuel st last n).map fun (n', st') => (n', .reindent cfg st' last)
  | .aligned ch st => (alignedProcess ch fuel st n).map fun (n', st') => (n', .aligned ch st')

/-- `for filter_ in self.stmtprocess: filter_.process(stmt)` -/
def runStmtObjs (fuel : Nat) : List StmtObj → FNode → Except PyErr (FNode × List StmtObj)
  | [], n => .ok (n, [])
  | f :: fs, n =>
    match f.process fuel n with
    | .error e => .error e
    | .ok (n', f') =>
      match runStmtObjs fuel fs n' with
      | .error e => .error e
      | .ok (n'', fs') => .ok (n'', f' :: fs')

/-- `self._last_stmt = stmt`, read as the text that statement has when the next one is processed -/
def StmtObj.noteLast (t : Text) : StmtObj → StmtObj
  | .reindent cfg st _ => .reindent cfg st (some t)
  | f => f

/-- the preprocess chain on one token -/
def preTok : List PreFilter → Tok → Except PyErr Tok
  | [], t => .ok t
  | f :: fs, t =>
    let r : Except PyErr Tok := match f with
      | .keywordCase c => .ok (kwCaseTok c t)
      | .identifierCase c => idCaseTok c t
      | .truncateString w ch => truncTok w ch t
    match r with
    | .error e => .error e
    | .ok t' => preTok fs t'

/-- the tokens that come out of the preprocess generators before the first exception, and that exception -/
def preprocessPrefix (fs : List PreFilter) : List Tok → List Tok × Option PyErr
  | [] => ([], none)
  | t :: ts =>
    match preTok fs t with
    | .error e => ([], some e)
    | .ok t' => let (r, e) := preprocessPrefix fs ts; (t' :: r, e)

/-- what escapes from the generator `FilterStack.run` when stage `stage` raises `e` -/
def runError (stage : Stage) (e : PyErr) : PyErr :=
  let e1 := runMapError Gen.runTryStages stage e
  if e1 == .stopIteration then .runtimeError else e1

/-- the loop `for stmt in stream:` of `run`; `count` is the 1-based index of the statement -/
def runStatements (fuel : Nat) (grouping : Bool) (post : List PostFilter) :
    List StmtObj → Nat → List (List Tok) → Except PyErr (List Text)
  | _, _, [] => .ok []
  | objs, count, st :: rest =>
    let tree : Except PyErr Node :=
      if grouping then groupStatement fuel st else .ok (.grp .Statement (st.map fun t => Node.tok t.tt t.val))
    match tree with
    | .error e => .error (runError .group e)
    | .ok tree =>
      match runStmtObjs fuel objs (FNode.ofNode tree) with
      | .error e => .error (runError .stmt e)
      | .ok (n, objs') =>
        let out := serialize (post.foldl (fun n f => f.run count n) n)
        -- an output filter leaves `stmt.tokens` an exhausted generator: `str(self._last_stmt)` is then `''`
        let lastText : Text := if post.isEmpty then n.text else []
        match runStatements fuel grouping post (objs'.map (StmtObj.noteLast lastText)) (count + 1) rest with
        | .error e => .error e
        | .ok outs => .ok (out :: outs)

/-- `''.join(parts)` -/
def joinTexts : List Text → Text
  | [] => []
  | t :: ts => t ++ joinTexts ts

/-- `''.join(stack.run(text))` for an already validated plan -/
def runFormat (fuel : Nat) (p : FilterPlan) (s : Array Cp) : Except PyErr Text :=
  match lex defaultCfg s with
  | .error e => .error (runError .lex e)
  | .ok toks =>
    let (good, preErr) := preprocessPrefix p.preprocess toks
    match splitRun defaultSplitCfg {} good with
    | .error e => .error (runError .split e)
    | .ok sst =>
      -- the statements that are yielded: all of them (with the final flush) if the token stream ends normally,
      -- only those already triggered if a preprocess filter raised
      let stmts : List (List Tok) :=
        match preErr with
        | some _ => sst.done
        | none => (splitProcess defaultSplitCfg good).toOption.getD sst.done
      match runStatements fuel p.grouping p.postprocess (p.stmtprocess.map StmtObj.ofFilter) 1 stmts with
      | .error e => .error e
      | .ok outs =>
        match preErr with
        | some e => .error (runError .pre e)
        | none => .ok (joinTexts outs)

/-- `sqlparse.format(text, **options)` (str input, no `encoding`) -/
def format (fuel : Nat) (options : PyDict) (s : Array Cp) : Except PyErr Text :=
  match validateOptions options with
  | .error e => .error e
  | .ok o => runFormat fuel (buildFilterStack o) s

end Sql
