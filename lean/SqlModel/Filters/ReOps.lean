import SqlModel.Default
/-!
# SqlModel.Filters.ReOps — `re.search` and `re.split` over the model's backtracking matcher

`search` tries the start positions from left to right and returns the first derivation at the first position that
has one.  `split` (pattern with exactly one capturing group, never matching the empty string — a generated
obligation on `SPLIT_REGEX`) scans with `search` from the end of the previous match and returns the pieces
`text[last:start]`, `group(1)`, …, `text[last:]`; characters at which no match starts (for `SPLIT_REGEX`: a quote
without a partner) end up in the "between" pieces.
-/
namespace Sql

/-- the matcher environment of a plain `re.compile(pattern)` over `s` -/
def reEnv (s : Array Cp) : Env := { s := s, word := Gen.wordSet, lower := sreLower }

/-- first start position in `p, p+1, …` (at most `n` of them) with a match; returns start and final state -/
def searchFrom (E : Env) (r : Re) : Nat → Nat → Option (Nat × St)
  | 0, _ => none
  | n+1, p =>
    match matchAt E r p with
    | some st => some (p, st)
    | none => searchFrom E r n (p + 1)

/-- `pattern.search(text, p)`: start positions `p … len` -/
def reSearch (E : Env) (r : Re) (p : Nat) : Option (Nat × St) := searchFrom E r (E.s.size + 1 - p) p

def sliceArr (s : Array Cp) (a b : Nat) : Text := (s.extract a b).toList

/-- group `n` of a match as text (`None`, i.e. an unmatched group, as `none`) -/
def groupText (E : Env) (st : St) (n : Nat) : Option Text :=
  (capOf st.caps n).map fun (a, b) => sliceArr E.s a b

/-- the scanning loop of `pattern.split(text)` for a pattern with one capturing group; `fuel` bounds the number of
matches (`len + 1` suffices because every match is non-empty).  A match of width 0 is outside the precondition
(`splitRe_nonempty` in Serializer.lean) and simply ends the scan. -/
def splitLoop (E : Env) (r : Re) : Nat → Nat → List Text
  | 0, last => [sliceArr E.s last E.s.size]
  | fuel+1, last =>
    match reSearch E r last with
    | none => [sliceArr E.s last E.s.size]
    | some (start, st) =>
      if st.pos ≤ start then [sliceArr E.s last E.s.size]
      else sliceArr E.s last start :: (groupText E st 1).getD [] :: splitLoop E r fuel st.pos

/-- `pattern.split(text)` -/
def reSplit (r : Re) (t : Text) : List Text :=
  let E := reEnv t.toArray
  splitLoop E r (t.length + 1) 0

end Sql
