import SqlModel.Regex
/-!
# SqlModel.Lexer — `Lexer.get_tokens` scan loop and `Lexer.is_keyword`

Mirrors lexer.py literally, including the two ways the loop can go wrong:
* a zero-width match makes `consume(iterable, m.end() - pos - 1)` call `islice(it, -1)`, which raises
  `ValueError` (a `Match` object is always truthy, so `if not m` does not catch the empty match);
* an action that is neither a token type nor `PROCESS_AS_KEYWORD` consumes the text without yielding.
-/
namespace Sql

inductive Action where
  | tok (tt : TType)
  | kw
  | other
deriving Repr, DecidableEq

structure Rule where
  re : Re
  act : Action
deriving Repr, DecidableEq

/-- lexer configuration: rule table, keyword dictionaries in registration order, Unicode facts -/
structure LexCfg where
  rules : List Rule
  dicts : List (List (Text × TType))
  word : CpSet
  lower : Cp → Cp
  upper : Cp → Text      -- `str.upper` of a one-character string

def LexCfg.env (cfg : LexCfg) (s : Array Cp) : Env := { s := s, word := cfg.word, lower := cfg.lower }

def upperText (up : Cp → Text) (v : Text) : Text := v.flatMap up

def dictLookup (u : Text) : List (Text × TType) → Option TType
  | [] => none
  | (w, t) :: rest => if w == u then some t else dictLookup u rest

def dictsLookup (u : Text) : List (List (Text × TType)) → Option TType
  | [] => none
  | d :: ds => match dictLookup u d with
    | some t => some t
    | none => dictsLookup u ds

/-- `Lexer.is_keyword`: first dictionary that lists `value.upper()`, else `Name` -/
def isKeyword (cfg : LexCfg) (v : Text) : TType :=
  match dictsLookup (upperText cfg.upper v) cfg.dicts with
  | some t => t
  | none => T.Name

/-- the inner `for rexmatch, action in self._SQL_REGEX` loop: first rule with a match -/
def firstMatch (E : Env) : List Rule → Nat → Option (Action × Nat)
  | [], _ => none
  | r :: rs, p =>
    match matchAt E r.re p with
    | some st => some (r.act, st.pos)
    | none => firstMatch E rs p

/-- the outer scan loop; `fuel` bounds the number of iterations (`size - pos` suffices, proved) -/
def lexLoop (cfg : LexCfg) (E : Env) : Nat → Nat → Except PyErr (List Tok)
  | 0, _ => .ok []
  | fuel+1, pos =>
    match E.s[pos]? with
    | none => .ok []
    | some c =>
      match firstMatch E cfg.rules pos with
      | none => (lexLoop cfg E fuel (pos + 1)).map (⟨T.Error, [c]⟩ :: ·)
      | some (act, e) =>
        if e ≤ pos then .error .valueError
        else
          let v := (E.s.extract pos e).toList
          match act with
          | .tok tt => (lexLoop cfg E fuel e).map (⟨tt, v⟩ :: ·)
          | .kw => (lexLoop cfg E fuel e).map (⟨isKeyword cfg v, v⟩ :: ·)
          | .other => lexLoop cfg E fuel e

def lex (cfg : LexCfg) (s : Array Cp) : Except PyErr (List Tok) :=
  lexLoop cfg (cfg.env s) (s.size + 1) 0

end Sql
