import SqlModel.Tree
/-!
# SqlModel.Accessors — the read-only accessors and navigation helpers of `sqlparse/sql.py` on the pure tree

Every function is total (structural recursion, one explicit fuel in the CTE walk of `get_type`) and returns
what the Python method returns, or the exception it raises:

* `Except PyErr α`  the method can raise (only for methods where some tree makes it raise),
* `Option α`        Python `None`,
* node results are returned as *child indexes / relative paths together with the node*, so that the
  correspondence stream S-ACC can compare them with the identity of the object the real method returns.

Conventions.
* A group is given as its class `c : Cls` and its children `ks : List Node` (`self.tokens`).
* `upper : Text → Text` is `str.upper` (the driver passes `pyUpper`; theorems keep it abstract).
* `token.value` of a group is its text (`Node.value`).  In the real objects `value` is a cache written when the
  group is created/extended; grouping never changes text, so on trees produced by `parse` both agree (checked by S-ACC).
* Truthiness: `Token`/`TokenList` define neither `__bool__` nor `__len__` (both `__len__` are commented out in
  sql.py), so `if token:` is `token is not None`, and `while parent:` is `parent is not None`.
* `token.ttype in [T.Name, …]` / `in (T.Keyword.DML, …)` / `== T.Keyword.CTE` is *equality* of types
  (`Node.ttEqAny`), while `token.ttype in T.Whitespace` and `imt(t=…)` are the hierarchical test (`Node.ttIn`).
* Dispatch: `get_real_name`/`get_alias` are the `NameAliasMixin` versions for `Identifier` and `Function`
  (the mixin precedes `TokenList` in the MRO) and the `TokenList` versions (`None`) for every other class;
  `get_name`, `has_alias`, `get_parent_name`, `_get_first_name` are inherited from `TokenList` by all classes
  and call `self.get_alias()`/`self.get_real_name()` through the MRO.
* Indexes are natural numbers.  Negative `idx` arguments (Python wraps them around) are outside the modelled
  domain; `None` is `Option.none`.
-/
namespace Sql
namespace Acc

/-- a node addressed by the child indexes leading to it (relative to some root) -/
abbrev Path := List Nat

/-! ## constants of the method bodies -/

/-- `'UNKNOWN'` -/
def sUNKNOWN : Text := [85, 78, 75, 78, 79, 87, 78]
/-- `(T.Punctuation, '.')` -/
def mDot : MPat := ⟨T.Punctuation, some [[46]]⟩
/-- `(T.Punctuation, '::')` -/
def mDColon : MPat := ⟨T.Punctuation, some [[58, 58]]⟩
/-- `(T.Punctuation, ',')` -/
def mComma : MPat := ⟨T.Punctuation, some [[44]]⟩
/-- `(T.Keyword, 'AS')` -/
def mAS : MPat := ⟨T.Keyword, some [[65, 83]]⟩
/-- `(T.Keyword, 'CASE')` -/
def mCASE : MPat := ⟨T.Keyword, some [[67, 65, 83, 69]]⟩
/-- `(T.Keyword, 'WHEN')` -/
def mWHEN : MPat := ⟨T.Keyword, some [[87, 72, 69, 78]]⟩
/-- `(T.Keyword, 'THEN')` -/
def mTHEN : MPat := ⟨T.Keyword, some [[84, 72, 69, 78]]⟩
/-- `(T.Keyword, 'ELSE')` -/
def mELSE : MPat := ⟨T.Keyword, some [[69, 76, 83, 69]]⟩
/-- `(T.Keyword, 'END')` -/
def mEND : MPat := ⟨T.Keyword, some [[69, 78, 68]]⟩

/-! ## `utils.remove_quotes` -/

/-- `"`, `'`, `` ` `` -/
def isQuoteCp (c : Cp) : Bool := c == 34 || c == 39 || c == 96

/-- `remove_quotes(val)` for a `str` argument: `val[0]` raises IndexError on the empty string;
`val[1:-1]` of a one-character quote is `''`. -/
def removeQuotes (v : Text) : Except PyErr Text :=
  match v with
  | [] => .error .indexError
  | c :: rest => if isQuoteCp c && v.getLast? == some c then .ok rest.dropLast else .ok v

/-! ## children with their indexes -/

/-- `enumerate(tokens, i)` -/
def indexed : List Node → Nat → List (Nat × Node)
  | [], _ => []
  | k :: ks, i => (i, k) :: indexed ks (i + 1)

/-! ## `TokenList.get_token_at_offset`, `flatten`, `get_sublists` -/

/-- the loop of `get_token_at_offset` over the flattened leaves: `idx` is the running start offset,
`n` the number of leaves already passed; returns the position of the leaf in `flatten()` order and the leaf. -/
def leafAtGo (off : Nat) : List Tok → Nat → Nat → Option (Nat × Tok)
  | [], _, _ => none
  | t :: ts, idx, n =>
    if idx ≤ off ∧ off < idx + t.val.length then some (n, t) else leafAtGo off ts (idx + t.val.length) (n + 1)

/-- `get_token_at_offset(offset)` for `offset ≥ 0` on the leaves `list(self.flatten())` -/
def leafAt (ls : List Tok) (off : Nat) : Option (Nat × Tok) := leafAtGo off ls 0 0

/-- `get_token_at_offset(offset)` for any integer: a negative offset never satisfies `idx <= offset` -/
def getTokenAtOffset (ks : List Node) (off : Int) : Option (Nat × Tok) :=
  if off < 0 then none else leafAt (Node.leavesL ks) off.toNat

mutual
/-- paths (relative to the node) of the leaves in `flatten()` order; a leaf's `flatten` yields itself -/
def flattenPaths : Node → Path → List Path
  | .tok .., p => [p]
  | .grp _ ks, p => flattenPathsL ks p 0
def flattenPathsL : List Node → Path → Nat → List Path
  | [], _, _ => []
  | k :: ks, p, i => flattenPaths k (p ++ [i]) ++ flattenPathsL ks p (i + 1)
end

/-- `list(self.get_sublists())`: the group children -/
def getSublists (ks : List Node) : List (Nat × Node) := (indexed ks 0).filter (·.2.isGroup)

/-! ## `token_first`, `token_next`, `token_prev`, `token_index` -/

/-- `token_first(skip_ws, skip_cm)` with the index of the result -/
def tokenFirstIdx (ks : List Node) (skipWs : Bool := true) (skipCm : Bool := false) : Option (Nat × Node) :=
  tokenMatchingFwd ks (skipMatcher skipWs skipCm) 0

/-- `token_next(idx, skip_ws, skip_cm)`; `idx = None` gives `(None, None)`.  Never raises for `idx ≥ 0`:
`range(idx+1, len)` stays inside the list. -/
def tokenNextO (ks : List Node) (idx : Option Nat) (skipWs : Bool := true) (skipCm : Bool := false) :
    Option (Nat × Node) :=
  match idx with
  | none => none
  | some i => tokenNext ks i skipWs skipCm

/-- `token_prev(idx, skip_ws, skip_cm)`; `idx = None` gives `(None, None)`.  The first index visited is `idx-1`:
`self.tokens[idx-1]` raises IndexError when `idx ≥ len + 1` (and `idx ≥ 1`). -/
def tokenPrevO (ks : List Node) (idx : Option Nat) (skipWs : Bool := true) (skipCm : Bool := false) :
    Except PyErr (Option (Nat × Node)) :=
  match idx with
  | none => .ok none
  | some i => if i > ks.length then .error .indexError else .ok (tokenPrev ks i skipWs skipCm)

/-- `token_index(token, start)` for the child `token = self.tokens[i]` (an index `i ≥ len` stands for a token that
is not a child).  `list.index` compares with `==`, which is identity for `Token` (no `__eq__`), and every child
object occurs once in its parent's list, so the answer is `i` when `start ≤ i < len`, else ValueError. -/
def tokenIndex (ks : List Node) (i : Nat) (start : Nat := 0) : Except PyErr Nat :=
  if start ≤ i ∧ i < ks.length then .ok i else .error .valueError

/-! ## `Token.within`, `has_ancestor`, `is_child_of` on paths

The real methods follow `parent` pointers.  On a tree where `parent` is the container (property C03) the
parents of the node at path `p` are the nodes at the proper prefixes of `p`; `==` on tokens is identity. -/

/-- `self.has_ancestor(other)`: `other` is a proper prefix of `self` -/
def hasAncestor (self other : Path) : Bool := other.isPrefixOf self && other.length < self.length

/-- `self.is_child_of(other)`: `self.parent == other` (the root has `parent None`) -/
def isChildOf (self other : Path) : Bool := self != [] && self.dropLast == other

/-- `self.within(cls)` for the node at path `p` below `root`: some proper ancestor is an instance of `cls` -/
def within (c : Cls) : Node → Path → Bool
  | _, [] => false
  | n, i :: rest =>
    match n with
    | .tok .. => false
    | .grp _ ks => n.isInst c || (match ks[i]? with | some k => within c k rest | none => false)

/-- the node at a path -/
def nodeAt? : Node → Path → Option Node
  | n, [] => some n
  | .tok .., _ :: _ => none
  | .grp _ ks, i :: rest => match ks[i]? with | some k => nodeAt? k rest | none => none

/-! ## names: `_get_first_name`, `get_real_name`, `get_alias`, `get_name`, `get_parent_name`, `has_alias`

`_get_first_name` recurses into `Identifier`/`Function` children (`token.get_real_name()` / `token.get_name()`).
The recursion is made structural by computing, bottom-up, for every child the pair of results the parent may
ask for (`NameInfo`); only the selected one is ever inspected, so an exception raised inside an unvisited child
does not leak. -/

/-- what a parent can ask of a child: `child.get_real_name()` and `child.get_name()` -/
structure NameInfo where
  real : Except PyErr (Option Text)
  name : Except PyErr (Option Text)

/-- classes using `NameAliasMixin` -/
def isMixin (c : Cls) : Bool := c == .Identifier || c == .Function

/-- `types` of `_get_first_name` -/
def nameTypes (keywords : Bool) : List TType :=
  if keywords then [T.Name, T.Wildcard, T.StringSymbol, T.Keyword] else [T.Name, T.Wildcard, T.StringSymbol]

/-- the `for token in tokens` loop of `_get_first_name` -/
def firstNameLoop (types : List TType) (realName : Bool) : List (Node × NameInfo) → Except PyErr (Option Text)
  | [] => .ok none
  | (k, info) :: rest =>
    if k.ttEqAny types then (removeQuotes k.value).map some
    else if k.isInstAny [.Identifier, .Function] then (if realName then info.real else info.name)
    else firstNameLoop types realName rest

/-- `_get_first_name(idx, reverse, keywords, real_name)` on children paired with their infos.
`self.tokens[idx:] if idx else self.tokens`: `None` and `0` both take all tokens. -/
def firstNameK (kis : List (Node × NameInfo)) (idx : Option Nat) (reverse keywords realName : Bool) :
    Except PyErr (Option Text) :=
  let toks := match idx with
    | none => kis
    | some i => if i == 0 then kis else kis.drop i
  let toks := if reverse then toks.reverse else toks
  firstNameLoop (nameTypes keywords) realName toks

/-- `NameAliasMixin.get_real_name` -/
def mixinRealNameK (upper : Text → Text) (kis : List (Node × NameInfo)) : Except PyErr (Option Text) :=
  let dotIdx := (tokenNextBy upper (kis.map (·.1)) [] [mDot] .none).map (·.1)
  firstNameK kis dotIdx false false true

/-- `NameAliasMixin.get_alias` -/
def mixinAliasK (upper : Text → Text) (kis : List (Node × NameInfo)) : Except PyErr (Option Text) :=
  let ks := kis.map (·.1)
  match tokenNextBy upper ks [] [mAS] .none with
  | some (kwIdx, _) => firstNameK kis (some (kwIdx + 1)) false true false
  | none =>
    match tokenNextBy upper ks [] [] (.hier [T.Whitespace]) with
    | some _ => if ks.length > 2 then firstNameK kis none true false false else .ok none
    | none => .ok none

/-- `self.get_alias() or self.get_real_name()`: `None` and `''` are falsy -/
def pyOrName (alias real : Except PyErr (Option Text)) : Except PyErr (Option Text) :=
  match alias with
  | .error e => .error e
  | .ok (some a) => if a.isEmpty then real else .ok (some a)
  | .ok none => real

/-- `get_real_name()` dispatched on the class -/
def realNameK (upper : Text → Text) (c : Cls) (kis : List (Node × NameInfo)) : Except PyErr (Option Text) :=
  if isMixin c then mixinRealNameK upper kis else .ok none

/-- `get_alias()` dispatched on the class -/
def aliasK (upper : Text → Text) (c : Cls) (kis : List (Node × NameInfo)) : Except PyErr (Option Text) :=
  if isMixin c then mixinAliasK upper kis else .ok none

/-- `get_name()` -/
def nameK (upper : Text → Text) (c : Cls) (kis : List (Node × NameInfo)) : Except PyErr (Option Text) :=
  pyOrName (aliasK upper c kis) (realNameK upper c kis)

mutual
/-- `(node.get_real_name(), node.get_name())` (never consulted for leaves) -/
def nameInfo (upper : Text → Text) : Node → NameInfo
  | .tok .. => ⟨.ok none, .ok none⟩
  | .grp c ks =>
    let kis := ks.zip (nameInfoL upper ks)
    ⟨realNameK upper c kis, nameK upper c kis⟩
def nameInfoL (upper : Text → Text) : List Node → List NameInfo
  | [] => []
  | k :: ks => nameInfo upper k :: nameInfoL upper ks
end

/-- the children paired with their `NameInfo` -/
def withInfo (upper : Text → Text) (ks : List Node) : List (Node × NameInfo) := ks.zip (nameInfoL upper ks)

/-- `self._get_first_name(idx, reverse, keywords, real_name)` -/
def getFirstName (upper : Text → Text) (ks : List Node) (idx : Option Nat := none)
    (reverse : Bool := false) (keywords : Bool := false) (realName : Bool := false) : Except PyErr (Option Text) :=
  firstNameK (withInfo upper ks) idx reverse keywords realName

/-- `self.get_real_name()` -/
def getRealName (upper : Text → Text) (c : Cls) (ks : List Node) : Except PyErr (Option Text) :=
  realNameK upper c (withInfo upper ks)

/-- `self.get_alias()` -/
def getAlias (upper : Text → Text) (c : Cls) (ks : List Node) : Except PyErr (Option Text) :=
  aliasK upper c (withInfo upper ks)

/-- `self.get_name()` -/
def getName (upper : Text → Text) (c : Cls) (ks : List Node) : Except PyErr (Option Text) :=
  nameK upper c (withInfo upper ks)

/-- `self.has_alias()`: `self.get_alias() is not None` -/
def hasAlias (upper : Text → Text) (c : Cls) (ks : List Node) : Except PyErr Bool :=
  (getAlias upper c ks).map Option.isSome

/-- `self.get_parent_name()` (defined on `TokenList`, same for every class): the token before the first `.`.
`token_prev(dot_idx)` cannot raise (`dot_idx < len`); `remove_quotes('')` raises IndexError. -/
def getParentName (upper : Text → Text) (ks : List Node) : Except PyErr (Option Text) :=
  match tokenNextBy upper ks [] [mDot] .none with
  | none => .ok none
  | some (dotIdx, _) =>
    match tokenPrev ks dotIdx with
    | none => .ok none
    | some (_, prev) => (removeQuotes prev.value).map some

/-! ## `Statement.get_type` -/

/-- the `while tidx is not None` loop of the CTE branch; each round moves `tidx` strictly to the right or to
`None`, so `len + 1` rounds suffice (`fuel` exhausted is unreachable and answers `'UNKNOWN'`). -/
def cteWalk (upper : Text → Text) (ks : List Node) : Nat → Option Nat → Text
  | 0, _ => sUNKNOWN
  | _ + 1, none => sUNKNOWN
  | fuel + 1, some tidx =>
    match tokenNext ks tidx with
    | none => sUNKNOWN
    | some (i, tok) =>
      if tok.isInstAny [.Identifier, .IdentifierList] then
        match tokenNext ks i with
        | none => sUNKNOWN
        | some (j, tok2) =>
          if tok2.ttEqAny [T.DML] then tok2.normalized upper else cteWalk upper ks fuel (some j)
      else cteWalk upper ks fuel (some i)

/-- `Statement.get_type()`; never raises -/
def getType (upper : Text → Text) (ks : List Node) : Text :=
  match tokenFirstIdx ks true true with
  | none => sUNKNOWN
  | some (i, tok) =>
    if tok.ttEqAny [T.DML, T.DDL] then tok.normalized upper
    else if tok.ttEqAny [T.CTE] then cteWalk upper ks (ks.length + 1) (some i)
    else sUNKNOWN

/-! ## `Identifier` -/

/-- `is_wildcard()` -/
def isWildcard (upper : Text → Text) (ks : List Node) : Bool :=
  (tokenNextBy upper ks [] [] (.hier [T.Wildcard])).isSome

/-- `get_typecast()`: `token_next(None)` is `(None, None)`; `next_.value if next_ else None` never raises -/
def getTypecast (upper : Text → Text) (ks : List Node) : Option Text :=
  match tokenNextBy upper ks [] [mDColon] .none with
  | none => none
  | some (midx, _) => (tokenNext ks midx false false).map (·.2.value)

/-- `get_ordering()` -/
def getOrdering (upper : Text → Text) (ks : List Node) : Option Text :=
  (tokenNextBy upper ks [] [] (.hier [T.Order])).map (·.2.normalized upper)

/-- `token.tokens[1:-1]` with indexes -/
def innerKids (ks : List Node) : List (Nat × Node) := ((indexed ks 0).drop 1).dropLast

/-- `list(get_array_indices())`: for every `SquareBrackets` child (index `i`) its `tokens[1:-1]` -/
def getArrayIndices (ks : List Node) : List (Nat × List (Nat × Node)) :=
  (indexed ks 0).filterMap fun (i, k) =>
    match k with
    | .grp .SquareBrackets sub => some (i, innerKids sub)
    | _ => none

/-! ## `IdentifierList.get_identifiers` -/

/-- the test of `get_identifiers` -/
def isIdentifierItem (upper : Text → Text) (k : Node) : Bool :=
  !(k.isWhitespace || k.matchP upper mComma)

/-- `list(get_identifiers())` -/
def getIdentifiers (upper : Text → Text) (ks : List Node) : List (Nat × Node) :=
  (indexed ks 0).filter (fun p => isIdentifierItem upper p.2)

/-! ## `Function` -/

/-- the loop of `get_parameters` over the children of the parenthesis (at child index `pi`) -/
def paramLoop (upper : Text → Text) (pi : Nat) : List (Nat × Node) → List (Path × Node) → List (Path × Node)
  | [], acc => acc.reverse
  | (j, k) :: rest, acc =>
    match k with
    | .grp .IdentifierList sub =>
      -- `result.extend(token.get_identifiers())` and keep scanning
      paramLoop upper pi rest (((getIdentifiers upper sub).map fun (i, n) => ([pi, j, i], n)).reverse ++ acc)
    | _ =>
      if imt upper k [.Function, .Identifier, .TypedLiteral] [] (.hier [T.Literal]) then
        paramLoop upper pi rest (([pi, j], k) :: acc)
      else paramLoop upper pi rest acc

/-- `list(get_parameters())`: `token_next_by(i=Parenthesis)[1]` is `None` without a Parenthesis child, and
`None.tokens` raises AttributeError -/
def getParameters (upper : Text → Text) (ks : List Node) : Except PyErr (List (Path × Node)) :=
  match tokenNextBy upper ks [.Parenthesis] [] .none with
  | some (pi, .grp _ sub) => .ok (paramLoop upper pi (indexed sub 0) [])
  | _ => .error .attributeError

/-- `get_window()`: `None` without an `Over` child; otherwise the last child of the `Over` group (`tokens[-1]` of an
empty `Over` raises IndexError). -/
def getWindow (upper : Text → Text) (ks : List Node) : Except PyErr (Option (Path × Node)) :=
  match tokenNextBy upper ks [.Over] [] .none with
  | some (oi, .grp _ sub) =>
    match sub.getLast? with
    | some k => .ok (some ([oi, sub.length - 1], k))
    | none => .error .indexError
  | _ => .ok none

/-! ## `Case.get_cases` -/

/-- `mode`: `CONDITION = 1`, `VALUE = 2`, `None` -/
inductive CaseMode where | cond | val | off
deriving DecidableEq, Repr

/-- one `(condition, value)` entry; `cond = none` is the `None` of an ELSE entry -/
structure CaseEntry where
  cond : Option (List (Nat × Node))
  val : List (Nat × Node)
deriving Repr

/-- `ret[-1][0].append(token)` (`ret` non-empty with a list condition whenever `mode == CONDITION`; the `none`
case would be `None.append` → AttributeError and the `[]` case IndexError — both unreachable, see `getCases_total`) -/
def appendCond (ret : List CaseEntry) (x : Nat × Node) : Except PyErr (List CaseEntry) :=
  match ret.getLast? with
  | none => .error .indexError
  | some e =>
    match e.cond with
    | none => .error .attributeError
    | some c => .ok (ret.dropLast ++ [{ e with cond := some (c ++ [x]) }])

/-- `ret[-1][1].append(token)` -/
def appendVal (ret : List CaseEntry) (x : Nat × Node) : Except PyErr (List CaseEntry) :=
  match ret.getLast? with
  | none => .error .indexError
  | some e => .ok (ret.dropLast ++ [{ e with val := e.val ++ [x] }])

/-- the body of the `for token in self.tokens` loop -/
def caseStep (upper : Text → Text) (skipWs : Bool) (st : CaseMode × List CaseEntry) (x : Nat × Node) :
    Except PyErr (CaseMode × List CaseEntry) :=
  let (mode, ret) := st
  let tok := x.2
  if tok.matchP upper mCASE then .ok st
  else if skipWs && tok.ttIn T.Whitespace then .ok st
  else
    let (mode, ret) :=
      if tok.matchP upper mWHEN then (CaseMode.cond, ret ++ [⟨some [], []⟩])
      else if tok.matchP upper mTHEN then (CaseMode.val, ret)
      else if tok.matchP upper mELSE then (CaseMode.val, ret ++ [⟨none, []⟩])
      else if tok.matchP upper mEND then (CaseMode.off, ret)
      else (mode, ret)
    let ret := if mode != .off && ret.isEmpty then ret ++ [⟨some [], []⟩] else ret
    match mode with
    | .cond => (appendCond ret x).map (fun r => (mode, r))
    | .val => (appendVal ret x).map (fun r => (mode, r))
    | .off => .ok (mode, ret)

def caseLoop (upper : Text → Text) (skipWs : Bool) :
    List (Nat × Node) → CaseMode × List CaseEntry → Except PyErr (CaseMode × List CaseEntry)
  | [], st => .ok st
  | x :: xs, st =>
    match caseStep upper skipWs st x with
    | .error e => .error e
    | .ok st' => caseLoop upper skipWs xs st'

/-- `get_cases(skip_ws)` -/
def getCases (upper : Text → Text) (ks : List Node) (skipWs : Bool := false) : Except PyErr (List CaseEntry) :=
  (caseLoop upper skipWs (indexed ks 0) (.cond, [])).map (·.2)

/-! ## `Comparison.left/right`, `Comment.is_multiline` -/

/-- `left`: `self.tokens[0]` -/
def comparisonLeft (ks : List Node) : Except PyErr (Nat × Node) :=
  match ks with
  | [] => .error .indexError
  | k :: _ => .ok (0, k)

/-- `right`: `self.tokens[-1]` -/
def comparisonRight (ks : List Node) : Except PyErr (Nat × Node) :=
  match ks.getLast? with
  | none => .error .indexError
  | some k => .ok (ks.length - 1, k)

/-- `is_multiline()`: `self.tokens and self.tokens[0].ttype == T.Comment.Multiline`; `none` stands for the empty
list `[]` that the `and` returns for a Comment without children -/
def isMultiline (ks : List Node) : Option Bool :=
  match ks with
  | [] => none
  | k :: _ => some (k.ttEqAny [T.CommentMultiline])

end Acc
end Sql
