import SqlModel.Tree
/-!
# SqlModel.GroupTokens — `TokenList.group_tokens` on the pure tree

```python
def group_tokens(self, grp_cls, start, end, include_end=True, extend=False):
    start_idx = start
    start = self.tokens[start_idx]                      # IndexError when out of range
    end_idx = end + include_end
    if extend and isinstance(start, grp_cls):
        subtokens = self.tokens[start_idx + 1:end_idx]  # slices clamp
        grp = start
        grp.tokens.extend(subtokens)
        del self.tokens[start_idx + 1:end_idx]
        grp.value = str(start)
    else:
        subtokens = self.tokens[start_idx:end_idx]
        grp = grp_cls(subtokens)
        self.tokens[start_idx:end_idx] = [grp]          # empty slice: the (empty) group is inserted
    return grp
```
Indexes are `Nat` here: every caller passes indexes obtained from `enumerate`/`_token_matching`, which are
non-negative (the one subtraction, `idx − offset` in the drivers, is guarded or invariantly non-negative).
-/
namespace Sql

/-- Python `l[a:b]` for `0 ≤ a`, `0 ≤ b` (clamping; empty when `b ≤ a`) -/
def pySlice {α : Type} (l : List α) (a b : Nat) : List α := (l.take b).drop a

/-- Python `del l[a:b]` / `l[a:b] = []` for non-negative `a`, `b` (nothing is removed when `b ≤ a`) -/
def pyDelSlice {α : Type} (l : List α) (a b : Nat) : List α := l.take a ++ l.drop (max a b)

/-- `group_tokens`, returning the new child list together with the group it returns (`grp`) -/
def groupTokens' (ks : List Node) (cls : Cls) (start stop : Nat) (includeEnd : Bool := true)
    (extend : Bool := false) : Except PyErr (List Node × Node) :=
  match ks[start]? with
  | none => .error .indexError
  | some st =>
    let endIdx := stop + (if includeEnd then 1 else 0)
    match st with
    | .grp c kids =>
      if extend && st.isInst cls then
        let grp := Node.grp c (kids ++ pySlice ks (start + 1) endIdx)
        .ok (ks.take start ++ grp :: ks.drop (max (start + 1) endIdx), grp)
      else
        let grp := Node.grp cls (pySlice ks start endIdx)
        .ok (ks.take start ++ grp :: ks.drop (max start endIdx), grp)
    | .tok .. =>
      let grp := Node.grp cls (pySlice ks start endIdx)
      .ok (ks.take start ++ grp :: ks.drop (max start endIdx), grp)

/-- `TokenList.group_tokens` as a function on the child list -/
def groupTokens (ks : List Node) (cls : Cls) (start stop : Nat) (includeEnd : Bool := true)
    (extend : Bool := false) : Except PyErr (List Node) :=
  match groupTokens' ks cls start stop includeEnd extend with
  | .ok r => .ok r.1
  | .error e => .error e

end Sql
