import SqlModel.Default
import SqlModel.Splitter
/-!
# SqlModel.KwNorm — `Token.normalized` of a keyword token: `' '.join(value.upper().split())`

The tree model (`Node.match`, `Node.normalized`, the grouping passes, the accessors) is parametric in a function `upper`
that it applies both to a keyword token's value and to the constant values of a match pattern.  The concrete function passed
at the top level is `kwNorm`: for a token value it is exactly `Token.normalized`; for the pattern constants it coincides with
`str.upper` because none of them contains whitespace other than single inner blanks (`SqlProps.C11.pattern_values_collapsed`,
decided over the generated tables).
-/
namespace Sql

def kwNorm (v : Text) : Text :=
  let u := pyUpper v
  [32].intercalate (pySplitWs isSpace (u.length + 1) u)

end Sql
