import SqlModel.Sexp
import SqlModel.Options
import SqlModel.Filters
import SqlModel.Filters.Stage2
import SqlModel.Filters.Reindent
import SqlModel.Filters.Aligned
import SqlModel.Filters.Format
import SqlModel.Filters.Safe
/-!
# SqlModel.FilterDriver — line-protocol commands of the formatting side (used by Main.lean)

* `opt k=v;k=v;…`                → `ok <dict> | <plan>`  or `err <PyErr>`
  values: `n` None, `b0`/`b1`, `i<int>`, `s<hex-hex-…>`, `f<num>/<den>` finite float, `finf`, `f-inf`, `fnan`, `l` list
* `tokfilter <spec> <tokens>`    → `ok <tokens>` or `err <PyErr>`; spec `kw:<case>` | `id:<case>` | `trunc:<width>:<value>`;
  tokens `Type.Path=hex hex;Type.Path=hex …`
* `treefilter <f1,f2,…> <fuel> <sexp of statement 1> <sexp of statement 2> …` → `ok <sexp with cached values> …` or
  `err <PyErr> <index of the failing statement>`; filters `stripcomments` `stripws` `spaces` `semicolon` `outpython:<count>`
  `outphp:<count>` `reindent:<char>:<width>:<wrap_after>:<comma_first>:<indent_columns>:<compact>:<indent_after_first>`
  `aligned:<char>`; every statement goes through the whole chain before the next one starts, the filter objects keep
  their state (`count`, `_last_stmt`, `_last_func`, …) and the trees keep their caches, as in `FilterStack.run`
* `serialize <sexp of one statement>` → `ok <hex text>`
* `fmtstmt <opts|-> <count> <fuel> <sexp>` → the tail of `FilterStack.run` for one grouped statement
* `fmt <opts|-> <fuel> <hex text>` → `ok <hex text>` = `sqlparse.format(text, **opts)` end to end, or `err <PyErr>`
-/
namespace Sql.Driver

def words (ws : List String) : List String := ws.filter (· ≠ "")

def dropStr (n : Nat) (s : String) : String := String.ofList (s.toList.drop n)
def trimStr (s : String) : String :=
  String.ofList ((s.toList.dropWhile (· == ' ')).reverse.dropWhile (· == ' ')).reverse

def parseInt? (s : String) : Option Int :=
  if s.startsWith "-" then (dropStr 1 s).toNat?.map (fun n => -(n : Int)) else s.toNat?.map (fun n => (n : Int))

def parseHexDash (s : String) : Text := ((s.splitOn "-").filter (· ≠ "")).map parseHexWord

def parseVal (s : String) : Option PyVal :=
  if s == "n" then some .none
  else if s == "b0" then some (.bool false)
  else if s == "b1" then some (.bool true)
  else if s == "l" then some .list
  else if s == "finf" then some (.inf false)
  else if s == "f-inf" then some (.inf true)
  else if s == "fnan" then some .nan
  else if s.startsWith "i" then (parseInt? (dropStr 1 s)).map .int
  else if s.startsWith "s" then some (.str (parseHexDash (dropStr 1 s)))
  else if s.startsWith "f" then
    match (dropStr 1 s).splitOn "/" with
    | [a, b] => match parseInt? a, b.toNat? with
      | some n, some d => some (.float n d)
      | _, _ => none
    | _ => none
  else none

def showVal : PyVal → String
  | .none => "n"
  | .bool b => if b then "b1" else "b0"
  | .int i => "i" ++ toString i
  | .str s => "s" ++ "-".intercalate (s.map hexDigits)
  | .float n d => "f" ++ toString n ++ "/" ++ toString d
  | .inf neg => if neg then "f-inf" else "finf"
  | .nan => "fnan"
  | .list => "l"

def parseDict (s : String) : Option PyDict :=
  ((s.splitOn ";").filter (· ≠ "")).foldl (fun acc kv =>
    match acc, kv.splitOn "=" with
    | some d, [k, v] => (parseVal v).map (d.set k)
    | _, _ => none) (some [])

def showDict (d : PyDict) : String := ";".intercalate (d.map fun (k, v) => k ++ "=" ++ showVal v)

def showB (b : Bool) : String := if b then "1" else "0"
def showHexDash (t : Text) : String := "-".intercalate (t.map hexDigits)

def showPre : PreFilter → String
  | .keywordCase c => "kw:" ++ c.name
  | .identifierCase c => "id:" ++ c.name
  | .truncateString w ch => "trunc:" ++ toString w ++ ":" ++ showVal ch

def showStmt : StmtFilter → String
  | .spacesAroundOperators => "spaces"
  | .stripComments => "stripcomments"
  | .stripWhitespace => "stripws"
  | .reindent ch w iaf ic wa cf cp =>
    s!"reindent:{showHexDash ch}:{w}:{showB iaf}:{showB ic}:{wa}:{showB cf}:{showB cp}"
  | .alignedIndent ch => "aligned:" ++ showHexDash ch
  | .rightMargin w => "rightmargin:" ++ toString w

def showPost : PostFilter → String
  | .outputPHP => "php"
  | .outputPython => "python"

def showPlan (p : FilterPlan) : String :=
  "pre=" ++ ",".intercalate (p.preprocess.map showPre) ++ ";grouping=" ++ showB p.grouping ++
  ";stmt=" ++ ",".intercalate (p.stmtprocess.map showStmt) ++ ";post=" ++ ",".intercalate (p.postprocess.map showPost)

def cmdOpt (ws : List String) : String :=
  match parseDict ("".intercalate (words ws)) with
  | none => "bad-request"
  | some d =>
    match validateOptions d with
    | .error e => "err " ++ e.name
    | .ok o => "ok " ++ showDict o.raw ++ " | " ++ showPlan (buildFilterStack o)

/-! tokens -/
def parseToks (ws : List String) : Option (List Tok) :=
  let items := ((" ".intercalate ws).splitOn ";").filter (fun s => trimStr s ≠ "")
  items.foldr (fun it acc =>
    match acc, (trimStr it).splitOn "=" with
    | some l, [tt, v] => some (⟨parseTType (trimStr tt), (words (v.splitOn " ")).map parseHexWord⟩ :: l)
    | _, _ => none) (some [])

def showToks (ts : List Tok) : String :=
  ";".intercalate (ts.map fun t => showTType t.tt ++ "=" ++ showTextHex t.val)

def parseCase (s : String) : Option CaseConv :=
  if s == "upper" then some .upper else if s == "lower" then some .lower
  else if s == "capitalize" then some .capitalize else none

def cmdTokFilter (ws : List String) : String :=
  match words ws with
  | spec :: rest =>
    match parseToks rest with
    | none => "bad-request"
    | some ts =>
      let res : Option (Except PyErr (List Tok)) :=
        match spec.splitOn ":" with
        | ["kw", c] => (parseCase c).map fun c => .ok (keywordCaseFilter c ts)
        | ["id", c] => (parseCase c).map fun c => identifierCaseFilter c ts
        | ["trunc", w, ch] =>
          match parseInt? w, parseVal ch with
          | some w, some ch => some (truncateStringFilter w ch ts)
          | _, _ => none
        | _ => none
      match res with
      | none => "bad-request"
      | some (.error e) => "err " ++ e.name
      | some (.ok ts') => "ok " ++ showToks ts'
  | [] => "bad-request"

/-! trees -/
mutual
def fsexp : FNode → String
  | .tok tt v => if v.isEmpty then "[ " ++ showTType tt ++ " ]" else "[ " ++ showTType tt ++ " " ++ showTextHex v ++ " ]"
  | .grp c cv ks =>
    "( " ++ c.name ++ (if cv.isEmpty then " { }" else " { " ++ showTextHex cv ++ " }") ++ fsexpL ks ++ " )"
def fsexpL : List FNode → String
  | [] => ""
  | k :: ks => " " ++ fsexp k ++ fsexpL ks
end

def strText (s : String) : Text := s.toList.map Char.toNat

/-- a filter object of the stack with its mutable state -/
inductive FObj where
  | stripComments | stripWs | spaces | semicolon
  | outPython (count : Nat) | outPHP (count : Nat)
  | reindent (cfg : RCfg) (st : RSt) (last : Option Text)
  | aligned (char : Text) (st : ASt)

def parseBool (s : String) : Bool := s == "1"

def parseFObj (name : String) : Option FObj :=
  match name.splitOn ":" with
  | ["stripcomments"] => some .stripComments
  | ["stripws"] => some .stripWs
  | ["spaces"] => some .spaces
  | ["semicolon"] => some .semicolon
  | ["outpython", c] => c.toNat?.map fun c => .outPython (c - 1)
  | ["outphp", c] => c.toNat?.map fun c => .outPHP (c - 1)
  | ["reindent", ch, w, wa, cf, ic, cp, iaf] =>
    match parseInt? w, parseInt? wa with
    | some w, some wa =>
      some (.reindent { char := parseHexDash ch, width := w, wrapAfter := wa, commaFirst := parseBool cf,
                        indentColumns := parseBool ic, compact := parseBool cp } (RSt.init (parseBool iaf)) none)
    | _, _ => none
  | ["aligned", ch] => some (.aligned (parseHexDash ch) ASt.init)
  | _ => none

/-- `filter_.process(stmt)` -/
def FObj.process (fuel : Nat) (n : FNode) : FObj → Except PyErr (FNode × FObj)
  | .stripComments => (Sql.stripComments fuel n).map (·, .stripComments)
  | .stripWs => (stripWhitespace fuel n).map (·, .stripWs)
  | .spaces => (spacesAroundOperators fuel n).map (·, .spaces)
  | .semicolon => .ok (stripTrailingSemicolon n, .semicolon)
  | .outPython c => .ok (outputPython (c + 1) (strText "sql") n, .outPython (c + 1))
  | .outPHP c => .ok (outputPHP (c + 1) (strText "$sql") n, .outPHP (c + 1))
  | .reindent cfg st last => (reindentProcess cfg fuel st last n).map fun (n', st') => (n', .reindent cfg st' last)
  | .aligned ch st => (alignedProcess ch fuel st n).map fun (n', st') => (n', .aligned ch st')

/-- one statement through the chain -/
def runChain (fuel : Nat) : List FObj → FNode → Except PyErr (FNode × List FObj)
  | [], n => .ok (n, [])
  | f :: fs, n =>
    match f.process fuel n with
    | .error e => .error e
    | .ok (n', f') => (runChain fuel fs n').map fun (n'', fs') => (n'', f' :: fs')

/-- `_last_stmt = stmt`: when the next statement arrives, `str(self._last_stmt)` is the text the statement has then -/
def noteLast (t : Text) : FObj → FObj
  | .reindent cfg st _ => .reindent cfg st (some t)
  | f => f

/-- the statements of one script through one stack of filter objects; answers the trees, or the error and the
1-based index of the statement that raised it -/
def runScript (fuel : Nat) : List FObj → Nat → List FNode → Except (PyErr × Nat) (List FNode)
  | _, _, [] => .ok []
  | fs, i, n :: rest =>
    match runChain fuel fs n with
    | .error e => .error (e, i)
    | .ok (n', fs') => (runScript fuel (fs'.map (noteLast n'.text)) (i + 1) rest).map (n' :: ·)

def parseFObjs : List String → Option (List FObj)
  | [] => some []
  | s :: rest => match parseFObj s, parseFObjs rest with
    | some f, some fs => some (f :: fs)
    | _, _ => none

def cmdTreeFilter (ws : List String) : String :=
  match words ws with
  | names :: fuel :: rest =>
    match fuel.toNat?, parseNodes rest, parseFObjs ((names.splitOn ",").filter (· ≠ "")) with
    | some fuel, some ns, some fs =>
      match runScript fuel fs 1 (ns.map FNode.ofNode) with
      | .error (e, i) => "err " ++ e.name ++ " " ++ toString i
      | .ok ns' => "ok" ++ fsexpL ns'
    | _, _, _ => "bad-request"
  | _ => "bad-request"

/-! `filtersafe`: the decidable domains of SqlModel/Filters/Safe.lean -/

def showBit (b : Bool) : String := if b then "1" else "0"

def safeLine (n : FNode) : String :=
  "stripcomments=1 spaces=1 stripws=" ++ showBit (FilterSafe.stripws n) ++ " reindent=" ++ showBit (FilterSafe.reindent false n) ++
    " aligned=" ++ showBit (FilterSafe.aligned n)

def FObj.safe (n : FNode) : FObj → Bool
  | .stripWs => FilterSafe.stripws n
  | .reindent .. => FilterSafe.reindent false n
  | .aligned .. => FilterSafe.aligned n
  | _ => true

def FObj.label : FObj → String
  | .stripComments => "stripcomments" | .stripWs => "stripws" | .spaces => "spaces" | .semicolon => "semicolon"
  | .outPython _ => "outpython" | .outPHP _ => "outphp" | .reindent .. => "reindent" | .aligned .. => "aligned"

/-- one statement through the chain, reporting for every stage its domain predicate on the tree it receives and its outcome -/
def safeChain (fuel : Nat) : List FObj → FNode → String × Option (FNode × List FObj)
  | [], n => ("", some (n, []))
  | f :: fs, n =>
    let pre := " " ++ f.label ++ ":" ++ showBit (f.safe n) ++ ":"
    match f.process fuel n with
    | .error e => (pre ++ e.name, none)
    | .ok (n', f') =>
      let (s, r) := safeChain fuel fs n'
      (pre ++ "ok" ++ s, r.map fun (n'', fs') => (n'', f' :: fs'))

def safeScript (fuel : Nat) : List FObj → List FNode → List String
  | _, [] => []
  | fs, n :: rest =>
    match safeChain fuel fs n with
    | (s, none) => [s]
    | (s, some (n', fs')) => s :: safeScript fuel (fs'.map (noteLast n'.text)) rest

/-- `filtersafe <sexp> …` → `ok stripcomments=1 spaces=1 stripws=b reindent=b aligned=b | …` (one group per statement);
`filtersafe chain=<f1,f2,…> <fuel> <sexp> …` → `ok <f1>:<b>:<ok|Exception> <f2>:… | …`: every statement through the chain
(filter syntax of `treefilter`), per stage the predicate on the tree that stage receives and what the stage did; the
report stops at the first exception -/
def cmdFilterSafe (ws : List String) : String :=
  match words ws with
  | first :: rest =>
    if first.startsWith "chain=" then
      match rest with
      | fuel :: rest' =>
        match fuel.toNat?, parseNodes rest', parseFObjs (((dropStr 6 first).splitOn ",").filter (· ≠ "")) with
        | some fuel, some ns, some fs => "ok" ++ " |".intercalate (safeScript fuel fs (ns.map FNode.ofNode))
        | _, _, _ => "bad-request"
      | [] => "bad-request"
    else
      match parseNodes (first :: rest) with
      | some ns => "ok " ++ " | ".intercalate (ns.map fun n => safeLine (FNode.ofNode n))
      | none => "bad-request"
  | [] => "bad-request"

def cmdSerialize (ws : List String) : String :=
  match parseNodes (words ws) with
  | some [n] => "ok " ++ showTextHex (serialize (FNode.ofNode n))
  | _ => "bad-request"

/-- `fmtstmt <k=v;…|-> <count> <fuel> <sexp of one statement>`: validate the options, build the plan, run stmtprocess +
postprocess + serializer on the (already grouped) `count`-th statement → `ok <hex text>`, `err <PyErr>`, or `stage3`
when the plan needs a filter that is not modelled yet -/
def cmdFmtStmt (ws : List String) : String :=
  match words ws with
  | opts :: count :: fuel :: rest =>
    match parseDict (if opts == "-" then "" else opts), count.toNat?, fuel.toNat?, parseNodes rest with
    | some d, some count, some fuel, some [n] =>
      match validateOptions d with
      | .error e => "err " ++ e.name
      | .ok o =>
        match formatStmt (buildFilterStack o) count fuel (FNode.ofNode n) with
        | none => "stage3"
        | some (.error e) => "err " ++ e.name
        | some (.ok t) => "ok " ++ showTextHex t
    | _, _, _, _ => "bad-request"
  | _ => "bad-request"

/-- `fmt <k=v;…|-> <fuel> <hex text>` → `ok <hex text>` = `sqlparse.format(text, **options)`, or `err <PyErr>` -/
def cmdFmt (ws : List String) : String :=
  match words ws with
  | opts :: fuel :: rest =>
    match parseDict (if opts == "-" then "" else opts), fuel.toNat? with
    | some d, some fuel =>
      match format fuel d (rest.map parseHexWord).toArray with
      | .error e => "err " ++ e.name
      | .ok t => "ok " ++ showTextHex t
    | _, _ => "bad-request"
  | _ => "bad-request"

/-- `caseconv <case> <hex text>` → hex text (direct access to `str.upper/lower/capitalize`) -/
def cmdCaseConv (ws : List String) : String :=
  match words ws with
  | c :: rest =>
    match parseCase c with
    | some c => "ok " ++ showTextHex (c.apply (rest.map parseHexWord))
    | none => "bad-request"
  | [] => "bad-request"

/-- `sertext <hex text>` → `SerializerUnicode` on a raw string -/
def cmdSerText (ws : List String) : String := "ok " ++ showTextHex (serializeText ((words ws).map parseHexWord))

/-! `liftok`: the decidable predicates of the C10 reindent clause (SqlModel/Filters/Lift.lean) along a `format()` run -/

/-- the statement filters one by one; at the ReindentFilter: `liftOK` of the tree it receives, `brkOK` of the tree it returns,
and whether clause (3) of the side conditions fails (`idListSplit`) -/
def runStmtObjsLift (fuel : Nat) : List StmtObj → FNode → Except PyErr (FNode × List StmtObj × Option (Bool × Bool × Bool))
  | [], n => .ok (n, [], none)
  | f :: fs, n =>
    match f.process fuel n with
    | .error e => .error e
    | .ok (n', f') =>
      let rep : Option (Bool × Bool × Bool) := match f with
        | .reindent .. => some (liftOK n, brkOK n', idListSplit n)
        | _ => none
      match runStmtObjsLift fuel fs n' with
      | .error e => .error e
      | .ok (n'', fs', rep') => .ok (n'', f' :: fs', if rep.isSome then rep else rep')

def b01 (b : Bool) : String := if b then "1" else "0"

/-- one word per statement: `l:b:i`, `-` (no ReindentFilter in the stack), or `err:<Exception>` (the run stops there) -/
def liftStatements (fuel : Nat) (grouping : Bool) : List StmtObj → List (List Tok) → List String
  | _, [] => []
  | objs, st :: rest =>
    let tree : Except PyErr Node :=
      if grouping then groupStatement fuel st else .ok (.grp .Statement (st.map fun t => Node.tok t.tt t.val))
    match tree with
    | .error e => ["err:" ++ e.name]
    | .ok tree =>
      match runStmtObjsLift fuel objs (FNode.ofNode tree) with
      | .error e => ["err:" ++ e.name]
      | .ok (n, objs', rep) =>
        let w := match rep with
          | some (l, b, i) => b01 l ++ ":" ++ b01 b ++ ":" ++ b01 i
          | none => "-"
        w :: liftStatements fuel grouping (objs'.map (StmtObj.noteLast n.text)) rest

/-- `liftok <k=v;…|-> <fuel> <hex text>` → `ok <word per statement>` (options as for `fmt`; token filters are applied first) -/
def cmdLiftOk (ws : List String) : String :=
  match words ws with
  | opts :: fuel :: rest =>
    match parseDict (if opts == "-" then "" else opts), fuel.toNat? with
    | some d, some fuel =>
      match validateOptions d with
      | .error e => "err " ++ e.name
      | .ok o =>
        let p := buildFilterStack o
        match lex defaultCfg (rest.map parseHexWord).toArray with
        | .error e => "err " ++ e.name
        | .ok toks =>
          let (good, _) := preprocessPrefix p.preprocess toks
          match splitProcess defaultSplitCfg good with
          | .error e => "err " ++ e.name
          | .ok stmts => "ok " ++ " ".intercalate (liftStatements fuel p.grouping (p.stmtprocess.map StmtObj.ofFilter) stmts)
    | _, _ => "bad-request"
  | _ => "bad-request"

end Sql.Driver
