import SqlModel.Sexp
import SqlModel.Options
import SqlModel.Filters
import SqlModel.Filters.Stage2
/-!
# SqlModel.FilterDriver — line-protocol commands of the formatting side (used by Main.lean)

* `opt k=v;k=v;…`                → `ok <dict> | <plan>`  or `err <PyErr>`
  values: `n` None, `b0`/`b1`, `i<int>`, `s<hex-hex-…>`, `f<num>/<den>` finite float, `finf`, `f-inf`, `fnan`, `l` list
* `tokfilter <spec> <tokens>`    → `ok <tokens>` or `err <PyErr>`; spec `kw:<case>` | `id:<case>` | `trunc:<width>:<value>`;
  tokens `Type.Path=hex hex;Type.Path=hex …`
* `treefilter <f1,f2,…> <fuel> <sexp of one statement>` → `ok <sexp with cached values>` or `err <PyErr>`;
  filters `stripcomments` `stripws` `spaces` `semicolon` `outpython:<count>` `outphp:<count>`, applied in order on
  the same tree (caches are carried from one filter to the next, as in `FilterStack.run`)
* `serialize <sexp of one statement>` → `ok <hex text>`
* `fmtstmt <opts|-> <count> <fuel> <sexp>` → the tail of `FilterStack.run` for one grouped statement
-/
namespace Sql.Driver

def words (ws : List String) : List String := ws.filter (· ≠ "")

def dropStr (n : Nat) (s : String) : String := String.ofList (s.toList.drop n)
def trimStr (s : String) : String :=
  String.ofList ((s.toList.dropWhile (· == ' ')).reverse.dropWhile (· == ' ')).reverse

def parseInt? (s : String) : Option Int :=
  if s.startsWith "-" then (dropStr 1 s).toNat?.map (fun n => -(n : Int)) else s.toNat?.map (fun n => (n : Int))

def parseHexDash (s : String) : Text := ((s.splitOn "-").filter (· ≠ "")).map parseHexWord

def parseVal (s : String) : Option PyVal :=
  if s == "n" then some .none
  else if s == "b0" then some (.bool false)
  else if s == "b1" then some (.bool true)
  else if s == "l" then some .list
  else if s == "finf" then some (.inf false)
  else if s == "f-inf" then some (.inf true)
  else if s == "fnan" then some .nan
  else if s.startsWith "i" then (parseInt? (dropStr 1 s)).map .int
  else if s.startsWith "s" then some (.str (parseHexDash (dropStr 1 s)))
  else if s.startsWith "f" then
    match (dropStr 1 s).splitOn "/" with
    | [a, b] => match parseInt? a, b.toNat? with
      | some n, some d => some (.float n d)
      | _, _ => none
    | _ => none
  else none

def showVal : PyVal → String
  | .none => "n"
  | .bool b => if b then "b1" else "b0"
  | .int i => "i" ++ toString i
  | .str s => "s" ++ "-".intercalate (s.map hexDigits)
  | .float n d => "f" ++ toString n ++ "/" ++ toString d
  | .inf neg => if neg then "f-inf" else "finf"
  | .nan => "fnan"
  | .list => "l"

def parseDict (s : String) : Option PyDict :=
  ((s.splitOn ";").filter (· ≠ "")).foldl (fun acc kv =>
    match acc, kv.splitOn "=" with
    | some d, [k, v] => (parseVal v).map (d.set k)
    | _, _ => none) (some [])

def showDict (d : PyDict) : String := ";".intercalate (d.map fun (k, v) => k ++ "=" ++ showVal v)

def showB (b : Bool) : String := if b then "1" else "0"
def showHexDash (t : Text) : String := "-".intercalate (t.map hexDigits)

def showPre : PreFilter → String
  | .keywordCase c => "kw:" ++ c.name
  | .identifierCase c => "id:" ++ c.name
  | .truncateString w ch => "trunc:" ++ toString w ++ ":" ++ showVal ch

def showStmt : StmtFilter → String
  | .spacesAroundOperators => "spaces"
  | .stripComments => "stripcomments"
  | .stripWhitespace => "stripws"
  | .reindent ch w iaf ic wa cf cp =>
    s!"reindent:{showHexDash ch}:{w}:{showB iaf}:{showB ic}:{wa}:{showB cf}:{showB cp}"
  | .alignedIndent ch => "aligned:" ++ showHexDash ch
  | .rightMargin w => "rightmargin:" ++ toString w

def showPost : PostFilter → String
  | .outputPHP => "php"
  | .outputPython => "python"

def showPlan (p : FilterPlan) : String :=
  "pre=" ++ ",".intercalate (p.preprocess.map showPre) ++ ";grouping=" ++ showB p.grouping ++
  ";stmt=" ++ ",".intercalate (p.stmtprocess.map showStmt) ++ ";post=" ++ ",".intercalate (p.postprocess.map showPost)

def cmdOpt (ws : List String) : String :=
  match parseDict ("".intercalate (words ws)) with
  | none => "bad-request"
  | some d =>
    match validateOptions d with
    | .error e => "err " ++ e.name
    | .ok o => "ok " ++ showDict o.raw ++ " | " ++ showPlan (buildFilterStack o)

/-! tokens -/
def parseToks (ws : List String) : Option (List Tok) :=
  let items := ((" ".intercalate ws).splitOn ";").filter (fun s => trimStr s ≠ "")
  items.foldr (fun it acc =>
    match acc, (trimStr it).splitOn "=" with
    | some l, [tt, v] => some (⟨parseTType (trimStr tt), (words (v.splitOn " ")).map parseHexWord⟩ :: l)
    | _, _ => none) (some [])

def showToks (ts : List Tok) : String :=
  ";".intercalate (ts.map fun t => showTType t.tt ++ "=" ++ showTextHex t.val)

def parseCase (s : String) : Option CaseConv :=
  if s == "upper" then some .upper else if s == "lower" then some .lower
  else if s == "capitalize" then some .capitalize else none

def cmdTokFilter (ws : List String) : String :=
  match words ws with
  | spec :: rest =>
    match parseToks rest with
    | none => "bad-request"
    | some ts =>
      let res : Option (Except PyErr (List Tok)) :=
        match spec.splitOn ":" with
        | ["kw", c] => (parseCase c).map fun c => .ok (keywordCaseFilter c ts)
        | ["id", c] => (parseCase c).map fun c => identifierCaseFilter c ts
        | ["trunc", w, ch] =>
          match parseInt? w, parseVal ch with
          | some w, some ch => some (truncateStringFilter w ch ts)
          | _, _ => none
        | _ => none
      match res with
      | none => "bad-request"
      | some (.error e) => "err " ++ e.name
      | some (.ok ts') => "ok " ++ showToks ts'
  | [] => "bad-request"

/-! trees -/
mutual
def fsexp : FNode → String
  | .tok tt v => if v.isEmpty then "[ " ++ showTType tt ++ " ]" else "[ " ++ showTType tt ++ " " ++ showTextHex v ++ " ]"
  | .grp c cv ks =>
    "( " ++ c.name ++ (if cv.isEmpty then " { }" else " { " ++ showTextHex cv ++ " }") ++ fsexpL ks ++ " )"
def fsexpL : List FNode → String
  | [] => ""
  | k :: ks => " " ++ fsexp k ++ fsexpL ks
end

def strText (s : String) : Text := s.toList.map Char.toNat

def applyFilter (name : String) (fuel : Nat) (n : FNode) : Option (Except PyErr FNode) :=
  match name.splitOn ":" with
  | ["stripcomments"] => some (stripComments fuel n)
  | ["stripws"] => some (stripWhitespace fuel n)
  | ["spaces"] => some (spacesAroundOperators fuel n)
  | ["semicolon"] => some (.ok (stripTrailingSemicolon n))
  | ["outpython", c] => c.toNat?.map fun c => .ok (outputPython c (strText "sql") n)
  | ["outphp", c] => c.toNat?.map fun c => .ok (outputPHP c (strText "$sql") n)
  | _ => none

def applyFilters : List String → Nat → FNode → Option (Except PyErr FNode)
  | [], _, n => some (.ok n)
  | f :: fs, fuel, n =>
    match applyFilter f fuel n with
    | none => none
    | some (.error e) => some (.error e)
    | some (.ok n') => applyFilters fs fuel n'

def cmdTreeFilter (ws : List String) : String :=
  match words ws with
  | names :: fuel :: rest =>
    match fuel.toNat?, parseNodes rest with
    | some fuel, some [n] =>
      match applyFilters ((names.splitOn ",").filter (· ≠ "")) fuel (FNode.ofNode n) with
      | none => "bad-request"
      | some (.error e) => "err " ++ e.name
      | some (.ok n') => "ok " ++ fsexp n'
    | _, _ => "bad-request"
  | _ => "bad-request"

def cmdSerialize (ws : List String) : String :=
  match parseNodes (words ws) with
  | some [n] => "ok " ++ showTextHex (serialize (FNode.ofNode n))
  | _ => "bad-request"

/-- `fmtstmt <k=v;…|-> <count> <fuel> <sexp of one statement>`: validate the options, build the plan, run stmtprocess +
postprocess + serializer on the (already grouped) `count`-th statement → `ok <hex text>`, `err <PyErr>`, or `stage3`
when the plan needs a filter that is not modelled yet -/
def cmdFmtStmt (ws : List String) : String :=
  match words ws with
  | opts :: count :: fuel :: rest =>
    match parseDict (if opts == "-" then "" else opts), count.toNat?, fuel.toNat?, parseNodes rest with
    | some d, some count, some fuel, some [n] =>
      match validateOptions d with
      | .error e => "err " ++ e.name
      | .ok o =>
        match formatStmt (buildFilterStack o) count fuel (FNode.ofNode n) with
        | none => "stage3"
        | some (.error e) => "err " ++ e.name
        | some (.ok t) => "ok " ++ showTextHex t
    | _, _, _, _ => "bad-request"
  | _ => "bad-request"

/-- `caseconv <case> <hex text>` → hex text (direct access to `str.upper/lower/capitalize`) -/
def cmdCaseConv (ws : List String) : String :=
  match words ws with
  | c :: rest =>
    match parseCase c with
    | some c => "ok " ++ showTextHex (c.apply (rest.map parseHexWord))
    | none => "bad-request"
  | [] => "bad-request"

/-- `sertext <hex text>` → `SerializerUnicode` on a raw string -/
def cmdSerText (ws : List String) : String := "ok " ++ showTextHex (serializeText ((words ws).map parseHexWord))

end Sql.Driver
