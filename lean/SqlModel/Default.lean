import SqlModel.Lexer
import SqlModel.Generated.Unicode
import SqlModel.Generated.Rules
import SqlModel.Generated.Keywords
/-!
# SqlModel.Default — the lexer configuration of the unchanged `default_initialization`,
assembled from the tables regenerated from /repo on every run.
-/
namespace Sql

/-- binary search in a table sorted by key -/
def tabFind {α : Type} (tab : Array (Nat × α)) (c : Nat) : Option α :=
  let rec go (lo hi : Nat) : Nat → Option α
    | 0 => none
    | fuel+1 =>
      if lo ≥ hi then none else
      let mid := (lo + hi) / 2
      match tab[mid]? with
      | none => none
      | some (k, v) => if k == c then some v else if k < c then go (mid+1) hi fuel else go lo mid fuel
  go 0 tab.size 32

def sreLower (c : Cp) : Cp := (tabFind Gen.lowerTab c).getD c
def strUpper1 (c : Cp) : Text := (tabFind Gen.upperTab c).getD [c]
def strLower1 (c : Cp) : Text := (tabFind Gen.strLowerTab c).getD [c]

def defaultCfg : LexCfg :=
  { rules := Gen.rules, dicts := Gen.dicts, word := Gen.wordSet, lower := sreLower, upper := strUpper1 }

def pyUpper (v : Text) : Text := upperText strUpper1 v
def isSpace (c : Cp) : Bool := Gen.spaceSet.mem c

end Sql
