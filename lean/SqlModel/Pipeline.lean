import SqlModel.Default
import SqlModel.Splitter
import SqlModel.Tree
import SqlModel.Generated.Tables
/-!
# SqlModel.Pipeline — lexer ∘ splitter, `split()`; (grouping, filters and `run` are added by later modules)
-/
namespace Sql

def defaultSplitCfg : SplitCfg := { upper := pyUpper, isSpace := isSpace, eos := Gen.eosTTypes }

/-- `str.strip()` -/
def pyStrip (v : Text) : Text :=
  ((v.dropWhile isSpace).reverse.dropWhile isSpace).reverse

def pyRStrip (v : Text) : Text := (v.reverse.dropWhile isSpace).reverse

/-- the flat statements `StatementSplitter().process(lexer.tokenize(text))` -/
def lexSplit (s : Array Cp) : Except PyErr (List (List Tok)) :=
  match lex defaultCfg s with
  | .error e => .error e
  | .ok ts => splitProcess defaultSplitCfg ts

def stmtText (st : List Tok) : Text := (st.map (·.val)).flatten

/-- `sqlparse.split(text)` (without `strip_semicolon`) -/
def split (s : Array Cp) : Except PyErr (List Text) :=
  (lexSplit s).map fun sts => sts.map (pyStrip ∘ stmtText)

end Sql
