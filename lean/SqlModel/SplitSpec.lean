import SqlModel.Splitter
/-!
# SqlModel.SplitSpec — decidable predicates in which the splitter theorems (C05, C17) are stated; the driver evaluates
them on generated scripts so that "inside the proved domain" is decided by the same definitions the theorems use.
-/
namespace Sql

def isSemi (t : Tok) : Bool := t.tt == T.Punctuation && t.val == txt ";"

/-- the `GO` rule does not fire and `value.split()[0]` does not raise -/
def noGo (cfg : SplitCfg) (t : Tok) : Bool :=
  t.tt != T.Keyword ||
    (match splitFirst cfg.isSpace t.val with
     | some w => cfg.upper w != txt "GO"
     | none => false)

def quiet (cfg : SplitCfg) : SplitFlags → Int → List Tok → Bool
  | _, _, [] => true
  | f, l, t :: ts =>
    let r := changeSplitLevel cfg f t.tt t.val
    !(decide (l + r.fst ≤ 0) && isSemi t) && noGo cfg t && quiet cfg r.snd (l + r.fst) ts

/-- flags and level after a token list -/
def runFL (cfg : SplitCfg) : SplitFlags → Int → List Tok → SplitFlags × Int
  | f, l, [] => (f, l)
  | f, l, t :: ts =>
    let r := changeSplitLevel cfg f t.tt t.val
    runFL cfg r.snd (l + r.fst) ts

/-- the EOS types are neither keywords nor punctuation (a fact about the generated `EOS_TTYPE`) -/
def EosNeutral (cfg : SplitCfg) : Bool :=
  cfg.eos.all fun tt => !tt.isIn T.Keyword && tt != T.Punctuation && tt != T.Keyword

/-- a statement of the script: quiet body ending at level ≤ 0, its `;`, and the EOS-typed tokens that follow -/
structure SUnit where
  body : List Tok
  semi : Tok
  trail : List Tok

def SUnit.toks (u : SUnit) : List Tok := u.body ++ [u.semi] ++ u.trail

/-- the head of a body must not be of an EOS type (otherwise the splitter attaches it to the previous statement) -/
def headNotEos (cfg : SplitCfg) : List Tok → Bool
  | [] => false
  | t :: _ => !cfg.eos.contains t.tt

def SUnit.ok (cfg : SplitCfg) (u : SUnit) : Bool :=
  headNotEos cfg u.body && quiet cfg {} 0 u.body && decide ((runFL cfg {} 0 u.body).snd ≤ 0) && isSemi u.semi &&
    u.trail.all (fun t => cfg.eos.contains t.tt)

end Sql
