import SqlModel.Basic
/-!
# SqlModel.Regex — backtracking regular expressions as an ordered list of successes

`derivs E r st` lists **all** derivations of `r` from state `st` in CPython's backtracking priority
order (greedy: more iterations first; lazy: fewer first; alternation left to right). `re.match`
returns the head. The list is not de-duplicated: its length is the number of distinct derivations,
which is what C16 bounds. The AST is exactly what `re._parser` emits for sqlparse's tables
(the translator fails loudly on any other opcode).
-/
namespace Sql

inductive Re where
  | eps
  | set (S : CpSet)
  | cat (a b : Re)
  | alt (a b : Re)
  | rep (lo : Nat) (hi : Option Nat) (greedy : Bool) (r : Re)
  | grp (n : Nat) (r : Re)
  | bref (n : Nat)
  | look (ahead neg : Bool) (width : Nat) (r : Re)
  | atEnd
  | wordB
deriving Repr, DecidableEq

/-- matcher state: position and capture groups (group ↦ (start, end), most recent first) -/
structure St where
  pos : Nat
  caps : List (Nat × Nat × Nat)
deriving Repr, DecidableEq

/-- the subject string and the two Unicode facts the matcher consumes -/
structure Env where
  s : Array Cp
  word : CpSet          -- `\w` under re.UNICODE (for `\b`)
  lower : Cp → Cp       -- `_sre.unicode_tolower` (for case-insensitive back-references)

def capOf (caps : List (Nat × Nat × Nat)) (n : Nat) : Option (Nat × Nat) :=
  match caps.find? (fun c => c.1 == n) with
  | some c => some c.2
  | none => none

def isWordAt (E : Env) (i : Nat) : Bool :=
  match E.s[i]? with
  | some c => E.word.mem c
  | none => false

/-- compare s[a..a+len) with s[p..p+len) after case folding -/
def sameFold (E : Env) (a p len : Nat) : Bool :=
  (List.range len).all fun k =>
    match E.s[a+k]?, E.s[p+k]? with
    | some x, some y => E.lower x == E.lower y
    | _, _ => false

/-- iterate `step` between `lo` and `hi` times; an iteration must make progress
(CPython stops a repetition whose body matched empty; the generated obligation
`bodiesNonNullable` says no unbounded repetition of the tables has a nullable body). -/
def repAux (step : St → List St) (greedy : Bool) : Nat → Nat → Option Nat → St → List St
  | 0, lo, _, st => if lo = 0 then [st] else []
  | fuel+1, lo, hi, st =>
    if hi = some 0 then (if lo = 0 then [st] else []) else
    let more := ((step st).filter (fun st' => st.pos < st'.pos)).flatMap
                  (fun st' => repAux step greedy fuel (lo - 1) (hi.map (· - 1)) st')
    let stop := if lo = 0 then [st] else []
    if greedy then more ++ stop else stop ++ more

def derivs (E : Env) : Re → St → List St
  | .eps, st => [st]
  | .set S, st =>
    match E.s[st.pos]? with
    | some c => if S.mem c then [{ st with pos := st.pos + 1 }] else []
    | none => []
  | .cat a b, st => (derivs E a st).flatMap (derivs E b)
  | .alt a b, st => derivs E a st ++ derivs E b st
  | .rep lo hi g r, st => repAux (derivs E r) g (E.s.size - st.pos + 1) lo hi st
  | .grp n r, st => (derivs E r st).map fun st' => { st' with caps := (n, st.pos, st'.pos) :: st'.caps }
  | .bref n, st =>
    match capOf st.caps n with
    | some (a, b) =>
      let len := b - a
      if st.pos + len ≤ E.s.size && sameFold E a st.pos len then [{ st with pos := st.pos + len }] else []
    | none => []
  | .look ahead neg w r, st =>
    let ok :=
      if ahead then !(derivs E r st).isEmpty
      else if st.pos < w then false
      else (derivs E r { st with pos := st.pos - w }).any (fun st' => st'.pos == st.pos)
    if ok != neg then [st] else []
  | .atEnd, st =>
    if st.pos = E.s.size || (st.pos + 1 = E.s.size && E.s[st.pos]? == some 10) then [st] else []
  | .wordB, st =>
    let before := st.pos > 0 && isWordAt E (st.pos - 1)
    let after := isWordAt E st.pos
    if before != after then [st] else []

/-- minimal width of any match -/
def minW : Re → Nat
  | .eps => 0 | .set _ => 1 | .cat a b => minW a + minW b | .alt a b => min (minW a) (minW b)
  | .rep lo _ _ r => lo * minW r | .grp _ r => minW r | .bref _ => 0 | .look .. => 0 | .atEnd => 0 | .wordB => 0

/-- `re.match(text, pos)`: the first derivation, if any -/
def matchAt (E : Env) (r : Re) (p : Nat) : Option St := (derivs E r ⟨p, []⟩).head?

end Sql

namespace Sql
/-- every *unbounded* repetition body has positive minimal width: the condition under which "iterate only
on progress" (`repAux`) coincides with CPython's treatment of empty iterations.  (A bounded repetition of a
nullable body, such as the optional prefix of the JOIN rule, has the same set of derivations in both
readings; only their order can differ, which stream S-RE samples.) -/
def repBodiesOK : Re → Bool
  | .eps | .set _ | .bref _ | .atEnd | .wordB => true
  | .cat a b | .alt a b => repBodiesOK a && repBodiesOK b
  | .rep _ hi _ r => (hi.isSome || decide (1 ≤ minW r)) && repBodiesOK r
  | .grp _ r => repBodiesOK r
  | .look _ _ _ r => repBodiesOK r
end Sql
