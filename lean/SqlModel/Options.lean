import SqlModel.PyVal
import SqlModel.Filters.Case
import SqlModel.Generated.OptionTable
/-!
# SqlModel.Options — `formatter.validate_options` and `formatter.build_filter_stack`

`validate_options` mutates and returns the keyword dictionary; the model keeps that dictionary as an association
list with Python's `dict` behaviour (assignment to an existing key keeps its position, a new key is appended) and
interprets the generated stanza table `Gen.optRules` (one `OptRule` per stanza, extracted from the source with `ast`).
Python quirks that survive into the model:
* `x not in [True, False]` is `==`-membership: `1`, `0`, `1.0`, `0.0` pass and are stored *unchanged*;
* `int(x)`: `ValueError`/`TypeError` are caught and become `SQLParseError`; `int(float('inf'))` raises
  `OverflowError`, which is **not** caught and escapes `format()`;
* `truncate_char` is never validated (a non-`str` makes `TruncateStringFilter` raise `TypeError` later);
* implied options: `indent_columns ⇒ reindent`, `reindent`/`reindent_aligned ⇒ strip_whitespace`,
  `indent_tabs ⇒ indent_char`.
`Options` is the typed reading of the validated dictionary that `build_filter_stack` and the filters consume.
-/
namespace Sql

abbrev PyDict := List (String × PyVal)

namespace PyDict

/-- `d.get(k)` as an `Option` (absent key = `none`) -/
def get? (d : PyDict) (k : String) : Option PyVal :=
  match d with
  | [] => Option.none
  | (k', v) :: rest => if k' == k then some v else get? rest k

/-- `d.get(k, dflt)` -/
def getD (d : PyDict) (k : String) (dflt : PyVal) : PyVal := (d.get? k).getD dflt

/-- `d[k] = v` -/
def set (d : PyDict) (k : String) (v : PyVal) : PyDict :=
  match d with
  | [] => [(k, v)]
  | (k', v') :: rest => if k' == k then (k, v) :: rest else (k', v') :: set rest k v

def setAll (d : PyDict) (kvs : List (String × PyVal)) : PyDict := kvs.foldl (fun d kv => d.set kv.1 kv.2) d

end PyDict

/-- `int(v)` with the generated Unicode facts -/
def optInt (v : PyVal) : Except PyErr Int := pyInt isSpace Gen.decStarts v

/-- `not isinstance(v, str)` -/
def notStr : PyVal → Bool
  | .str _ => false
  | _ => true

/-- one stanza of `validate_options` -/
def runOptRule (d : PyDict) : OptRule → Except PyErr PyDict
  | .choice key allowed =>
    if (d.getD key .none).pyIn allowed then .ok d else .error .sqlParseError
  | .flag key dflt allowed ifTrue ifFalse store =>
    let v := d.getD key dflt
    if !v.pyIn allowed then .error .sqlParseError
    else
      let d1 := d.setAll (if v.truthy then ifTrue else ifFalse)
      .ok (if store then d1.set key v else d1)
  | .intOpt key dflt noneSkips caught bound strict storeInside fill storeAfter mustStr =>
    let v := d.getD key dflt
    if noneSkips && v == .none then .ok (if storeAfter then d.set key v else d)
    else
      match optInt v with
      | .error e => .error (if caught.contains e then .sqlParseError else e)
      | .ok i =>
        if (if strict then i < bound else i ≤ bound) then .error .sqlParseError
        else
          let d1 := if storeInside then d.set key (.int i) else d
          let d2 := fill.foldl (fun d kd => d.set kd.1 (d.getD kd.1 kd.2)) d1
          if mustStr.any (fun k => notStr (d2.getD k .none)) then .error .sqlParseError
          else .ok (if storeAfter then d2.set key (.int i) else d2)

def runOptRules : List OptRule → PyDict → Except PyErr PyDict
  | [], d => .ok d
  | r :: rs, d =>
    match runOptRule d r with
    | .error e => .error e
    | .ok d' => runOptRules rs d'

/-- `formatter.validate_options(options)` on the dictionary level -/
def validateDict (d : PyDict) : Except PyErr PyDict := runOptRules Gen.optRules d

/-! ## the typed view -/

def strOf (s : String) : Text := s.toList.map Char.toNat

def CaseConv.ofVal? (v : PyVal) : Option CaseConv :=
  if v == .str (strOf "upper") then some .upper
  else if v == .str (strOf "lower") then some .lower
  else if v == .str (strOf "capitalize") then some .capitalize
  else Option.none

structure Options where
  keywordCase : Option CaseConv
  identifierCase : Option CaseConv
  outputFormat : Option Text
  stripComments : Bool
  spaceAroundOperators : Bool
  stripWhitespace : Bool
  truncateStrings : Option Int
  truncateChar : PyVal
  indentColumns : Bool
  reindent : Bool
  reindentAligned : Bool
  indentAfterFirst : Bool
  indentChar : Text
  indentWidth : Int
  wrapAfter : Int
  commaFirst : Bool
  compact : Bool
  rightMargin : Option Int
  /-- the dictionary `validate_options` returns (unknown keys pass through; flag values keep their Python type) -/
  raw : PyDict
deriving Repr

/-- read a validated dictionary the way `build_filter_stack` does (`options.get(k)` truthiness, `options[k]`) -/
def Options.ofDict (d : PyDict) : Options :=
  let flag (k : String) : Bool := (d.getD k .none).truthy
  let int? (k : String) : Option Int := match d.get? k with
    | some (.int i) => some i
    | _ => Option.none
  { keywordCase := (d.get? "keyword_case").bind CaseConv.ofVal?
    identifierCase := (d.get? "identifier_case").bind CaseConv.ofVal?
    outputFormat := match d.get? "output_format" with
      | some (.str s) => some s
      | _ => Option.none
    stripComments := flag "strip_comments"
    spaceAroundOperators := flag "use_space_around_operators"
    stripWhitespace := flag "strip_whitespace"
    truncateStrings := int? "truncate_strings"
    truncateChar := d.getD "truncate_char" .none
    indentColumns := flag "indent_columns"
    reindent := flag "reindent"
    reindentAligned := flag "reindent_aligned"
    indentAfterFirst := flag "indent_after_first"
    indentChar := match d.get? "indent_char" with
      | some (.str s) => s
      | _ => []
    indentWidth := (int? "indent_width").getD 0
    wrapAfter := (int? "wrap_after").getD 0
    commaFirst := flag "comma_first"
    compact := flag "compact"
    rightMargin := int? "right_margin"
    raw := d }

/-- `formatter.validate_options` -/
def validateOptions (d : PyDict) : Except PyErr Options := (validateDict d).map Options.ofDict

/-! ## `build_filter_stack` -/

inductive PreFilter where
  | keywordCase (c : CaseConv)
  | identifierCase (c : CaseConv)
  | truncateString (width : Int) (char : PyVal)
deriving Repr

inductive StmtFilter where
  | spacesAroundOperators
  | stripComments
  | stripWhitespace
  | reindent (char : Text) (width : Int) (indentAfterFirst indentColumns : Bool) (wrapAfter : Int)
      (commaFirst compact : Bool)
  | alignedIndent (char : Text)
  | rightMargin (width : Int)
deriving Repr

inductive PostFilter where
  | outputPHP
  | outputPython
deriving Repr, DecidableEq

structure FilterPlan where
  preprocess : List PreFilter
  grouping : Bool
  stmtprocess : List StmtFilter
  postprocess : List PostFilter
deriving Repr

/-- `str.lower` of `output_format` compared with a lower-case ASCII word -/
def fmtIs (o : Options) (w : String) : Bool :=
  match o.outputFormat with
  | some s => pyLower s == strOf w
  | Option.none => false

/-- `formatter.build_filter_stack(FilterStack(), options)`; `sqlparse.format` then appends `SerializerUnicode`
to `postprocess`.  (`options.get('keyword_case')` etc. are truthiness tests; after validation the values are
`None` or a non-empty string / an `int ≥ 2` / a flag value.) -/
def buildFilterStack (o : Options) : FilterPlan :=
  let pre : List PreFilter :=
    (match o.keywordCase with | some c => [.keywordCase c] | Option.none => []) ++
    (match o.identifierCase with | some c => [.identifierCase c] | Option.none => []) ++
    (match o.truncateStrings with
     | some w => if w != 0 then [.truncateString w o.truncateChar] else []
     | Option.none => [])
  let stmt : List StmtFilter :=
    (if o.spaceAroundOperators then [.spacesAroundOperators] else []) ++
    (if o.stripComments then [.stripComments] else []) ++
    (if o.stripWhitespace || o.reindent then [.stripWhitespace] else []) ++
    (if o.reindent then [.reindent o.indentChar o.indentWidth o.indentAfterFirst o.indentColumns o.wrapAfter
                           o.commaFirst o.compact] else []) ++
    (if o.reindentAligned then [.alignedIndent o.indentChar] else []) ++
    (match o.rightMargin with
     | some w => if w != 0 then [.rightMargin w] else []
     | Option.none => [])
  let post : List PostFilter :=
    if fmtIs o "php" then [.outputPHP] else if fmtIs o "python" then [.outputPython] else []
  { preprocess := pre, grouping := !stmt.isEmpty, stmtprocess := stmt, postprocess := post }

/-- the shape of `buildFilterStack` in the vocabulary of the generated `Gen.stackShape` -/
def planShape : List (List String × String × List String × Bool) := [
  (["keyword_case"], "preprocess", ["KeywordCaseFilter"], false),
  (["identifier_case"], "preprocess", ["IdentifierCaseFilter"], false),
  (["truncate_strings"], "preprocess", ["TruncateStringFilter"], false),
  (["use_space_around_operators"], "stmtprocess", ["SpacesAroundOperatorsFilter"], true),
  (["strip_comments"], "stmtprocess", ["StripCommentsFilter"], true),
  (["strip_whitespace", "reindent"], "stmtprocess", ["StripWhitespaceFilter"], true),
  (["reindent"], "stmtprocess", ["ReindentFilter"], true),
  (["reindent_aligned"], "stmtprocess", ["AlignedIndentFilter"], true),
  (["right_margin"], "stmtprocess", ["RightMarginFilter"], true),
  (["output_format"], "postprocess", ["OutputPHPFilter", "OutputPythonFilter"], false)]

/-- the hand-written `buildFilterStack` was written against this shape of the source; a change of the order,
the option keys or the filter classes in formatter.py breaks this obligation -/
theorem planShape_matches_source : planShape = Gen.stackShape := by decide

end Sql
