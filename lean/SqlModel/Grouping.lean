import SqlModel.KwNorm
import SqlModel.Grouping.Matching
import SqlModel.Grouping.DriverPasses
import SqlModel.Grouping.AdHoc
import SqlModel.Default
/-!
# SqlModel.Grouping — `sqlparse.engine.grouping.group`

`group(stmt)` calls the passes of the list in its body, in order, on the statement.  The order is
`Gen.passOrder` (extracted by `ast` from the source); `passByName` maps each function name to its model; a name
the model does not know yields a pass that fails with `notImplemented`, so a new pass in the source breaks the
correspondence loudly instead of being skipped.
-/
namespace Sql

/-- a `_group_matching` wrapper (`group_brackets`, `group_parenthesis`, …) -/
def matchingPass (upper : Text → Text) (cls : Cls) (mOpen mClose : List MPat) : Pass :=
  fun fuel _ ks => groupMatching upper cls mOpen mClose fuel ks

/-- a pass that is one `_group` call -/
def driverPass (cfg : DrvCfg) : Pass := fun fuel _ ks => groupDriver cfg fuel ks

/-- a pass written as a loop, with its `@recurse(...)` decorator (`none` = not decorated) -/
def adHocPass (skip : Option (List Cls)) (body : Cls → List Node → Except PyErr (List Node)) : Pass :=
  match skip with
  | some cs => recursePass cs body
  | none => fun _ c ks => body c ks

/-- `group_typed_literal`: two `_group` runs in sequence -/
def typedLiteralPass (upper : Text → Text) : Pass := fun fuel _ ks =>
  match groupDriver (cfgTypedLiteral0 upper) fuel ks with
  | .error e => .error e
  | .ok ks' => groupDriver (cfgTypedLiteral1 upper) fuel ks'

def unknownPass : Pass := fun _ _ _ => .error .notImplemented

/-- `M_OPEN`/`M_CLOSE` of the class a `_group_matching` wrapper names -/
def matchingTables (c : Cls) : Option (List MPat × List MPat) :=
  match c with
  | .SquareBrackets => some (Gen.SquareBrackets_M_OPEN, Gen.SquareBrackets_M_CLOSE)
  | .Parenthesis => some (Gen.Parenthesis_M_OPEN, Gen.Parenthesis_M_CLOSE)
  | .Case => some (Gen.Case_M_OPEN, Gen.Case_M_CLOSE)
  | .If => some (Gen.If_M_OPEN, Gen.If_M_CLOSE)
  | .For => some (Gen.For_M_OPEN, Gen.For_M_CLOSE)
  | .Begin => some (Gen.Begin_M_OPEN, Gen.Begin_M_CLOSE)
  | _ => none

def matchingPassOf (upper : Text → Text) (c : Cls) : Pass :=
  match matchingTables c with
  | some (o, cl) => matchingPass upper c o cl
  | none => unknownPass

def passByName (upper : Text → Text) (name : String) : Pass :=
  if name == "group_comments" then adHocPass Gen.group_comments_recurseSkip (groupCommentsBody upper)
  else if name == "group_brackets" then matchingPassOf upper Gen.group_brackets_matchingCls
  else if name == "group_parenthesis" then matchingPassOf upper Gen.group_parenthesis_matchingCls
  else if name == "group_case" then matchingPassOf upper Gen.group_case_matchingCls
  else if name == "group_if" then matchingPassOf upper Gen.group_if_matchingCls
  else if name == "group_for" then matchingPassOf upper Gen.group_for_matchingCls
  else if name == "group_begin" then matchingPassOf upper Gen.group_begin_matchingCls
  else if name == "group_over" then adHocPass Gen.group_over_recurseSkip (groupOverBody upper)
  else if name == "group_functions" then adHocPass Gen.group_functions_recurseSkip (groupFunctionsBody upper)
  else if name == "group_where" then adHocPass Gen.group_where_recurseSkip (groupWhereBody upper)
  else if name == "group_period" then driverPass (cfgPeriod upper)
  else if name == "group_arrays" then driverPass (cfgArrays upper)
  else if name == "group_identifier" then adHocPass Gen.group_identifier_recurseSkip (groupIdentifierBody upper)
  else if name == "group_order" then adHocPass Gen.group_order_recurseSkip (groupOrderBody upper)
  else if name == "group_typecasts" then driverPass (cfgTypecasts upper)
  else if name == "group_tzcasts" then driverPass (cfgTzcasts upper)
  else if name == "group_typed_literal" then typedLiteralPass upper
  else if name == "group_operator" then driverPass (cfgOperator upper)
  else if name == "group_comparison" then driverPass (cfgComparison upper)
  else if name == "group_as" then driverPass (cfgAs upper)
  else if name == "group_aliased" then adHocPass Gen.group_aliased_recurseSkip (groupAliasedBody upper)
  else if name == "group_assignment" then driverPass (cfgAssignment upper)
  else if name == "align_comments" then adHocPass Gen.align_comments_recurseSkip (alignCommentsBody upper)
  else if name == "group_identifier_list" then driverPass (cfgIdentifierList upper)
  else if name == "group_values" then adHocPass Gen.group_values_recurseSkip (groupValuesBody upper)
  else unknownPass

/-- run the named passes in order on the children of a node of class `c` -/
def runPasses (upper : Text → Text) (fuel : Nat) (c : Cls) : List String → List Node → Except PyErr (List Node)
  | [], ks => .ok ks
  | p :: ps, ks =>
    match passByName upper p fuel c ks with
    | .error e => .error e
    | .ok ks' => runPasses upper fuel c ps ks'

/-- `grouping.group(stmt)` on the children of the statement, `str.upper` as a parameter -/
def groupWith (upper : Text → Text) (fuel : Nat) (ks : List Node) : Except PyErr (List Node) :=
  runPasses upper fuel .Statement Gen.passOrder ks

/-- `grouping.group(stmt)` on the children of the statement -/
def group (fuel : Nat) (ks : List Node) : Except PyErr (List Node) := groupWith kwNorm fuel ks

/-- `grouping.group(sql.Statement(tokens))` for a flat statement of the splitter -/
def groupStatement (fuel : Nat) (st : List Tok) : Except PyErr Node :=
  match group fuel (st.map fun t => Node.tok t.tt t.val) with
  | .error e => .error e
  | .ok ks => .ok (.grp .Statement ks)

end Sql
