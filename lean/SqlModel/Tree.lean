import SqlModel.Basic
/-!
# SqlModel.Tree — the token tree of sql.py as a pure inductive type, and the navigation helpers of
`TokenList` (`_token_matching`, `token_next`, `token_prev`, `token_next_by`, `imt`, `Token.match`).

Python's tree is mutable with `parent` pointers and cached `value`s; those live in `Bookkeeping.lean`.
Here a node is either a leaf token `(ttype, value)` or a group `(class, children)`.
A leaf's derived attributes are functions of its current type, exactly as `Token.__init__` computes them:
`is_keyword = ttype in T.Keyword`, `is_whitespace = ttype in T.Whitespace`, `is_newline = ttype in T.Newline`,
`normalized = value.upper() if is_keyword else value`.  (The only re-typing in the library,
`group_operator`'s `ttype = T.Operator`, applies to tokens whose type is Operator/Wildcard, for which
none of these attributes changes; DESIGN.md Appendix A.)
A group has `ttype None`, `is_keyword = is_whitespace = is_newline = False`, `normalized = value = text`.
-/
namespace Sql

/-- the `TokenList` subclasses of sql.py (all are direct subclasses: `isinstance(x, C)` is class equality,
except `C = TokenList`, which every group satisfies) -/
inductive Cls where
  | Statement | Identifier | IdentifierList | TypedLiteral | Parenthesis | SquareBrackets | Assignment
  | If | For | Comparison | Comment | Where | Over | Having | Case | Function | Begin | Operation
  | Values | Command | TokenList
deriving DecidableEq, Repr, Inhabited

def Cls.name : Cls → String
  | .Statement => "Statement" | .Identifier => "Identifier" | .IdentifierList => "IdentifierList"
  | .TypedLiteral => "TypedLiteral" | .Parenthesis => "Parenthesis" | .SquareBrackets => "SquareBrackets"
  | .Assignment => "Assignment" | .If => "If" | .For => "For" | .Comparison => "Comparison"
  | .Comment => "Comment" | .Where => "Where" | .Over => "Over" | .Having => "Having" | .Case => "Case"
  | .Function => "Function" | .Begin => "Begin" | .Operation => "Operation" | .Values => "Values"
  | .Command => "Command" | .TokenList => "TokenList"

inductive Node where
  | tok (tt : TType) (val : Text)
  | grp (cls : Cls) (kids : List Node)
deriving Repr, Inhabited

namespace Node

def isGroup : Node → Bool | .grp .. => true | .tok .. => false

/-- `token.ttype` (`none` for groups) -/
def ttype? : Node → Option TType | .tok tt _ => some tt | .grp .. => none

/-- `isinstance(token, cls)` for a single class -/
def isInst (n : Node) (c : Cls) : Bool :=
  match n with
  | .grp k _ => c == .TokenList || k == c
  | .tok .. => false

/-- `isinstance(token, (c₁, c₂, …))` -/
def isInstAny (n : Node) (cs : List Cls) : Bool := cs.any n.isInst

mutual
/-- `str(node)`: concatenation of the leaf values -/
def text : Node → Text
  | .tok _ v => v
  | .grp _ ks => textL ks
def textL : List Node → Text
  | [] => []
  | k :: ks => k.text ++ textL ks
end

mutual
/-- `list(node.flatten())` as (type, value) pairs -/
def leaves : Node → List Tok
  | .tok tt v => [⟨tt, v⟩]
  | .grp _ ks => leavesL ks
def leavesL : List Node → List Tok
  | [] => []
  | k :: ks => k.leaves ++ leavesL ks
end

def isKeyword : Node → Bool | .tok tt _ => tt.isIn T.Keyword | .grp .. => false
def isWhitespace : Node → Bool | .tok tt _ => tt.isIn T.Whitespace | .grp .. => false
def isNewline : Node → Bool | .tok tt _ => tt.isIn T.Newline | .grp .. => false

/-- `token.value` -/
def value (n : Node) : Text := n.text

/-- `token.normalized` -/
def normalized (upper : Text → Text) (n : Node) : Text :=
  match n with
  | .tok tt v => if tt.isIn T.Keyword then upper v else v
  | .grp _ ks => textL ks

/-- `token.ttype in tt` (hierarchical) -/
def ttIn (n : Node) (tt : TType) : Bool :=
  match n with
  | .tok t _ => t.isIn tt
  | .grp .. => false

/-- `token.ttype in (t₁, t₂, …)` for a plain tuple of types: equality with one element -/
def ttEqAny (n : Node) (tts : List TType) : Bool :=
  match n with
  | .tok t _ => tts.contains t
  | .grp .. => false

/-- `Token.match(ttype, values)` without regex: `values = none` is Python's `None` -/
def «match» (upper : Text → Text) (n : Node) (tt : TType) (values : Option (List Text)) : Bool :=
  match n with
  | .grp .. => false
  | .tok t v =>
    if t != tt then false else
    match values with
    | none => true
    | some vs =>
      if t.isIn T.Keyword then (vs.map upper).contains (upper v) else vs.contains v

end Node

/-- one `(ttype, values)` pattern as used in `M_OPEN`/`M_CLOSE`/`m=` arguments -/
structure MPat where
  tt : TType
  values : Option (List Text)
deriving Repr, DecidableEq

def Node.matchP (upper : Text → Text) (n : Node) (p : MPat) : Bool := n.match upper p.tt p.values

/-- the `t=` argument of `imt`: a single type or a *list* is hierarchical, a plain *tuple* is equality -/
inductive TArg where
  | none
  | hier (tts : List TType)    -- `t=T.X` or `t=[…]`: `token.ttype in tt` for some tt
  | exact (tts : List TType)   -- `t=(T.X, T.Y)`: tuple membership
deriving Repr

/-- `imt(token, i=…, m=…, t=…)` for a token that is not `None` -/
def imt (upper : Text → Text) (n : Node) (i : List Cls) (m : List MPat) (t : TArg) : Bool :=
  n.isInstAny i || m.any (n.matchP upper) ||
  (match t with
   | .none => false
   | .hier tts => tts.any n.ttIn
   | .exact tts => n.ttEqAny tts)

/-- `imt` on a possibly-`None` token -/
def imtOpt (upper : Text → Text) (n : Option Node) (i : List Cls) (m : List MPat) (t : TArg) : Bool :=
  match n with
  | none => false
  | some n => imt upper n i m t

/-- `TokenList._token_matching(func, start, end)` forward: first index in `[start, end)` whose token satisfies `f`.
Indexing beyond the list raises IndexError in Python; callers never pass `end > len` (end defaults to `len`). -/
def tokenMatchingFwd (ks : List Node) (f : Node → Bool) (start : Nat) (stop : Option Nat := none) : Option (Nat × Node) :=
  let stop := stop.getD ks.length
  let rec go (l : List Node) (i : Nat) : Option (Nat × Node) :=
    match l with
    | [] => Option.none
    | k :: rest => if i ≥ stop then Option.none else if f k then some (i, k) else go rest (i + 1)
  go (ks.drop start) start

/-- `_token_matching(func, start, reverse=True)`: indexes `start-2, start-3, …, 0`.
(`range(start-2, -1, -1)`; an index `≥ len` raises IndexError in Python — callers stay in range.) -/
def tokenMatchingRev (ks : List Node) (f : Node → Bool) (start : Nat) : Option (Nat × Node) :=
  let rec go : Nat → Option (Nat × Node)
    | 0 => Option.none
    | n+1 => match ks[n]? with
      | some k => if f k then some (n, k) else go n
      | Option.none => go n
  go (start - 1)

/-- the `matcher` closure of `token_next`/`token_prev`/`token_first` -/
def skipMatcher (skipWs skipCm : Bool) (k : Node) : Bool :=
  !((skipWs && k.isWhitespace) || (skipCm && (k.ttIn T.Comment || k.isInst .Comment)))

/-- `token_next(idx, skip_ws, skip_cm)` (`idx += 1` then forward search) -/
def tokenNext (ks : List Node) (idx : Nat) (skipWs : Bool := true) (skipCm : Bool := false) : Option (Nat × Node) :=
  tokenMatchingFwd ks (skipMatcher skipWs skipCm) (idx + 1)

/-- `token_prev(idx, skip_ws, skip_cm)` = `token_next(idx, …, _reverse=True)`: `idx += 1`, indexes `idx-2 … 0` -/
def tokenPrev (ks : List Node) (idx : Nat) (skipWs : Bool := true) (skipCm : Bool := false) : Option (Nat × Node) :=
  tokenMatchingRev ks (skipMatcher skipWs skipCm) (idx + 1)

/-- `token_next_by(i, m, t, idx, end)`; `idx` is the Python argument + 1 (so `0` = default `idx=-1`) -/
def tokenNextBy (upper : Text → Text) (ks : List Node) (i : List Cls) (m : List MPat) (t : TArg)
    (start : Nat := 0) (stop : Option Nat := none) : Option (Nat × Node) :=
  tokenMatchingFwd ks (fun k => imt upper k i m t) start stop

/-- `token_first(skip_ws, skip_cm)` -/
def tokenFirst (ks : List Node) (skipWs : Bool := true) (skipCm : Bool := false) : Option Node :=
  (tokenMatchingFwd ks (skipMatcher skipWs skipCm) 0).map (·.2)

/-- `_groupable_tokens`: `tokens[1:-1]` for Parenthesis/SquareBrackets, else `tokens` -/
def groupable (c : Cls) (ks : List Node) : List Node :=
  if c == .Parenthesis || c == .SquareBrackets then (ks.drop 1).dropLast else ks

end Sql
