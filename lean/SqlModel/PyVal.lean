import SqlModel.Basic
/-!
# SqlModel.PyVal — the Python values an option of `sqlparse.format` can carry, and the built-ins
`validate_options` applies to them (`==`, `in [...]`, truthiness, `int()`), plus the rule shapes of the
generated option table (`Generated/OptionTable.lean`, extracted from formatter.py with `ast`).

A finite `float` is kept as its exact value `num/den` (`float.as_integer_ratio()`, `den > 0`), so `int()`
(truncation towards zero), `== True` and truthiness are exact; `inf`, `-inf` and `nan` are separate tags.
`list` is an opaque tag for `[]` (for every list `== None/str/bool` is false and `int()` raises TypeError).
-/
namespace Sql

inductive PyVal where
  | none
  | bool (b : Bool)
  | int (i : Int)
  | str (s : Text)
  | float (num : Int) (den : Nat)
  | inf (neg : Bool)
  | nan
  | list
deriving DecidableEq, Repr, Inhabited

namespace PyVal

/-- the numeric value `num/den` of bool / int / finite float -/
def ratio? : PyVal → Option (Int × Nat)
  | .bool b => some (if b then 1 else 0, 1)
  | .int i => some (i, 1)
  | .float n d => some (n, d)
  | _ => Option.none

/-- Python `a == b` on this value domain (`nan` equals nothing; `True == 1 == 1.0`) -/
def pyEq (a b : PyVal) : Bool :=
  match a, b with
  | .none, .none => true
  | .str s, .str t => s == t
  | .list, .list => true
  | .inf x, .inf y => x == y
  | _, _ =>
    match a.ratio?, b.ratio? with
    | some (n, d), some (m, e) => n * (e : Int) == m * (d : Int)
    | _, _ => false

/-- `x in [v₁, v₂, …]` (identity-or-equality; identity adds nothing on this domain because the list
elements are literals `None/True/False/'…'` and `nan` is none of them) -/
def pyIn (x : PyVal) (vs : List PyVal) : Bool := vs.any (pyEq x)

/-- `bool(x)` (`list` stands for `[]`) -/
def truthy : PyVal → Bool
  | .none => false
  | .bool b => b
  | .int i => i != 0
  | .str s => !s.isEmpty
  | .float n _ => n != 0
  | .inf _ => true
  | .nan => true
  | .list => false

end PyVal

/-! ## `int(str)` -/

/-- value of a decimal digit character (`Py_UNICODE_TODECIMAL`): every `Nd` run is `0…9` from its start;
the runs are generated (`decStarts`) -/
def decimalOf (decStarts : List Nat) (c : Cp) : Option Nat :=
  match decStarts.find? (fun s => s ≤ c && c < s + 10) with
  | some s => some (c - s)
  | Option.none => Option.none

/-- whitespace skipped by `int(str)`: non-ASCII `str.isspace` characters are turned into blanks by
`_PyUnicode_TransformDecimalAndSpaceToASCII`; ASCII characters are kept and then judged by C `isspace`
(so `\x1c … \x1f`, which `str.isspace` accepts, are *not* skipped) -/
def intSpace (isSpace : Cp → Bool) (c : Cp) : Bool :=
  if c < 128 then (9 ≤ c && c ≤ 13) || c == 32 else isSpace c

/-- digits with single underscores between them; returns value, digit count, and the rest.
`prevUnderscore` tells whether the last consumed character was `_`. -/
def scanDigits (dec : Cp → Option Nat) : List Cp → Int → Nat → Bool → Option (Int × Nat × List Cp)
  | [], acc, n, prevU => if prevU then Option.none else some (acc, n, [])
  | c :: rest, acc, n, prevU =>
    if c == 95 then
      if prevU || n == 0 then Option.none else scanDigits dec rest acc n true
    else match dec c with
      | some d => scanDigits dec rest (acc * 10 + d) (n + 1) false
      | Option.none => if prevU then Option.none else some (acc, n, c :: rest)

/-- `int(s)` for a `str` in base 10: `ValueError` unless
`space* [+-]? digit (_? digit)* space*` with at most 4300 digits (`sys.int_max_str_digits`) -/
def parseIntLit (isSpace : Cp → Bool) (decStarts : List Nat) (s : Text) : Except PyErr Int :=
  let s1 := s.dropWhile (intSpace isSpace)
  let (neg, s2) := match s1 with
    | 43 :: r => (false, r)
    | 45 :: r => (true, r)
    | _ => (false, s1)
  match scanDigits (decimalOf decStarts) s2 0 0 false with
  | Option.none => .error .valueError
  | some (v, n, rest) =>
    if n == 0 || n > 4300 then .error .valueError
    else if (rest.dropWhile (intSpace isSpace)).isEmpty then .ok (if neg then -v else v)
    else .error .valueError

/-- `int(x)`: which values convert, and which exception the others raise -/
def pyInt (isSpace : Cp → Bool) (decStarts : List Nat) : PyVal → Except PyErr Int
  | .none => .error .typeError
  | .bool b => .ok (if b then 1 else 0)
  | .int i => .ok i
  | .str s => parseIntLit isSpace decStarts s
  | .float n d => .ok (n.tdiv d)
  | .inf _ => .error .overflowError
  | .nan => .error .valueError
  | .list => .error .typeError

/-! ## shapes of the stanzas of `formatter.validate_options` (the generated table is a list of these) -/

/-- one stanza of `validate_options`; `sets` are `options[k] = literal` assignments -/
inductive OptRule where
  /-- `v = options.get(key)`; `if v not in allowed: raise SQLParseError` -/
  | choice (key : String) (allowed : List PyVal)
  /-- `v = options.get(key, dflt)`; `if v not in allowed: raise SQLParseError`; `elif v: ifTrue`; `else: ifFalse`;
      then `options[key] = v` iff `store` -/
  | flag (key : String) (dflt : PyVal) (allowed : List PyVal) (ifTrue ifFalse : List (String × PyVal)) (store : Bool)
  /-- `v = options.get(key, dflt)`; unless (`noneSkips` and `v is None`):
      `try: v = int(v) except caught: raise SQLParseError`; `if v < bound` (`strict`) / `v <= bound`: raise SQLParseError;
      `options[key] = v` iff `storeInside`; for each `(k, d)` of `fill`: `options[k] = options.get(k, d)`.
      then for each `k` of `mustStr`: `if not isinstance(options[k], str): raise SQLParseError`.
      Finally `options[key] = v` iff `storeAfter` (also when the stanza was skipped, with `v = None`). -/
  | intOpt (key : String) (dflt : PyVal) (noneSkips : Bool) (caught : List PyErr) (bound : Int) (strict : Bool)
           (storeInside : Bool) (fill : List (String × PyVal)) (storeAfter : Bool) (mustStr : List String)
deriving Repr

end Sql
