import SqlModel.Filters.Case
import SqlModel.Filters.Tokens
import SqlModel.Filters.FNode
import SqlModel.Filters.ReOps
import SqlModel.Filters.StripComments
import SqlModel.Filters.StripWhitespace
import SqlModel.Filters.Spaces
import SqlModel.Filters.Serializer
import SqlModel.Filters.Output
import SqlModel.Filters.Stage2
import SqlModel.Filters.Indent
import SqlModel.Filters.Reindent
import SqlModel.Filters.Lift
import SqlModel.Filters.Aligned
import SqlModel.Filters.Format
/-! # SqlModel.Filters — the formatting side of sqlparse, stage 2 (token filters, statement filters, serializer, output formats) -/
