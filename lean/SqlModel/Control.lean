import SqlModel.Basic
/-!
# SqlModel.Control — the control-flow facts of lexer.py / filter_stack.py / __init__.py as small models

The *shapes* (`initProgram`, `initLocked`, `defaultInitOps`, `runTryStages`, entry-point facts, fallback codec) are
extracted from the source by the translator into `Generated/ControlIR.lean`; this file gives them meaning.

1. `Lexer.get_default_instance` run by `n` threads: a small-step semantics in which every step of the critical section is a
   separate transition, initialisation takes two steps (so a half-initialised instance is observable), and every
   initialisation step may raise (the real trigger: `RecursionError` inside `re.compile` when the first call happens close
   to the recursion limit).
2. Lexer configuration histories (`clear`, `set_SQL_REGEX`, `add_keywords`, `default_initialization`).
3. `FilterStack.run`'s `try … except RecursionError` scope as an error mapping.
4. Input normalisation of `Lexer.get_tokens` with the codecs as parameters.
-/
namespace Sql

/-! ## 1. singleton initialisation -/

/-- the statements that can occur under `if cls._default_instance is None:` -/
inductive InitOp where
  | createPublish    -- cls._default_instance = cls()
  | initPublished    -- cls._default_instance.default_initialization()
  | createLocal      -- x = cls()
  | initLocal        -- x.default_initialization()
  | publishLocal     -- cls._default_instance = x
deriving DecidableEq, Repr

/-- instance ids are indexes into `insts`; an instance is `true` once `default_initialization` has completed on it -/
structure Thread where
  /-- `none` = not started; `some (pc, midInit)`: inside the `if` body at statement `pc`, `midInit` = the current init statement has begun -/
  pc : Option (Nat × Bool) := none
  waiting : Bool := false       -- blocked on / about to take the lock
  inCrit : Bool := false        -- holds the lock (if the program is locked) or is inside the test-and-create sequence
  loc : Option Nat := none      -- local variable holding an instance
  result : Option Nat := none   -- returned instance
  failed : Bool := false        -- an exception propagated out of get_default_instance
  finished : Bool := false
deriving Repr, DecidableEq

structure InitState where
  lock : Bool := false                  -- `cls._lock` held
  published : Option Nat := none        -- `cls._default_instance`
  insts : List Bool := []               -- per instance: fully initialised?
  threads : List Thread
deriving Repr

/-- the transitions one thread can take; `raise = true` makes the next initialisation step raise -/
def threadStep (locked : Bool) (prog : List InitOp) (s : InitState) (i : Nat) (raise : Bool) : Option InitState :=
  match s.threads[i]? with
  | none => none
  | some t =>
    if t.finished then none else
    -- new state: lock, published, insts, and thread `i` replaced
    let mk (lock : Bool) (pub : Option Nat) (insts : List Bool) (t' : Thread) : InitState :=
      { lock := lock, published := pub, insts := insts, threads := s.threads.set i t' }
    let released : Bool := if locked then false else s.lock
    match t.pc with
    | none =>
      if !t.inCrit then
        -- enter: take the lock (if any), then evaluate the test
        if locked && s.lock then none     -- blocked
        else
          match s.published with
          | some _ =>
            -- test false: leave the with-block, `return cls._default_instance`
            some (mk released s.published s.insts { t with finished := true, result := s.published })
          | none => some (mk (if locked then true else s.lock) s.published s.insts { t with inCrit := true, pc := some (0, false) })
      else none
    | some (pc, mid) =>
      match prog[pc]? with
      | none =>
        -- end of the if-body: release the lock and return whatever is published now
        some (mk released s.published s.insts { t with pc := none, inCrit := false, finished := true, result := s.published })
      | some op =>
        let fail : InitState := mk released s.published s.insts { t with pc := none, inCrit := false, finished := true, failed := true }
        match op with
        | .createPublish =>
          some (mk s.lock (some s.insts.length) (s.insts ++ [false]) { t with pc := some (pc + 1, false) })
        | .createLocal =>
          some (mk s.lock s.published (s.insts ++ [false]) { t with loc := some s.insts.length, pc := some (pc + 1, false) })
        | .publishLocal =>
          some (mk s.lock t.loc s.insts { t with pc := some (pc + 1, false) })
        | .initPublished =>
          if raise then some fail
          else if !mid then some (mk s.lock s.published s.insts { t with pc := some (pc, true) })
          else match s.published with
            | some k => some (mk s.lock s.published (s.insts.set k true) { t with pc := some (pc + 1, false) })
            | none => some fail      -- AttributeError on None
        | .initLocal =>
          if raise then some fail
          else if !mid then some (mk s.lock s.published s.insts { t with pc := some (pc, true) })
          else match t.loc with
            | some k => some (mk s.lock s.published (s.insts.set k true) { t with pc := some (pc + 1, false) })
            | none => some fail

/-- a schedule: which thread moves, and whether its next initialisation step raises -/
abbrev Schedule := List (Nat × Bool)

def runSchedule (locked : Bool) (prog : List InitOp) : InitState → Schedule → InitState
  | s, [] => s
  | s, (i, r) :: rest =>
    match threadStep locked prog s i r with
    | some s' => runSchedule locked prog s' rest
    | none => runSchedule locked prog s rest      -- a disabled move is a no-op

def initState (n : Nat) : InitState := { threads := List.replicate n {} }

/-- the safety property of C20/C15: every instance a thread got back is fully initialised -/
def AllResultsInitialised (s : InitState) : Prop :=
  ∀ t ∈ s.threads, ∀ k, t.result = some k → s.insts[k]? = some true

/-- decidable shape under which the property holds for all thread counts and schedules: the sequence runs under the lock and
is `x = cls(); x.default_initialization(); cls._default_instance = x` (nothing is published before it is initialised) -/
def safeShape (locked : Bool) (prog : List InitOp) : Bool :=
  locked && prog == [.createLocal, .initLocal, .publishLocal]

/-! ## 2. lexer configuration -/

inductive CfgOp where
  | clear
  | setRegex (id : Nat)
  | addKw (id : Nat)
  | defaultInit
deriving DecidableEq, Repr

structure LexConfig where
  regex : Option Nat := none      -- which rule table is loaded
  dicts : List Nat := []          -- keyword dictionaries in lookup order
deriving DecidableEq, Repr

def cfgStep (dflt : List CfgOp) : Nat → LexConfig → CfgOp → LexConfig
  | _, _, .clear => {}
  | _, c, .setRegex i => { c with regex := some i }
  | _, c, .addKw i => { c with dicts := c.dicts ++ [i] }
  | 0, c, .defaultInit => c
  | fuel+1, c, .defaultInit => dflt.foldl (cfgStep dflt fuel) c

def cfgRun (dflt : List CfgOp) (c : LexConfig) (ops : List CfgOp) : LexConfig := ops.foldl (cfgStep dflt 1) c

/-! ## 3. the try-scope of FilterStack.run -/

inductive Stage where
  | lex | pre | split | group | stmt | post | yield_
deriving DecidableEq, Repr

/-- what a caller sees when stage `st` raises `e`, given the stages that run inside the `try` -/
def runMapError (tryStages : List Stage) (st : Stage) (e : PyErr) : PyErr :=
  if tryStages.contains st && e == .recursionError then .sqlParseError else e

def allStages : List Stage := [.lex, .pre, .split, .group, .stmt, .post, .yield_]

/-! ## 4. input normalisation of `get_tokens` -/

inductive SqlInput where
  | str (s : Text)
  | bytes (b : List Nat)
  | stream (s : Text)          -- a `TextIOBase`: `.read()` gives the text
  | other                      -- anything else: TypeError
deriving Repr

/-- `decode name bytes`: the codec as a parameter (error = `UnicodeDecodeError` / `LookupError`) -/
abbrev Decoder := String → List Nat → Except PyErr Text

def normaliseInput (decode : Decoder) (primary fallback : String) (inp : SqlInput) (encoding : Option String) : Except PyErr Text :=
  match inp with
  | .stream s => .ok s
  | .str s => .ok s
  | .bytes b =>
    -- `if encoding:` — an empty string counts as no encoding
    match encoding.filter (fun e => !e.isEmpty) with
    | some enc => decode enc b
    | none =>
      match decode primary b with
      | .ok s => .ok s
      | .error .unicodeDecodeError => decode fallback b
      | .error e => .error e
  | .other => .error .typeError

end Sql
