import SqlModel.Basic
/-!
# SqlModel.Splitter — `StatementSplitter` (engine/statement_splitter.py) as a fold

State = the six attributes `_reset` initialises (`_in_declare` is written, never read, and is kept only for
fidelity) plus the pending token list.  `changeSplitLevel` is `_change_splitlevel`; `step` is one iteration of
the loop in `process`; statements are emitted exactly where the generator yields.
Parameters taken from generated tables: `upper` (`str.upper`), `isSpace` (`str.isspace`, for `value.split()`),
`eos` (`EOS_TTYPE`, a plain tuple, hence equality not hierarchy).
-/
namespace Sql

structure SplitCfg where
  upper : Text → Text      -- `str.upper`
  isSpace : Cp → Bool
  eos : List TType

structure SplitFlags where
  inDeclare : Bool := false
  inCase : Nat := 0           -- depth of open CASE expressions inside a block
  isCreate : Bool := false
  beginDepth : Nat := 0
deriving Repr, DecidableEq, Inhabited

def txt (s : String) : Text := s.toList.map Char.toNat

/-- `value.split()[0]`: the first maximal run of non-space characters, `none` if there is none (IndexError) -/
def splitFirst (isSpace : Cp → Bool) (v : Text) : Option Text :=
  match (v.dropWhile isSpace).takeWhile (fun c => !isSpace c) with
  | [] => none
  | w => some w

/-- `str.split()` on runs of `isSpace` -/
def pySplitWs (isSpace : Cp → Bool) : Nat → Text → List Text
  | 0, _ => []
  | fuel+1, v =>
    match v.dropWhile isSpace with
    | [] => []
    | w => w.takeWhile (fun c => !isSpace c) :: pySplitWs isSpace fuel (w.dropWhile (fun c => !isSpace c))

/-- `' '.join(value.upper().split())` -/
def unify (cfg : SplitCfg) (value : Text) : Text :=
  let u := cfg.upper value
  [32].intercalate (pySplitWs cfg.isSpace (u.length + 1) u)

/-- what `_change_splitlevel` can see of a token: its kind (the tests of the function, in source order) -/
inductive SKind where
  | lparen | rparen
  | other                      -- `return 0`: not a keyword, or a keyword without effect
  | create                     -- `ttype is T.Keyword.DDL and unified.startswith('CREATE')`
  | declare | begin_ | end_
  | opener (isCase : Bool)     -- IF / FOR / WHILE / CASE
  | closer                     -- END IF / END FOR / END WHILE
deriving DecidableEq, Repr

def kindOf (cfg : SplitCfg) (tt : TType) (value : Text) : SKind :=
  if tt == T.Punctuation && value == txt "(" then .lparen
  else if tt == T.Punctuation && value == txt ")" then .rparen
  else if !tt.isIn T.Keyword then .other
  else
    let unified := unify cfg value
    if tt == T.DDL && (txt "CREATE").isPrefixOf unified then .create
    else if unified == txt "DECLARE" then .declare
    else if unified == txt "BEGIN" then .begin_
    else if unified == txt "END" then .end_
    else if unified == txt "IF" || unified == txt "FOR" || unified == txt "WHILE" then .opener false
    else if unified == txt "CASE" then .opener true
    else if unified == txt "END IF" || unified == txt "END FOR" || unified == txt "END WHILE" then .closer
    else .other

/-- the effect of a token kind on the level and the flags -/
def kindStep (f : SplitFlags) : SKind → Int × SplitFlags
  | .lparen => (1, f)
  | .rparen => (-1, f)
  | .other => (0, f)
  | .create => (0, { f with isCreate := true })
  | .declare => if f.isCreate && f.beginDepth == 0 then (1, { f with inDeclare := true }) else (0, f)
  | .begin_ =>
    let f' := { f with beginDepth := f.beginDepth + 1 }
    if f.isCreate then (1, f') else (0, f')
  | .end_ =>
    if f.inCase == 0 then (-1, { f with beginDepth := f.beginDepth - 1 })   -- `max(0, depth - 1)`
    else (-1, { f with inCase := f.inCase - 1 })
  | .opener isCase =>
    if f.isCreate && f.beginDepth > 0 then
      (if isCase then (1, { f with inCase := f.inCase + 1 }) else (1, f))
    else (0, f)
  | .closer => (-1, f)

/-- `_change_splitlevel`: level delta and the updated flags -/
def changeSplitLevel (cfg : SplitCfg) (f : SplitFlags) (tt : TType) (value : Text) : Int × SplitFlags :=
  kindStep f (kindOf cfg tt value)

structure SplitState where
  flags : SplitFlags := {}
  consumeWs : Bool := false
  level : Int := 0
  cur : List Tok := []        -- tokens of the pending statement, in order
  done : List (List Tok) := []   -- statements already yielded, in order
deriving Inhabited

/-- `ttype in T.Whitespace` -/
def Tok.isWhitespace (t : Tok) : Bool := t.tt.isIn T.Whitespace

/-- `if self.consume_ws and ttype not in EOS_TTYPE: yield sql.Statement(self.tokens); self._reset()` -/
def splitYield (cfg : SplitCfg) (st : SplitState) (t : Tok) : SplitState :=
  if st.consumeWs && !(cfg.eos.contains t.tt) then
    { flags := {}, consumeWs := false, level := 0, cur := [], done := st.done ++ [st.cur] }
  else st

/-- the rest of the loop body: change the level, append the token, test for the end of a statement -/
def splitAdvance (cfg : SplitCfg) (st : SplitState) (t : Tok) : Except PyErr SplitState :=
  let r := changeSplitLevel cfg st.flags t.tt t.val
  let st := { st with level := st.level + r.fst, flags := r.snd, cur := st.cur ++ [t] }
  -- `(self.level <= 0 and ttype is T.Punctuation and value == ';') or (ttype is T.Keyword and value.split()[0].upper() == 'GO')`
  if st.level ≤ 0 && t.tt == T.Punctuation && t.val == txt ";" then .ok { st with consumeWs := true }
  else if t.tt == T.Keyword then
    match splitFirst cfg.isSpace t.val with
    | none => .error .indexError
    | some w => .ok (if cfg.upper w == txt "GO" then { st with consumeWs := true } else st)
  else .ok st

/-- one iteration of the loop in `process` -/
def splitStep (cfg : SplitCfg) (st : SplitState) (t : Tok) : Except PyErr SplitState :=
  splitAdvance cfg (splitYield cfg st t) t

def splitRun (cfg : SplitCfg) : SplitState → List Tok → Except PyErr SplitState
  | st, [] => .ok st
  | st, t :: ts => match splitStep cfg st t with
    | .ok st' => splitRun cfg st' ts
    | .error e => .error e

/-- `StatementSplitter().process(stream)`: the flat statements (token lists) in order -/
def splitProcess (cfg : SplitCfg) (ts : List Tok) : Except PyErr (List (List Tok)) :=
  match splitRun cfg {} ts with
  | .error e => .error e
  | .ok st =>
    -- `if self.tokens and not all(t.is_whitespace for t in self.tokens): yield`
    if !st.cur.isEmpty && !(st.cur.all Tok.isWhitespace) then .ok (st.done ++ [st.cur]) else .ok st.done

end Sql
