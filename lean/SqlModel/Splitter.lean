import SqlModel.Basic
/-!
# SqlModel.Splitter — `StatementSplitter` (engine/statement_splitter.py) as a fold

State = the six attributes `_reset` initialises (`_in_declare` is written, never read, and is kept only for
fidelity) plus the pending token list.  `changeSplitLevel` is `_change_splitlevel`; `step` is one iteration of
the loop in `process`; statements are emitted exactly where the generator yields.
Parameters taken from generated tables: `upper` (`str.upper`), `isSpace` (`str.isspace`, for `value.split()`),
`eos` (`EOS_TTYPE`, a plain tuple, hence equality not hierarchy).
-/
namespace Sql

structure SplitCfg where
  upper : Text → Text
  isSpace : Cp → Bool
  eos : List TType

structure SplitFlags where
  inDeclare : Bool := false
  inCase : Bool := false
  isCreate : Bool := false
  beginDepth : Nat := 0
deriving Repr, DecidableEq, Inhabited

def txt (s : String) : Text := s.toList.map Char.toNat

/-- `value.split()[0]`: the first maximal run of non-space characters, `none` if there is none (IndexError) -/
def splitFirst (isSpace : Cp → Bool) (v : Text) : Option Text :=
  match (v.dropWhile isSpace).takeWhile (fun c => !isSpace c) with
  | [] => none
  | w => some w

/-- `_change_splitlevel`: level delta and the updated flags -/
def changeSplitLevel (cfg : SplitCfg) (f : SplitFlags) (tt : TType) (value : Text) : Int × SplitFlags :=
  if tt == T.Punctuation && value == txt "(" then (1, f)
  else if tt == T.Punctuation && value == txt ")" then (-1, f)
  else if !tt.isIn T.Keyword then (0, f)
  else
    let unified := cfg.upper value
    if tt == T.DDL && (txt "CREATE").isPrefixOf unified then (0, { f with isCreate := true })
    else if unified == txt "DECLARE" && f.isCreate && f.beginDepth == 0 then (1, { f with inDeclare := true })
    else if unified == txt "BEGIN" then
      let f' := { f with beginDepth := f.beginDepth + 1 }
      if f.isCreate then (1, f') else (0, f')
    else if unified == txt "END" then
      if !f.inCase then (-1, { f with beginDepth := f.beginDepth - 1 })
      else (-1, { f with inCase := false })
    else if (unified == txt "IF" || unified == txt "FOR" || unified == txt "WHILE" || unified == txt "CASE")
        && f.isCreate && f.beginDepth > 0 then
      if unified == txt "CASE" then (1, { f with inCase := true }) else (1, f)
    else if unified == txt "END IF" || unified == txt "END FOR" || unified == txt "END WHILE" then (-1, f)
    else (0, f)

structure SplitState where
  flags : SplitFlags := {}
  consumeWs : Bool := false
  level : Int := 0
  cur : List Tok := []        -- tokens of the pending statement, in order
  done : List (List Tok) := []   -- statements already yielded, in order
deriving Inhabited

/-- `ttype in T.Whitespace` -/
def Tok.isWhitespace (t : Tok) : Bool := t.tt.isIn T.Whitespace

/-- one iteration of the loop in `process` -/
def splitStep (cfg : SplitCfg) (st : SplitState) (t : Tok) : Except PyErr SplitState :=
  -- `if self.consume_ws and ttype not in EOS_TTYPE: yield …; self._reset()`
  let st := if st.consumeWs && !(cfg.eos.contains t.tt) then
      { flags := {}, consumeWs := false, level := 0, cur := [], done := st.done ++ [st.cur] }
    else st
  let (d, fl) := changeSplitLevel cfg st.flags t.tt t.val
  let st := { st with level := st.level + d, flags := fl, cur := st.cur ++ [t] }
  -- `(self.level <= 0 and ttype is T.Punctuation and value == ';') or (ttype is T.Keyword and value.split()[0] == 'GO')`
  if st.level ≤ 0 && t.tt == T.Punctuation && t.val == txt ";" then .ok { st with consumeWs := true }
  else if t.tt == T.Keyword then
    match splitFirst cfg.isSpace t.val with
    | none => .error .indexError
    | some w => .ok (if w == txt "GO" then { st with consumeWs := true } else st)
  else .ok st

def splitRun (cfg : SplitCfg) : SplitState → List Tok → Except PyErr SplitState
  | st, [] => .ok st
  | st, t :: ts => match splitStep cfg st t with
    | .ok st' => splitRun cfg st' ts
    | .error e => .error e

/-- `StatementSplitter().process(stream)`: the flat statements (token lists) in order -/
def splitProcess (cfg : SplitCfg) (ts : List Tok) : Except PyErr (List (List Tok)) :=
  match splitRun cfg {} ts with
  | .error e => .error e
  | .ok st =>
    -- `if self.tokens and not all(t.is_whitespace for t in self.tokens): yield`
    if !st.cur.isEmpty && !(st.cur.all Tok.isWhitespace) then .ok (st.done ++ [st.cur]) else .ok st.done

end Sql
