import SqlModel.Grouping
import SqlModel.Pipeline
/-!
# SqlModel.GroupingParse — lexer ∘ splitter ∘ grouping: the statements of `sqlparse.parse(text)`
(without the `RecursionError → SQLParseError` mapping of `FilterStack.run`, which belongs to the pipeline model)
-/
namespace Sql

def groupStatements (fuel : Nat) : List (List Tok) → Except PyErr (List Node)
  | [] => .ok []
  | st :: rest =>
    match groupStatement fuel st with
    | .error e => .error e
    | .ok n =>
      match groupStatements fuel rest with
      | .error e => .error e
      | .ok ns => .ok (n :: ns)

/-- the `Statement` trees of `sqlparse.parse(text)` -/
def parseTrees (fuel : Nat) (s : Array Cp) : Except PyErr (List Node) :=
  match lexSplit s with
  | .error e => .error e
  | .ok sts => groupStatements fuel sts

end Sql
