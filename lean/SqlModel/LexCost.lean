import SqlModel.Lexer
import SqlModel.RegexCost
/-!
# SqlModel.LexCost — cost model of the whole scan loop

`lexWork cfg s` = the total size of the backtracking search trees (`work`, SqlModel/RegexCost.lean) of all match attempts the scan loop of
`lex` makes on `s`: at every scan position the rules are tried in table order up to and including the first that matches (all of them when
none matches).  The loop structure mirrors `lexLoop`.
-/
namespace Sql

/-- the inner `for rexmatch, action in self._SQL_REGEX` loop at position `p`: one search tree per rule tried -/
def firstMatchWork (E : Env) : List Rule → Nat → Nat
  | [], _ => 0
  | r :: rs, p =>
    work E r.re ⟨p, []⟩ +
      (match matchAt E r.re p with
       | some _ => 0
       | none => firstMatchWork E rs p)

/-- the outer scan loop, as `lexLoop` -/
def lexWorkLoop (cfg : LexCfg) (E : Env) : Nat → Nat → Nat
  | 0, _ => 0
  | fuel+1, pos =>
    match E.s[pos]? with
    | none => 0
    | some _ =>
      firstMatchWork E cfg.rules pos +
        (match firstMatch E cfg.rules pos with
         | none => lexWorkLoop cfg E fuel (pos + 1)
         | some (_, e) => if e ≤ pos then 0 else lexWorkLoop cfg E fuel e)

def lexWork (cfg : LexCfg) (s : Array Cp) : Nat := lexWorkLoop cfg (cfg.env s) (s.size + 1) 0

/-- the work bound of one rule: its certificate's, or `16·N` for the quoted-string template (`12·N + 4 ≤ 16·N`) -/
def rulePB (r : Rule) : PB :=
  match cert r.re with
  | some c => c.work
  | none => ⟨16, 1⟩

/-- the work bound of one scan step: all rules tried -/
def stepPB (rules : List Rule) : PB := rules.foldr (fun r acc => (rulePB r).add acc) ⟨0, 0⟩

/-- the work bound of the whole scan: at most `|s|` steps -/
def lexPB (rules : List Rule) : PB := ⟨(stepPB rules).c, (stepPB rules).d + 1⟩

end Sql
