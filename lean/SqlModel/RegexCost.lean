import SqlModel.Regex
/-!
# SqlModel.RegexCost — cost model of the backtracking matcher and a polynomial certificate

`work E r st` = number of `derivs` evaluations in the whole backtracking search tree of `r` at `st` (every alternative,
every iteration, every continuation is explored: an upper bound of what an engine that stops at the first success does).
`cert r` computes, when it can, bounds `cnt`/`work` of the form `c · N^d` (N = |s| + 1) for the number of derivations and
for the work, from the *shape* of the expression:
* an unbounded repetition is accepted only if its body is *deterministic* (at most one derivation from any state): a single
  character class, or sequences/alternations of such with pairwise disjoint first-character sets;
* bounded repetitions and everything else compose.
An expression with two ways of matching the same repeated substring (`(a|a)*`, `(a*)*`, `(\\\\|[^'])*`-style overlaps) gets no certificate.
-/
namespace Sql

/-- a bound `c · N^d` -/
structure PB where
  c : Nat
  d : Nat
deriving Repr, DecidableEq

def PB.eval (b : PB) (N : Nat) : Nat := b.c * N ^ b.d
def PB.one : PB := ⟨1, 0⟩
def PB.add (a b : PB) : PB := ⟨a.c + b.c, max a.d b.d⟩
def PB.mul (a b : PB) : PB := ⟨a.c * b.c, a.d + b.d⟩
def PB.pow (a : PB) : Nat → PB
  | 0 => PB.one
  | k+1 => a.mul (a.pow k)

/-- work of the repetition loop, mirroring `repAux` -/
def workRep (step : St → List St) (wstep : St → Nat) : Nat → Nat → Option Nat → St → Nat
  | 0, _, _, _ => 1
  | fuel+1, lo, hi, st =>
    if hi = some 0 then 1 else
    1 + wstep st +
      (((step st).filter (fun st' => st.pos < st'.pos)).map
        (fun st' => workRep step wstep fuel (lo - 1) (hi.map (· - 1)) st')).sum

/-- number of `derivs` evaluations in the search tree -/
def work (E : Env) : Re → St → Nat
  | .eps, _ | .set _, _ | .bref _, _ | .atEnd, _ | .wordB, _ => 1
  | .cat a b, st => 1 + work E a st + ((derivs E a st).map (work E b)).sum
  | .alt a b, st => 1 + work E a st + work E b st
  | .rep lo hi _ r, st => 1 + workRep (derivs E r) (work E r) (E.s.size - st.pos + 1) lo hi st
  | .grp _ r, st => 1 + work E r st
  | .look ahead _ w r, st =>
    1 + (if ahead then work E r st else if st.pos < w then 0 else work E r { st with pos := st.pos - w })

/-- do two range lists have no code point in common? -/
def rangesDisjoint (a b : List (Nat × Nat)) : Bool :=
  a.all fun r1 => b.all fun r2 => decide (r1.2 < r2.1) || decide (r2.2 < r1.1)

/-- a pure zero-width assertion: every derivation is the start state itself -/
def isAssert : Re → Bool
  | .eps | .look .. | .atEnd | .wordB => true
  | _ => false

/-- an over-approximation of the first character of any derivation, for expressions that must consume one
(a leading zero-width assertion — look-around, `\b`, `$` — is skipped) -/
def firstSet : Re → Option (List (Nat × Nat))
  | .set S => some S.ranges
  | .cat a b => if 1 ≤ minW a then firstSet a else if isAssert a then firstSet b else none
  | .alt a b => match firstSet a, firstSet b with
    | some x, some y => some (x ++ y)
    | _, _ => none
  | .grp _ r => firstSet r
  | .rep lo _ _ r => if 1 ≤ lo then firstSet r else none
  | _ => none

structure Cert where
  cnt : PB
  work : PB
  det : Bool     -- at most one derivation from any state
deriving Repr, DecidableEq

def Cert.leaf : Cert := ⟨PB.one, PB.one, true⟩

def cert : Re → Option Cert
  | .eps | .set _ | .bref _ | .atEnd | .wordB => some Cert.leaf
  | .cat a b =>
    match cert a, cert b with
    | some ca, some cb =>
      some ⟨ca.cnt.mul cb.cnt, PB.one.add (ca.work.add (ca.cnt.mul cb.work)), ca.det && cb.det⟩
    | _, _ => none
  | .alt a b =>
    match cert a, cert b with
    | some ca, some cb =>
      let disj := match firstSet a, firstSet b with
        | some x, some y => rangesDisjoint x y
        | _, _ => false
      let det := ca.det && cb.det && disj
      some ⟨if det then PB.one else ca.cnt.add cb.cnt, PB.one.add (ca.work.add cb.work), det⟩
    | _, _ => none
  | .rep _ hi _ r =>
    match cert r with
    | none => none
    | some cr =>
      if cr.det then
        -- one derivation per iteration count: ≤ N + 1 ≤ 2N of them; each iteration costs the body's work + 1
        some ⟨⟨2, 1⟩, PB.one.add ((⟨2, 1⟩ : PB).mul (PB.one.add cr.work)), false⟩
      else match hi with
        | some k =>
          -- ≤ (1 + cnt)^k derivations; work ≤ (1 + cnt)^k · (2 + work body)
          let p := (PB.one.add cr.cnt).pow k
          some ⟨p, PB.one.add (p.mul (PB.one.add (PB.one.add cr.work))), false⟩
        | none => none
  | .grp _ r =>
    match cert r with
    | some cr => some ⟨cr.cnt, PB.one.add cr.work, cr.det⟩
    | none => none
  | .look _ _ _ r =>
    match cert r with
    | some cr => some ⟨PB.one, PB.one.add cr.work, true⟩
    | none => none

end Sql

namespace Sql

/-- `q (qq | \q | [^q])* q` — the shape of the two quoted-string rules (`'…'` with `''` and `\'` escapes). Its body is not
deterministic in the syntactic sense (`\` starts both `\q` and `[^q]`) although it is unambiguous: after a backslash, a run of
k quotes can only be completed by one of the two readings (parity).  Handled by a separate argument, not by `cert`. -/
def isStrTemplate : Re → Bool
  | .cat (.set q0) (.cat (.rep 0 none true (.grp _ (.alt (.cat (.set q1) (.set q2)) (.alt (.cat (.set bs) (.set q3)) (.set nq))))) (.set q4)) =>
    match q0.ranges with
    | [(x, y)] =>
      x == y && 1 ≤ x && q1 == q0 && q2 == q0 && q3 == q0 && q4 == q0 && bs.ranges == [(92, 92)] && x != 92 &&
        nq.ranges == [(0, x - 1), (x + 1, 1114111)]
    | _ => false
  | _ => false

end Sql
