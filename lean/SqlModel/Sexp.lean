import SqlModel.Tree
/-!
# SqlModel.Sexp — canonical text form of token trees for the driver's line protocol

All items are separated by single blanks:  group = `( ClassName child … )`,  leaf = `[ type.path hex … ]`
(type path with dots, root type `Token`; value as lowercase hex code points).  Used in both directions.
-/
namespace Sql

def hexDigits (n : Nat) : String := String.ofList (Nat.toDigits 16 n)

def showTextHex (t : Text) : String := " ".intercalate (t.map hexDigits)

def showTType (t : TType) : String := if t.isEmpty then "Token" else ".".intercalate t

mutual
def Node.sexp : Node → String
  | .tok tt v => if v.isEmpty then "[ " ++ showTType tt ++ " ]" else "[ " ++ showTType tt ++ " " ++ showTextHex v ++ " ]"
  | .grp c ks => "( " ++ c.name ++ sexpL ks ++ " )"
def sexpL : List Node → String
  | [] => ""
  | k :: ks => " " ++ k.sexp ++ sexpL ks
end

def Cls.ofName? (s : String) : Option Cls :=
  [Cls.Statement, .Identifier, .IdentifierList, .TypedLiteral, .Parenthesis, .SquareBrackets, .Assignment,
   .If, .For, .Comparison, .Comment, .Where, .Over, .Having, .Case, .Function, .Begin, .Operation, .Values,
   .Command, .TokenList].find? (fun c => c.name == s)

def hexCharVal (ch : Char) : Nat :=
  if ch.isDigit then ch.toNat - 48 else if 'a' ≤ ch ∧ ch ≤ 'f' then ch.toNat - 87 else 0

def parseHexWord (w : String) : Nat := w.foldl (fun a ch => a*16 + hexCharVal ch) 0

def parseTType (w : String) : TType := if w == "Token" then [] else w.splitOn "."

/-- parse one node from a word list; `fuel` bounds the recursion (word count suffices) -/
def parseNode : Nat → List String → Option (Node × List String)
  | 0, _ => none
  | fuel+1, ws =>
    match ws with
    | "[" :: tt :: rest =>
      let vals := rest.takeWhile (· != "]")
      match rest.dropWhile (· != "]") with
      | _ :: rest' => some (.tok (parseTType tt) (vals.map parseHexWord), rest')
      | [] => none
    | "(" :: cn :: rest =>
      match Cls.ofName? cn with
      | none => none
      | some c =>
        let rec kids : Nat → List String → List Node → Option (List Node × List String)
          | 0, _, _ => none
          | f+1, ws, acc =>
            match ws with
            | ")" :: rest' => some (acc.reverse, rest')
            | [] => none
            | _ => match parseNode fuel ws with
              | some (n, rest') => kids f rest' (n :: acc)
              | none => none
        match kids (rest.length + 1) rest [] with
        | some (ks, rest') => some (.grp c ks, rest')
        | none => none
    | _ => none

/-- parse a whole line of words as a sequence of nodes -/
def parseNodes (ws : List String) : Option (List Node) :=
  let rec go : Nat → List String → List Node → Option (List Node)
    | 0, _, _ => none
    | f+1, ws, acc =>
      match ws with
      | [] => some acc.reverse
      | _ => match parseNode (ws.length + 1) ws with
        | some (n, rest) => go f rest (n :: acc)
        | none => none
  go (ws.length + 1) ws []

end Sql
