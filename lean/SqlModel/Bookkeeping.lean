import SqlModel.GroupTokens
/-!
# SqlModel.Bookkeeping — the *mutable* side of sql.py's token tree: object identity, `parent` references and cached `value`s

The pure tree (`SqlModel/Tree.lean`) has no identity, no `parent` and no cache.  This module models exactly the code that maintains them
(sql.py `TokenList.__init__` and `TokenList.group_tokens`; the only places grouping mutates the tree — `tools/props/C03.py` checks that
confinement syntactically on every run):

```python
class TokenList(Token):
    def __init__(self, tokens=None):
        self.tokens = tokens or []
        [setattr(token, 'parent', self) for token in self.tokens]
        super().__init__(None, str(self))          # parent = None, value = str(self)

    def group_tokens(self, grp_cls, start, end, include_end=True, extend=False):
        start_idx = start
        start = self.tokens[start_idx]
        end_idx = end + include_end
        if extend and isinstance(start, grp_cls):
            subtokens = self.tokens[start_idx + 1:end_idx]
            grp = start
            grp.tokens.extend(subtokens)
            del self.tokens[start_idx + 1:end_idx]
            grp.value = str(start)
        else:
            subtokens = self.tokens[start_idx:end_idx]
            grp = grp_cls(subtokens)
            self.tokens[start_idx:end_idx] = [grp]
            grp.parent = self
        for token in subtokens:
            token.parent = grp
        return grp
```

Objects live in a heap indexed by creation order (the id of a Python object = the number of objects created before it: the leaves in
stream order, then the Statement, then every group `group_tokens` creates).  `str(x)` walks the heap (`strF`, with a recursion budget like
the interpreter's).
-/
namespace Sql.BK

structure Obj where
  parent : Option Nat := none
  /-- `none`: a leaf `Token`; `some ks`: a `TokenList` with `tokens = ks` -/
  kids : Option (List Nat) := none
  cls : Cls := .TokenList
  /-- leaf value, or the cached `value` of a group -/
  value : Text := []
  /-- the token type of a leaf (`Token.ttype`; `None` for groups, modelled as `[]`) -/
  ttype : TType := []
deriving Inhabited

structure Heap where
  size : Nat
  obj : Nat → Obj

namespace Heap

def setObj (h : Heap) (i : Nat) (o : Obj) : Heap := { h with obj := fun j => if j = i then o else h.obj j }

def setKids (h : Heap) (i : Nat) (ks : List Nat) : Heap := h.setObj i { h.obj i with kids := some ks }
def setValue (h : Heap) (i : Nat) (v : Text) : Heap := h.setObj i { h.obj i with value := v }
def setParent (h : Heap) (i : Nat) (p : Nat) : Heap := h.setObj i { h.obj i with parent := some p }

/-- `for token in ids: token.parent = p` -/
def setParents (h : Heap) (ids : List Nat) (p : Nat) : Heap :=
  { h with obj := fun j => if ids.contains j then { h.obj j with parent := some p } else h.obj j }

/-- allocate a fresh object; its id is the old `size` -/
def alloc (h : Heap) (o : Obj) : Heap := { size := h.size + 1, obj := fun j => if j = h.size then o else h.obj j }

end Heap

/-- `str(x)`: `''.join(token.value for token in self.flatten())` — leaves contribute their value, groups are walked -/
def strF (h : Heap) : Nat → Nat → Text
  | 0, _ => []
  | fuel+1, i =>
    match (h.obj i).kids with
    | none => (h.obj i).value
    | some ks => (ks.map (strF h fuel)).flatten

/-- `isinstance(x, cls)` for a heap object -/
def isInst (o : Obj) (c : Cls) : Bool := o.kids.isSome && (c == .TokenList || o.cls == c)

/-- `TokenList.group_tokens`; returns the new heap and the id of `grp`.  `str` is the `str()` used for the cached value. -/
def groupTokens (str : Heap → Nat → Text) (h : Heap) (self : Nat) (cls : Cls) (start stop : Nat) (includeEnd extend : Bool) :
    Except PyErr (Heap × Nat) :=
  match (h.obj self).kids with
  | none => .error .attributeError
  | some ks =>
    match ks[start]? with
    | none => .error .indexError
    | some st =>
      let endIdx := stop + (if includeEnd then 1 else 0)
      if extend && isInst (h.obj st) cls then
        let sub := pySlice ks (start + 1) endIdx
        let h1 := h.setKids st (((h.obj st).kids.getD []) ++ sub)          -- grp.tokens.extend(subtokens)
        let h2 := h1.setKids self (pyDelSlice ks (start + 1) endIdx)        -- del self.tokens[start_idx + 1:end_idx]
        let h3 := h2.setValue st (str h2 st)                                -- grp.value = str(start)
        .ok (h3.setParents sub st, st)                                      -- for token in subtokens: token.parent = grp
      else
        let sub := pySlice ks start endIdx
        let g := h.size
        let h1 := h.alloc { parent := none, kids := some sub, cls := cls, value := [] }   -- grp_cls(subtokens): self.tokens = …
        let h2 := h1.setParents sub g                                       -- setattr(token, 'parent', self) for token in tokens
        let h3 := h2.setValue g (str h2 g)                                  -- Token.__init__(None, str(self))
        let h4 := h3.setKids self (ks.take start ++ g :: ks.drop (max start endIdx))   -- self.tokens[start_idx:end_idx] = [grp]
        let h5 := h4.setParent g self                                       -- grp.parent = self
        .ok (h5.setParents sub g, g)                                        -- for token in subtokens: token.parent = grp

/-- `tlist[idx].ttype = tt` (what `group_operator`'s post step does); returns the new heap and the id of the object written -/
def Heap.setTType (h : Heap) (self idx : Nat) (tt : TType) : Except PyErr (Heap × Nat) :=
  match (h.obj self).kids with
  | none => .error .typeError
  | some ks =>
    match ks[idx]? with
    | none => .error .indexError
    | some x => .ok (h.setObj x { h.obj x with ttype := tt }, x)

/-- `sql.Statement(tokens)` over freshly created leaf tokens (statement_splitter.py): leaves `0 … n-1`, the statement is object `n` -/
def mkStatement (vals : List Text) : Heap :=
  let n := vals.length
  { size := n + 1
    obj := fun j =>
      if j < n then { parent := some n, kids := none, value := vals.getD j [] }
      else if j = n then { parent := none, kids := some (List.range n), cls := .Statement, value := vals.flatten }
      else {} }

/-- one scripted call -/
structure Op where
  self : Nat
  cls : Cls
  start : Nat
  stop : Nat
  includeEnd : Bool
  extend : Bool

/-- run a script; a call that raises leaves the heap as it was (the exception is raised before anything is written) -/
def runOps (str : Heap → Nat → Text) (h : Heap) : List Op → Heap × List (Except PyErr Nat)
  | [] => (h, [])
  | op :: rest =>
    match groupTokens str h op.self op.cls op.start op.stop op.includeEnd op.extend with
    | .error e => let r := runOps str h rest; (r.1, .error e :: r.2)
    | .ok (h', g) => let r := runOps str h' rest; (r.1, .ok g :: r.2)

/-- a heap operation: a `group_tokens` call or a `ttype` assignment -/
inductive HOp where
  | group (op : Op)
  | setType (self idx : Nat) (tt : TType)

def HOp.run (str : Heap → Nat → Text) (h : Heap) : HOp → Except PyErr (Heap × Nat)
  | .group op => groupTokens str h op.self op.cls op.start op.stop op.includeEnd op.extend
  | .setType self idx tt => h.setTType self idx tt

/-- run a script of heap operations; an operation that raises leaves the heap as it was -/
def runHOps (str : Heap → Nat → Text) (h : Heap) : List HOp → Heap × List (Except PyErr Nat)
  | [] => (h, [])
  | op :: rest =>
    match op.run str h with
    | .error e => let r := runHOps str h rest; (r.1, .error e :: r.2)
    | .ok (h', g) => let r := runHOps str h' rest; (r.1, .ok g :: r.2)

/-- give the objects token types -/
def Heap.withTypes (h : Heap) (f : Nat → TType) : Heap := { h with obj := fun j => { h.obj j with ttype := f j } }

/-- `sql.Statement(tokens)` over freshly created leaf tokens, with their token types -/
def mkStatementT (toks : List Tok) : Heap := (mkStatement (toks.map (·.val))).withTypes (fun j => (toks.getD j default).tt)

end Sql.BK
