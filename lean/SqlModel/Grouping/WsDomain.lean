import SqlModel.Grouping
import SqlModel.Grouping.Skel
import SqlModel.Grouping.DelimSafe
/-!
# SqlModel.Grouping.WsDomain — the decidable domain of the whitespace-run invariance theorem (property C11)

`SqlProofs/WsInv/WsInvariant.lean` proves: for a flat statement `st` with `InDomain fuel st`,
`groupStatement fuel st = .ok n → groupStatement fuel (skelToks st) = .ok n.skel`.
The domain is defined here so that the driver can evaluate it (`wsdomain`).

* `noCommentTok`, `noAssignTok`: no comment token, no `:=` token (real exclusions: witness pairs on the library).
* `WsDomain`: on the intermediate tree handed to `group_functions`, `fnLevel`/`fnOKL`: the `CREATE TABLE … AS` test of
  `group_functions` (it reads the *text* of every child, whitespace children included) has the same outcome with and
  without the whitespace children, at every level.  An artefact of the abstract model (arbitrary token values and an
  arbitrary `upper`): no whitespace token and no group of the library spells `CREATE`/`TABLE`/`AS`.
* `whLevel`/`whOKL` (every parenthesis/bracket group starts and ends with a child that is neither whitespace nor the
  keyword `WHERE`; `group_where` takes `_groupable_tokens[-1]`, i.e. `tokens[-2]`, without looking at `tokens[-1]`) is
  *not* part of the domain: it is proved for the tree `group_where` receives (`SqlProofs/WsInv/Ends.lean`).
-/
namespace Sql

/-- neither whitespace nor the keyword `WHERE` -/
def plainEnd (u : Text → Text) (x : Node) : Bool :=
  !x.isWhitespace && !imt u x [] Gen.group_where_token_next_by0_m .none

/-- in a parenthesis/bracket group the first and the last child are `plainEnd` -/
def whLevel (u : Text → Text) (c : Cls) (ks : List Node) : Bool :=
  !Gen.groupableInner.contains c ||
    ((match ks[0]? with | some f => plainEnd u f | none => false) &&
     (match ks[ks.length - 1]? with | some l => plainEnd u l | none => false))

mutual
/-- `whLevel` for every group, at any depth -/
def whOKN (u : Text → Text) : Node → Bool
  | .tok _ _ => true
  | .grp c ks => whLevel u c ks && whOKL u ks
def whOKL (u : Text → Text) : List Node → Bool
  | [] => true
  | k :: ks => whOKN u k && whOKL u ks
end

/-- the `CREATE TABLE … AS` test has the same outcome with and without the whitespace children -/
def fnLevel (u : Text → Text) (ks : List Node) : Bool := functionsSkip u (skelL ks) == functionsSkip u ks

mutual
/-- `fnLevel` for every group, at any depth -/
def fnOKN (u : Text → Text) : Node → Bool
  | .tok _ _ => true
  | .grp _ ks => fnLevel u ks && fnOKL u ks
def fnOKL (u : Text → Text) : List Node → Bool
  | [] => true
  | k :: ks => fnOKN u k && fnOKL u ks
end

/-- the flat statement has no comment token -/
def noCommentTok (st : List Tok) : Bool := st.all fun t => !t.tt.isIn T.Comment
/-- the flat statement has no `:=` token -/
def noAssignTok (st : List Tok) : Bool := st.all fun t => t.tt != T.Assignment

/-- the condition on the intermediate tree handed to `group_functions` (the first eight passes have run): the
`CREATE TABLE … AS` test is not affected by the whitespace children, at any level -/
def WsDomain (u : Text → Text) (fuel : Nat) (st : List Tok) : Bool :=
  match runPasses u fuel .Statement (Gen.passOrder.take 8) (flatStatement st) with
  | .error _ => true
  | .ok m8 => fnLevel u m8 && fnOKL u m8

def InDomainWith (u : Text → Text) (fuel : Nat) (st : List Tok) : Bool :=
  noCommentTok st && noAssignTok st && WsDomain u fuel st

/-- **the decidable domain of `ws_invariant_partial`** -/
def InDomain (fuel : Nat) (st : List Tok) : Bool := InDomainWith kwNorm fuel st

/-- whitespace runs canonicalised: every maximal run of whitespace tokens becomes one `none` -/
def wsCanon : List Tok → List (Option Tok)
  | [] => []
  | t :: rest =>
    if t.tt.isIn T.Whitespace then
      match wsCanon rest with
      | none :: r => none :: r
      | r => none :: r
    else some t :: wsCanon rest

/-- **same non-whitespace tokens in the same order, and between two of them (and at both ends) either both
statements have whitespace or neither has** -/
def WsEquiv (st st' : List Tok) : Prop := wsCanon st = wsCanon st'

instance (st st' : List Tok) : Decidable (WsEquiv st st') := by unfold WsEquiv; infer_instance

/-- what `group_comments` can see of the whitespace after a comment token: is the run up to the next non-whitespace
token made of `Newline`-typed tokens only? -/
def cmtCanon : List Tok → List (Option Tok × Bool)
  | [] => []
  | t :: rest =>
    if t.tt.isIn T.Whitespace then cmtCanon rest
    else
      let gap := rest.takeWhile (fun x => x.tt.isIn T.Whitespace)
      (some t, t.tt.isIn T.Comment && gap.all (fun x => x.tt.isIn T.Newline)) :: cmtCanon rest

end Sql
