import SqlModel.Grouping.Driver
import SqlModel.Generated.Tables
import SqlModel.Generated.GroupingTables
/-!
# SqlModel.Grouping.DriverPasses — the passes of grouping.py that are instances of `_group`

Each pass is a `DrvCfg`: the four closures `match`, `valid_prev`, `valid_next`, `post` transcribed from the
source, the class and the flags `extend=`/`recurse=` taken from the generated tables (`Gen.<pass>_group<k>_*`),
as are all constant tuples (`sqlcls`, `ttypes`, `m_role`, inline `match(...)`/`imt(...)` arguments).
`upper` is `str.upper`.
-/
namespace Sql

/-- `token.match(*p)` / `token.match(tt, values)` for a generated one-element pattern list -/
def Node.matchAny (upper : Text → Text) (n : Node) (ps : List MPat) : Bool := ps.any (n.matchP upper)

/-- `token is not None` -/
def isSomeTok (t : Option Node) : Bool := t.isSome

/-- `post` returning `(pidx, nidx)`; `nidx = None` would make `group_tokens` raise `TypeError` (`None + True`) -/
def postPrevNext (cur : List Node) (pidx _tidx : Nat) (nidx : Option Nat) : Except PyErr (List Node × Nat × Nat) :=
  match nidx with
  | none => .error .typeError
  | some n => .ok (cur, pidx, n)

/-- `post` returning `(tidx, nidx)` -/
def postTokNext (cur : List Node) (_pidx tidx : Nat) (nidx : Option Nat) : Except PyErr (List Node × Nat × Nat) :=
  match nidx with
  | none => .error .typeError
  | some n => .ok (cur, tidx, n)

/-- `post` returning `(pidx, tidx)` -/
def postPrevTok (cur : List Node) (pidx tidx : Nat) (_nidx : Option Nat) : Except PyErr (List Node × Nat × Nat) :=
  .ok (cur, pidx, tidx)

/-! ### group_typecasts -/
def cfgTypecasts (upper : Text → Text) : DrvCfg :=
  { cls := Gen.group_typecasts_group0_cls
    isMatch := fun t => t.matchAny upper Gen.group_typecasts_match0
    validPrev := fun _ => true                     -- `token is not None` on a non-None `prev_`
    validNext := isSomeTok
    post := postPrevNext
    extend := Gen.group_typecasts_group0_extend
    recurse := Gen.group_typecasts_group0_recurse }

/-! ### group_tzcasts -/
def cfgTzcasts (upper : Text → Text) : DrvCfg :=
  { cls := Gen.group_tzcasts_group0_cls
    isMatch := fun t => t.ttype? == some Gen.group_tzcasts_ttype_cmp0
    validPrev := fun _ => true
    validNext := fun t => match t with
      | none => false
      | some t => t.isWhitespace || t.matchAny upper Gen.group_tzcasts_match0
                    || t.matchAny upper Gen.group_tzcasts_match1
    post := postPrevNext
    extend := Gen.group_tzcasts_group0_extend
    recurse := Gen.group_tzcasts_group0_recurse }

/-! ### group_typed_literal (two `_group` runs) -/
def cfgTypedLiteral0 (upper : Text → Text) : DrvCfg :=
  { cls := Gen.group_typed_literal_group0_cls
    isMatch := fun t => imt upper t [] Gen.group_typed_literal_imt0_m .none
    validPrev := fun _ => true
    validNext := fun t => match t with
      | none => false
      | some t => t.matchAny upper Gen.group_typed_literal_match0
    post := postTokNext
    extend := Gen.group_typed_literal_group0_extend
    recurse := Gen.group_typed_literal_group0_recurse }

def cfgTypedLiteral1 (upper : Text → Text) : DrvCfg :=
  { cls := Gen.group_typed_literal_group1_cls
    isMatch := fun t => t.isInstAny Gen.group_typed_literal_isinstance0
    validPrev := fun _ => true
    validNext := fun t => match t with
      | none => false
      | some t => t.matchAny upper Gen.group_typed_literal_match1
    post := postTokNext
    extend := Gen.group_typed_literal_group1_extend
    recurse := Gen.group_typed_literal_group1_recurse }

/-! ### group_period -/
/-- `next_ = tlist[nidx] if nidx is not None else None; valid_next = imt(next_, i=sqlcls, t=ttypes)`;
`(pidx, nidx) if valid_next else (pidx, tidx)` -/
def postPeriod (upper : Text → Text) (cur : List Node) (pidx tidx : Nat) (nidx : Option Nat) :
    Except PyErr (List Node × Nat × Nat) :=
  match nidx with
  | none => .ok (cur, pidx, tidx)
  | some n =>
    match cur[n]? with
    | none => .error .indexError
    | some nx =>
      if imt upper nx Gen.group_period_post_sqlcls [] Gen.group_period_post_ttypes then .ok (cur, pidx, n)
      else .ok (cur, pidx, tidx)

def cfgPeriod (upper : Text → Text) : DrvCfg :=
  { cls := Gen.group_period_group0_cls
    isMatch := fun t => t.matchAny upper Gen.group_period_match_for
    validPrev := fun t => imt upper t Gen.group_period_valid_prev_sqlcls [] Gen.group_period_valid_prev_ttypes
    validNext := fun _ => true
    post := postPeriod upper
    extend := Gen.group_period_group0_extend
    recurse := Gen.group_period_group0_recurse }

/-! ### group_as -/
def cfgAs (upper : Text → Text) : DrvCfg :=
  { cls := Gen.group_as_group0_cls
    isMatch := fun t => t.isKeyword && t.normalized upper == txt "AS"
    validPrev := fun t => t.normalized upper == txt "NULL" || !t.isKeyword
    validNext := fun t => !(imtOpt upper t [] [] Gen.group_as_valid_next_ttypes) && t.isSome
    post := postPrevNext
    extend := Gen.group_as_group0_extend
    recurse := Gen.group_as_group0_recurse }

/-! ### group_assignment -/
/-- `token is not None and token.ttype not in (T.Keyword,)` -/
def validAssignment (upper : Text → Text) (t : Option Node) : Bool :=
  match t with
  | none => false
  | some t => !(imt upper t [] [] Gen.group_assignment_ttype_cmp0)

/-- `snidx, _ = tlist.token_next_by(m=m_semicolon, idx=nidx); nidx = snidx or nidx; return pidx, nidx` -/
def postAssignment (upper : Text → Text) (cur : List Node) (pidx _tidx : Nat) (nidx : Option Nat) :
    Except PyErr (List Node × Nat × Nat) :=
  match nidx with
  | none => .error .typeError                      -- `idx += 1` on `None`
  | some n =>
    match tokenNextBy upper cur [] Gen.group_assignment_post_m_semicolon .none (n + 1) with
    | none => .ok (cur, pidx, n)
    | some (sn, _) => .ok (cur, pidx, if sn == 0 then n else sn)      -- `snidx or nidx`

def cfgAssignment (upper : Text → Text) : DrvCfg :=
  { cls := Gen.group_assignment_group0_cls
    isMatch := fun t => t.matchAny upper Gen.group_assignment_match0
    validPrev := fun t => validAssignment upper (some t)
    validNext := validAssignment upper
    post := postAssignment upper
    extend := Gen.group_assignment_group0_extend
    recurse := Gen.group_assignment_group0_recurse }

/-! ### group_comparison -/
/-- `imt(token, t=ttypes, i=sqlcls)` or `token and token.is_keyword and token.normalized == 'NULL'` -/
def validComparison (upper : Text → Text) (t : Option Node) : Bool :=
  match t with
  | none => false
  | some t => imt upper t Gen.group_comparison_sqlcls [] Gen.group_comparison_ttypes
                || (t.isKeyword && t.normalized upper == txt "NULL")

def cfgComparison (upper : Text → Text) : DrvCfg :=
  { cls := Gen.group_comparison_group0_cls
    isMatch := fun t => t.ttype? == some Gen.group_comparison_ttype_cmp0
    validPrev := fun t => validComparison upper (some t)
    validNext := validComparison upper
    post := postPrevNext
    extend := Gen.group_comparison_group0_extend
    recurse := Gen.group_comparison_group0_recurse }

/-! ### group_arrays -/
def cfgArrays (upper : Text → Text) : DrvCfg :=
  { cls := Gen.group_arrays_group0_cls
    isMatch := fun t => t.isInstAny Gen.group_arrays_isinstance0
    validPrev := fun t => imt upper t Gen.group_arrays_sqlcls [] Gen.group_arrays_ttypes
    validNext := fun _ => true
    post := postPrevTok
    extend := Gen.group_arrays_group0_extend
    recurse := Gen.group_arrays_group0_recurse }

/-! ### group_operator -/
/-- `imt(token, i=sqlcls, t=ttypes) or (token and token.match(T.Keyword, ('CURRENT_DATE', …)))` -/
def validOperator (upper : Text → Text) (t : Option Node) : Bool :=
  match t with
  | none => false
  | some t => imt upper t Gen.group_operator_sqlcls [] Gen.group_operator_ttypes
                || t.matchAny upper Gen.group_operator_match0

/-- `x.ttype = T.Operator`.  On a leaf this changes the type (its cached `is_keyword`/`is_whitespace`/`normalized`
are *not* recomputed by Python; the only leaves ever hit are of type Operator or Wildcard, where they agree).
On a group it would set an attribute the pure tree does not carry (never observed; measured). -/
def Node.setTType (n : Node) (tt : TType) : Node :=
  match n with
  | .tok _ v => .tok tt v
  | .grp c ks => .grp c ks

/-- `tlist[tidx].ttype = T.Operator; return pidx, nidx` -/
def postOperator (cur : List Node) (pidx tidx : Nat) (nidx : Option Nat) : Except PyErr (List Node × Nat × Nat) :=
  match cur[tidx]? with
  | none => .error .indexError
  | some t =>
    match nidx with
    | none => .error .typeError
    | some n => .ok (cur.set tidx (t.setTType Gen.group_operator_ttype_set0), pidx, n)

def cfgOperator (upper : Text → Text) : DrvCfg :=
  { cls := Gen.group_operator_group0_cls
    isMatch := fun t => imt upper t [] [] Gen.group_operator_imt0_t
    validPrev := fun t => validOperator upper (some t)
    validNext := validOperator upper
    post := postOperator
    extend := Gen.group_operator_group0_extend
    recurse := Gen.group_operator_group0_recurse }

/-! ### group_identifier_list -/
def validIdentifierList (upper : Text → Text) (t : Option Node) : Bool :=
  imtOpt upper t Gen.group_identifier_list_sqlcls Gen.group_identifier_list_m_role Gen.group_identifier_list_ttypes

def cfgIdentifierList (upper : Text → Text) : DrvCfg :=
  { cls := Gen.group_identifier_list_group0_cls
    isMatch := fun t => t.matchAny upper Gen.group_identifier_list_match0
    validPrev := fun t => validIdentifierList upper (some t)
    validNext := validIdentifierList upper
    post := postPrevNext
    extend := Gen.group_identifier_list_group0_extend
    recurse := Gen.group_identifier_list_group0_recurse }

end Sql
