import SqlModel.Tree
/-!
# SqlModel.Grouping.Skel — the tree without its whitespace leaves (property C11: whitespace-run invariance)

`Node.skel` / `skelL` delete every whitespace-typed leaf (`ttype in T.Whitespace`, which includes `Newline`) at every
level of the tree and keep everything else: classes, nesting, the other leaves with type and value.
-/
namespace Sql

mutual
def Node.skel : Node → Node
  | .tok tt v => .tok tt v
  | .grp c ks => .grp c (skelL ks)
def skelL : List Node → List Node
  | [] => []
  | k :: ks => if k.isWhitespace then skelL ks else k.skel :: skelL ks
end

/-- the flat statement without its whitespace tokens -/
def skelToks (st : List Tok) : List Tok := st.filter (fun t => !t.tt.isIn T.Whitespace)

end Sql
