import SqlModel.Grouping.Basic
/-!
# SqlModel.Grouping.Matching — `_group_matching(tlist, cls)`

```python
opens = []; tidx_offset = 0
for idx, token in enumerate(list(tlist)):
    tidx = idx - tidx_offset
    if token.is_whitespace: continue
    if token.is_group and not isinstance(token, cls):
        _group_matching(token, cls); continue
    if token.match(*cls.M_OPEN): opens.append(tidx)
    elif token.match(*cls.M_CLOSE):
        try: open_idx = opens.pop()
        except IndexError: continue
        close_idx = tidx
        tlist.group_tokens(cls, open_idx, close_idx)
        tidx_offset += close_idx - open_idx
```
The recursion into the children only changes their insides, which the parent loop never reads, so it is done first
(`groupMatching`), then the parent loop runs over the snapshot (`matchLoop`).
`M_OPEN`/`M_CLOSE` are single `(ttype, values)` pairs for the six classes used (checked by the translator); they are
passed as one-element `List MPat`.
-/
namespace Sql

structure MatchSt where
  cur : List Node          -- `tlist.tokens`
  opens : List Nat         -- the stack `opens`, top first
  off : Nat                -- `tidx_offset`
deriving Inhabited

/-- one iteration of the loop, for snapshot element `token` at snapshot index `idx` -/
def matchStep (upper : Text → Text) (cls : Cls) (mOpen mClose : List MPat) (st : MatchSt) (idx : Nat)
    (token : Node) : Except PyErr MatchSt :=
  let tidx := idx - st.off
  if token.isWhitespace then .ok st
  else if token.isGroup && !token.isInst cls then .ok st
  else if mOpen.any (token.matchP upper) then .ok { st with opens := tidx :: st.opens }
  else if mClose.any (token.matchP upper) then
    match st.opens with
    | [] => .ok st
    | o :: rest =>
      match groupTokens st.cur cls o tidx with
      | .error e => .error e
      | .ok cur' => .ok { cur := cur', opens := rest, off := st.off + (tidx - o) }
  else .ok st

/-- the loop over the snapshot (`snap` = the part of the snapshot still to visit, `idx` = index of its head) -/
def matchLoop (upper : Text → Text) (cls : Cls) (mOpen mClose : List MPat) :
    List Node → Nat → MatchSt → Except PyErr MatchSt
  | [], _, st => .ok st
  | token :: snap, idx, st =>
    match matchStep upper cls mOpen mClose st idx token with
    | .error e => .error e
    | .ok st' => matchLoop upper cls mOpen mClose snap (idx + 1) st'

/-- `_group_matching(tlist, cls)` on the children of `tlist` -/
def groupMatching (upper : Text → Text) (cls : Cls) (mOpen mClose : List MPat) :
    Nat → List Node → Except PyErr (List Node)
  | 0, _ => .error .recursionError
  | fuel+1, ks =>
    match mapGroups (fun k => !k.isInst cls) (fun _ kids => groupMatching upper cls mOpen mClose fuel kids) ks with
    | .error e => .error e
    | .ok ks' =>
      match matchLoop upper cls mOpen mClose ks' 0 { cur := ks', opens := [], off := 0 } with
      | .error e => .error e
      | .ok st => .ok st.cur

end Sql
