import SqlModel.GroupTokens
import SqlModel.Splitter
/-!
# SqlModel.Grouping.Basic — shared plumbing of the grouping passes

A pass is a function of (fuel, class of the list's owner, children).  Python's passes mutate a `TokenList` in place;
here they return the new child list.  Recursion into sub-groups is *always* done through `mapGroups`/`mapGroupsWhere`
on a fuel-decreasing call, so that every definition is structurally recursive on the fuel.
-/
namespace Sql

/-- a grouping pass: fuel → class of the node that owns the children → children → new children -/
abbrev Pass := Nat → Cls → List Node → Except PyErr (List Node)

/-- replace the children of every group child `k` with `elig k` by `f (class of k) (children of k)`; leaves and
non-eligible groups stay as they are -/
def mapGroups (elig : Node → Bool) (f : Cls → List Node → Except PyErr (List Node)) :
    List Node → Except PyErr (List Node)
  | [] => .ok []
  | .tok tt v :: rest =>
    match mapGroups elig f rest with
    | .error e => .error e
    | .ok rest' => .ok (.tok tt v :: rest')
  | .grp c kids :: rest =>
    if elig (.grp c kids) then
      match f c kids with
      | .error e => .error e
      | .ok kids' =>
        match mapGroups elig f rest with
        | .error e => .error e
        | .ok rest' => .ok (.grp c kids' :: rest')
    else
      match mapGroups elig f rest with
      | .error e => .error e
      | .ok rest' => .ok (.grp c kids :: rest')

/-- like `mapGroups`, the eligibility of the `n`-th child given by the `n`-th flag (missing flags count as `false`) -/
def mapGroupsWhere (f : Cls → List Node → Except PyErr (List Node)) :
    List Bool → List Node → Except PyErr (List Node)
  | _, [] => .ok []
  | [], ks => .ok ks
  | _ :: bs, .tok tt v :: rest =>
    match mapGroupsWhere f bs rest with
    | .error e => .error e
    | .ok rest' => .ok (.tok tt v :: rest')
  | b :: bs, .grp c kids :: rest =>
    if b then
      match f c kids with
      | .error e => .error e
      | .ok kids' =>
        match mapGroupsWhere f bs rest with
        | .error e => .error e
        | .ok rest' => .ok (.grp c kids' :: rest')
    else
      match mapGroupsWhere f bs rest with
      | .error e => .error e
      | .ok rest' => .ok (.grp c kids :: rest')

/-- the `@recurse(*skip)` decorator of utils.py:
```python
def wrapped_f(tlist):
    for sgroup in tlist.get_sublists():
        if not isinstance(sgroup, cls):
            wrapped_f(sgroup)
    f(tlist)
```
(`isinstance(x, ())` is `False`: `@recurse()` descends into every group.) -/
def recursePass (skip : List Cls) (f : Cls → List Node → Except PyErr (List Node)) : Pass
  | 0, _, _ => .error .recursionError
  | fuel+1, c, ks =>
    match mapGroups (fun k => !k.isInstAny skip) (recursePass skip f fuel) ks with
    | .error e => .error e
    | .ok ks' => f c ks'

/-- the bound handed to the `while token:` loops of the ad-hoc passes: each iteration strictly decreases
`len(tlist.tokens) − tidx`, so `length + 1` iterations always suffice; running out of it (impossible) is reported
as `notImplemented` rather than silently returning -/
def loopBound (ks : List Node) : Nat := ks.length + 1

end Sql
