import SqlModel.Grouping.Basic
/-!
# SqlModel.Grouping.Driver — `_group(tlist, cls, match, valid_prev, valid_next, post, extend, recurse)`

```python
tidx_offset = 0
pidx, prev_ = None, None
for idx, token in enumerate(list(tlist)):
    tidx = idx - tidx_offset
    if tidx < 0: continue
    if token.is_whitespace: continue
    if recurse and token.is_group and not isinstance(token, cls):
        _group(token, cls, match, valid_prev, valid_next, post, extend)
    if match(token):
        nidx, next_ = tlist.token_next(tidx)
        if prev_ and valid_prev(prev_) and valid_next(next_):
            from_idx, to_idx = post(tlist, pidx, tidx, nidx)
            grp = tlist.group_tokens(cls, from_idx, to_idx, extend=extend)
            tidx_offset += to_idx - from_idx
            pidx, prev_ = from_idx, grp
            continue
    pidx, prev_ = tidx, token
```
The loop runs over a snapshot while `tlist` shrinks: after a grouping it goes on visiting snapshot elements that
were absorbed ("stale"), with `tidx` pointing into the shrunk list; iterations with `tidx < 0` are skipped — and a
group child visited in such an iteration is *not* recursed into (`a := f(x := 1);`: the call is absorbed with
`tidx = −1` and its inside is never visited by `group_assignment`).
The pure model separates the two effects of the loop: `drvLoop` is the parent-level loop (it also records, per
snapshot index, whether the iteration got past the `tidx < 0` test); `groupDriver` first runs it once to learn which
children are reached, recurses into exactly those (their insides are never read by the parent loop, so the second
run takes the same decisions), then runs it again on the result.
-/
namespace Sql

structure DrvCfg where
  cls : Cls
  isMatch : Node → Bool
  validPrev : Node → Bool
  validNext : Option Node → Bool
  /-- `post(tlist, pidx, tidx, nidx)`: may rewrite the list (`group_operator`), returns `(from_idx, to_idx)` -/
  post : List Node → Nat → Nat → Option Nat → Except PyErr (List Node × Nat × Nat)
  extend : Bool := true
  recurse : Bool := true

structure DrvSt where
  cur : List Node                    -- `tlist.tokens`
  off : Int                          -- `tidx_offset` (can *decrease*: `to_idx − from_idx` is negative when a stale
                                     --  match after a far-reaching `post` yields `nidx < pidx`)
  prev : Option (Nat × Node)         -- `(pidx, prev_)`, `none` = `(None, None)`
  reached : List Bool                -- per visited snapshot index, newest first: did it pass `tidx < 0`?
deriving Inhabited

/-- one iteration of the loop -/
def drvStep (cfg : DrvCfg) (st : DrvSt) (idx : Nat) (token : Node) : Except PyErr DrvSt :=
  if (idx : Int) - st.off < 0 then .ok { st with reached := false :: st.reached }
  else
    let tidx := ((idx : Int) - st.off).toNat
    let st := { st with reached := true :: st.reached }
    if token.isWhitespace then .ok st
    else
      let plain : DrvSt := { st with prev := some (tidx, token) }      -- `pidx, prev_ = tidx, token`
      if cfg.isMatch token then
        let nx := tokenNext st.cur tidx
        match st.prev with
        | none => .ok plain
        | some (pidx, prev) =>
          if cfg.validPrev prev && cfg.validNext (nx.map (·.2)) then
            match cfg.post st.cur pidx tidx (nx.map (·.1)) with
            | .error e => .error e
            | .ok (cur1, fromIdx, toIdx) =>
              match groupTokens' cur1 cfg.cls fromIdx toIdx true cfg.extend with
              | .error e => .error e
              | .ok (cur2, grp) =>
                .ok { st with cur := cur2, off := st.off + ((toIdx : Int) - (fromIdx : Int)), prev := some (fromIdx, grp) }
          else .ok plain
      else .ok plain

/-- the loop over the snapshot -/
def drvLoop (cfg : DrvCfg) : List Node → Nat → DrvSt → Except PyErr DrvSt
  | [], _, st => .ok st
  | token :: snap, idx, st =>
    match drvStep cfg st idx token with
    | .error e => .error e
    | .ok st' => drvLoop cfg snap (idx + 1) st'

def drvInit (ks : List Node) : DrvSt := { cur := ks, off := 0, prev := none, reached := [] }

/-- which children the loop recurses into: reached, a group, not an instance of `cls` -/
def drvEligible (cls : Cls) : List Bool → List Node → List Bool
  | b :: bs, k :: ks => (b && k.isGroup && !k.isInst cls) :: drvEligible cls bs ks
  | _, _ => []

/-- `_group(…)` on the children of `tlist`; nested calls always have `recurse=True` (the flag is not passed down) -/
def groupDriver (cfg : DrvCfg) : Nat → List Node → Except PyErr (List Node)
  | 0, _ => .error .recursionError
  | fuel+1, ks =>
    if cfg.recurse then
      match drvLoop cfg ks 0 (drvInit ks) with
      | .error e => .error e
      | .ok dry =>
        match mapGroupsWhere (fun _ kids => groupDriver { cfg with recurse := true } fuel kids)
            (drvEligible cfg.cls dry.reached.reverse ks) ks with
        | .error e => .error e
        | .ok ks' =>
          match drvLoop cfg ks' 0 (drvInit ks') with
          | .error e => .error e
          | .ok st => .ok st.cur
    else
      match drvLoop cfg ks 0 (drvInit ks) with
      | .error e => .error e
      | .ok st => .ok st.cur

end Sql
