import SqlModel.Grouping.DelimSafe
import SqlModel.Filters.Safe
/-!
# SqlModel.Grouping.ReindentSafe — the decidable hypothesis under which the grouped tree lies in `FilterSafe.reindent`

`DelimSafe`, plus two facts every lexer output has:
* no token has an empty value, and only a `Punctuation` token has the value `,` (`ReindentFilter._process_identifierlist`
  looks for children whose *value* is `','`);
* in the tree after the seven first passes, the child right after the `CASE` keyword of a Case node is not one of the
  keywords `CASE`/`THEN`/`ELSE`/`END` (then the first case `get_cases()` returns has an empty condition or there is
  none, and `_process_case` raises); the lexer always puts whitespace, a comment or another token between them.
-/
namespace Sql

/-- no empty token; the value `,` only on `Punctuation` -/
def tokOK (t : Tok) : Bool := !t.val.isEmpty && (t.val != [44] || t.tt == T.Punctuation)

/-- the keywords that must not directly follow `CASE` -/
def caseNextPat : List MPat := [⟨T.Keyword, some [txt "CASE", txt "THEN", txt "ELSE", txt "END"]⟩]

/-- the second child of the children of a Case node is harmless -/
def caseSecondOK (u : Text → Text) (c : Cls) (ks : List Node) : Bool :=
  c != .Case ||
    match ks with
    | _ :: x :: _ => !x.matchAny u caseNextPat
    | _ => true

mutual
def Node.caseSecond (u : Text → Text) : Node → Bool
  | .tok _ _ => true
  | .grp c ks => caseSecondOK u c ks && caseSecondL u ks
def caseSecondL (u : Text → Text) : List Node → Bool
  | [] => true
  | k :: ks => k.caseSecond u && caseSecondL u ks
end

def ReindentSafeWith (u : Text → Text) (fuel : Nat) (st : List Tok) : Bool :=
  DelimSafeWith u fuel st && st.all tokOK &&
    match runPasses u fuel .Statement (Gen.passOrder.take 7) (flatStatement st) with
    | .ok m7 => caseSecondL u m7
    | .error _ => false

/-- **the decidable hypothesis** for `reindent` -/
def ReindentSafe (st : List Tok) : Bool := ReindentSafeWith kwNorm 200 st

end Sql
