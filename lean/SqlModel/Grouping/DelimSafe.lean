import SqlModel.Grouping
/-!
# SqlModel.Grouping.DelimSafe — a decidable condition under which the bracket/block nodes keep their delimiters

After the six `_group_matching` passes every Parenthesis/SquareBrackets/Case/If/For/Begin node is
`[opener, …, closer]`.  Later passes work *inside* these nodes and can wrap the opening or closing leaf into a
sub-group: a `_group` pass takes the leaf as `prev_` (resp. `next_`) of a match next to it, `group_where` inside a
Case/If/For/Begin runs to the last child, and `group_begin` itself can take the `END` of an earlier Case.
`DelimSafe` looks at the tree right after the matching passes (the textbook matcher) and rejects exactly these
neighbourhoods; it also rejects any `Assignment`-typed token (`group_assignment` reaches to the next `;` and then
revisits stale positions).  `delimShape` is the property of the final tree it is meant to guarantee.
-/
namespace Sql

def firstNonWs (l : List Node) : Option Node := l.find? (fun x => !x.isWhitespace)
def lastNonWs (l : List Node) : Option Node := firstNonWs l.reverse

/-- the six bracket/block classes with their patterns -/
def delimTables (c : Cls) : Option (List MPat × List MPat) := matchingTables c

/-- the `_group` configurations that group from `pidx` (the previous token can be absorbed) -/
def prevAbsorbers (u : Text → Text) : List DrvCfg :=
  [cfgTypecasts u, cfgTzcasts u, cfgPeriod u, cfgAs u, cfgAssignment u, cfgComparison u, cfgArrays u, cfgOperator u,
   cfgIdentifierList u]

/-- the `_group` configurations that group up to `nidx` (the next token can be absorbed) -/
def nextAbsorbers (u : Text → Text) : List DrvCfg :=
  [cfgTypecasts u, cfgTzcasts u, cfgTypedLiteral0 u, cfgTypedLiteral1 u, cfgAs u, cfgAssignment u, cfgComparison u,
   cfgOperator u, cfgIdentifierList u]

/-- the child `s` right after the opener `o` would take `o` as its `prev_` -/
def openerBad (u : Text → Text) (o s : Node) : Bool :=
  (prevAbsorbers u).any (fun cfg => cfg.isMatch s && cfg.validPrev o)

/-- the child `s` right before the closer `c` would take `c` as its `next_` -/
def closerBad (u : Text → Text) (c s : Node) : Bool :=
  (nextAbsorbers u).any (fun cfg => cfg.isMatch s && cfg.validNext (some c)) ||
    ((cfgPeriod u).isMatch s && imt u c Gen.group_period_post_sqlcls [] Gen.group_period_post_ttypes)

/-- a WHERE keyword directly inside the list that is not followed by one of the keywords that end a WHERE clause -/
def openWhere (u : Text → Text) : List Node → Bool
  | [] => false
  | x :: rest =>
    (imt u x [] Gen.group_where_token_next_by0_m .none &&
      !(rest.any fun y => imt u y [] Gen.group_where_token_next_by1_m .none)) || openWhere u rest

/-- the children of one bracket/block node of class `c` are `[opener, …, closer]` with harmless neighbours -/
def delimKidsSafe (u : Text → Text) (c : Cls) (ks : List Node) : Bool :=
  match delimTables c with
  | none => true
  | some (mOpen, mClose) =>
    match ks with
    | [] => false
    | o :: rest =>
      match rest.getLast? with
      | none => false
      | some cl =>
        o.matchAny u mOpen && cl.matchAny u mClose &&
        (match firstNonWs rest with
          | some s => !openerBad u o s
          | none => true) &&
        (match lastNonWs rest.dropLast with
          | some s => !closerBad u cl s
          | none => true) &&
        (Gen.groupableInner.contains c || !openWhere u ks)

mutual
def Node.delimSafe (u : Text → Text) : Node → Bool
  | .tok _ _ => true
  | .grp c ks => delimKidsSafe u c ks && delimSafeL u ks
def delimSafeL (u : Text → Text) : List Node → Bool
  | [] => true
  | k :: ks => k.delimSafe u && delimSafeL u ks
end

/-- the flat statement as `Statement` children -/
def flatStatement (st : List Tok) : List Node := st.map fun t => Node.tok t.tt t.val

/-- **the decidable hypothesis** on a flat statement (`fuel` only bounds the nesting depth handled) -/
def DelimSafeWith (u : Text → Text) (fuel : Nat) (st : List Tok) : Bool :=
  st.all (fun t => t.tt != T.Assignment) &&
    match runPasses u fuel .Statement (Gen.passOrder.take 7) (flatStatement st) with
    | .ok m7 => delimSafeL u m7
    | .error _ => false

def DelimSafe (st : List Tok) : Bool := DelimSafeWith kwNorm 200 st

/-! ### the property of the final tree -/
/-- trailing children that `align_comments` may have appended: whitespace leaves and `Comment` groups -/
def isTrailing (x : Node) : Bool := x.isWhitespace || x.isInst .Comment

/-- `[opener, …, closer, (whitespace | Comment group)*]` -/
def delimKidsShape (u : Text → Text) (c : Cls) (ks : List Node) : Bool :=
  match delimTables c with
  | none => true
  | some (mOpen, mClose) =>
    match ks with
    | [] => false
    | o :: rest =>
      o.matchAny u mOpen &&
        match (rest.reverse.dropWhile isTrailing).head? with
        | some cl => cl.matchAny u mClose
        | none => false

mutual
def Node.delimShape (u : Text → Text) : Node → Bool
  | .tok _ _ => true
  | .grp c ks => delimKidsShape u c ks && delimShapeL u ks
def delimShapeL (u : Text → Text) : List Node → Bool
  | [] => true
  | k :: ks => k.delimShape u && delimShapeL u ks
end

end Sql
