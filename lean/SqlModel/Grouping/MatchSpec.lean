import SqlModel.Grouping.Matching
/-!
# SqlModel.Grouping.MatchSpec — the textbook stack matcher that `_group_matching` is supposed to be (property C09)

`specMatch isOpen isClose cls ts` reads `ts` once, keeping a stack of *frames* (innermost first, the last one is
the base frame):
* an opener starts a new frame `[t]`;
* a closer with an open frame pops it and appends `grp cls (frame ++ [t])` to the frame below;
  with only the base frame it is an ordinary element (unmatched closer);
* anything else is appended to the innermost frame;
* at the end the frames are concatenated bottom-up: unmatched openers stay where they were, ungrouped.

`specMatchRec` is the whole of `_group_matching`: first the children of every group that is not an instance of
`cls` (depth-first, groups that are instances are left untouched), then `specMatch` at this level.  It is a
fuel-free structural definition; `groupMatching` with enough fuel equals it (`SqlProofs/MatchSpec.lean`).
-/
namespace Sql

/-- one step of the stack matcher; `st` is the stack of frames, innermost first -/
def specStep (isOpen isClose : Node → Bool) (cls : Cls) (st : List (List Node)) (t : Node) : List (List Node) :=
  if isOpen t then [t] :: st
  else if isClose t then
    match st with
    | fr :: parent :: rest => (parent ++ [Node.grp cls (fr ++ [t])]) :: rest
    | [base] => [base ++ [t]]
    | [] => [[t]]
  else
    match st with
    | top :: rest => (top ++ [t]) :: rest
    | [] => [[t]]

/-- the frames after reading `ts`, starting from the stack `st` -/
def specFrames (isOpen isClose : Node → Bool) (cls : Cls) (st : List (List Node)) (ts : List Node) :
    List (List Node) :=
  ts.foldl (specStep isOpen isClose cls) st

/-- the textbook matcher on one level -/
def specMatch (isOpen isClose : Node → Bool) (cls : Cls) (ts : List Node) : List Node :=
  (specFrames isOpen isClose cls [[]] ts).reverse.flatten

/-- the test under which `_group_matching` pushes a position (the tests of `matchStep`, in source order) -/
def isOpenTok (upper : Text → Text) (cls : Cls) (mOpen : List MPat) (k : Node) : Bool :=
  !k.isWhitespace && !(k.isGroup && !k.isInst cls) && mOpen.any (k.matchP upper)

/-- the test under which `_group_matching` tries to pop a position -/
def isCloseTok (upper : Text → Text) (cls : Cls) (mOpen mClose : List MPat) (k : Node) : Bool :=
  !k.isWhitespace && !(k.isGroup && !k.isInst cls) && !isOpenTok upper cls mOpen k && mClose.any (k.matchP upper)

mutual
/-- `_group_matching` inside one node: groups that are not instances of `cls` get their children matched
(recursively), everything else is left as it is -/
def specRecNode (isOpen isClose : Node → Bool) (cls : Cls) : Node → Node
  | .tok tt v => .tok tt v
  | .grp c ks =>
    if (Node.grp c ks).isInst cls then .grp c ks
    else .grp c (specMatch isOpen isClose cls (specRecList isOpen isClose cls ks))
def specRecList (isOpen isClose : Node → Bool) (cls : Cls) : List Node → List Node
  | [] => []
  | k :: ks => specRecNode isOpen isClose cls k :: specRecList isOpen isClose cls ks
end

/-- the whole of `_group_matching(tlist, cls)`: children first, then this level -/
def specMatchRec (isOpen isClose : Node → Bool) (cls : Cls) (ks : List Node) : List Node :=
  specMatch isOpen isClose cls (specRecList isOpen isClose cls ks)

mutual
/-- nesting depth of groups (a leaf has depth 0) -/
def Node.depth : Node → Nat
  | .tok _ _ => 0
  | .grp _ ks => depthL ks + 1
def depthL : List Node → Nat
  | [] => 0
  | k :: ks => max k.depth (depthL ks)
end

end Sql
