import SqlModel.Grouping.Basic
import SqlModel.Generated.Tables
import SqlModel.Generated.GroupingTables
/-!
# SqlModel.Grouping.AdHoc — the nine passes of grouping.py written as explicit `while token:` loops

Common shape in Python:
```python
tidx, token = tlist.token_next_by(<what>)
while token:
    <body: may call tlist.group_tokens(...) and move tidx back>
    tidx, token = tlist.token_next_by(<what>, idx=tidx)
```
Each loop is a function of (bound, current children, the pending `(tidx, token)` or `none`); `none` ends it.
`len(tokens) − tidx` strictly decreases per iteration, so the bound `loopBound ks` is never exhausted.
All constants come from `Generated/GroupingTables.lean` (`Gen.<pass>_<callee><n>_<arg>`).
The body functions (`…Body`) take the class of the owner because `group_where` needs `_groupable_tokens`.
-/
namespace Sql

/-! ### group_identifier  (`@recurse(sql.Identifier)`) -/
def identifierLoop (upper : Text → Text) : Nat → List Node → Option (Nat × Node) → Except PyErr (List Node)
  | _, ks, none => .ok ks
  | 0, _, some _ => .error .notImplemented
  | n+1, ks, some (tidx, _) =>
    match groupTokens ks Gen.group_identifier_group_tokens0_cls tidx tidx true
        Gen.group_identifier_group_tokens0_extend with
    | .error e => .error e
    | .ok ks' => identifierLoop upper n ks' (tokenNextBy upper ks' [] [] Gen.group_identifier_ttypes (tidx + 1))

def groupIdentifierBody (upper : Text → Text) (_c : Cls) (ks : List Node) : Except PyErr (List Node) :=
  identifierLoop upper (loopBound ks) ks (tokenNextBy upper ks [] [] Gen.group_identifier_ttypes 0)

/-! ### group_over  (`@recurse(sql.Over)`) -/
def overLoop (upper : Text → Text) : Nat → List Node → Option (Nat × Node) → Except PyErr (List Node)
  | _, ks, none => .ok ks
  | 0, _, some _ => .error .notImplemented
  | n+1, ks, some (tidx, _) =>
    let nx := tokenNext ks tidx
    match nx with
    | some (nidx, next) =>
      if imt upper next Gen.group_over_imt0_i [] Gen.group_over_imt0_t then
        match groupTokens ks Gen.group_over_group_tokens0_cls tidx nidx true Gen.group_over_group_tokens0_extend with
        | .error e => .error e
        | .ok ks' => overLoop upper n ks' (tokenNextBy upper ks' [] Gen.group_over_token_next_by1_m .none (tidx + 1))
      else overLoop upper n ks (tokenNextBy upper ks [] Gen.group_over_token_next_by1_m .none (tidx + 1))
    | none => overLoop upper n ks (tokenNextBy upper ks [] Gen.group_over_token_next_by1_m .none (tidx + 1))

def groupOverBody (upper : Text → Text) (_c : Cls) (ks : List Node) : Except PyErr (List Node) :=
  overLoop upper (loopBound ks) ks (tokenNextBy upper ks [] Gen.group_over_token_next_by0_m .none 0)

/-! ### group_comments  (`@recurse(sql.Comment)`)
```python
eidx, end = tlist.token_not_matching(lambda tk: imt(tk, t=T.Comment) or tk.is_newline, idx=tidx)
if end is not None:
    eidx, end = tlist.token_prev(eidx, skip_ws=False)
    tlist.group_tokens(sql.Comment, tidx, eidx)
```
(`token_not_matching` starts at `tidx` itself; a comment run that reaches the end of the list is left alone;
`token_prev` returning `(None, None)` would make `group_tokens` raise `TypeError`.) -/
def commentsLoop (upper : Text → Text) : Nat → List Node → Option (Nat × Node) → Except PyErr (List Node)
  | _, ks, none => .ok ks
  | 0, _, some _ => .error .notImplemented
  | n+1, ks, some (tidx, _) =>
    match tokenMatchingFwd ks (fun tk => !(imt upper tk [] [] Gen.group_comments_imt0_t || tk.isNewline)) tidx with
    | none => commentsLoop upper n ks (tokenNextBy upper ks [] [] Gen.group_comments_token_next_by1_t (tidx + 1))
    | some (eidx, _) =>
      match tokenPrev ks eidx false with
      | none => .error .typeError
      | some (pe, _) =>
        match groupTokens ks Gen.group_comments_group_tokens0_cls tidx pe true
            Gen.group_comments_group_tokens0_extend with
        | .error e => .error e
        | .ok ks' =>
          commentsLoop upper n ks' (tokenNextBy upper ks' [] [] Gen.group_comments_token_next_by1_t (tidx + 1))

def groupCommentsBody (upper : Text → Text) (_c : Cls) (ks : List Node) : Except PyErr (List Node) :=
  commentsLoop upper (loopBound ks) ks (tokenNextBy upper ks [] [] Gen.group_comments_token_next_by0_t 0)

/-! ### group_where  (`@recurse(sql.Where)`)
```python
eidx, end = tlist.token_next_by(m=sql.Where.M_CLOSE, idx=tidx)
if end is None: end = tlist._groupable_tokens[-1]
else:           end = tlist.tokens[eidx - 1]
eidx = tlist.token_index(end)
tlist.group_tokens(sql.Where, tidx, eidx)
```
`token_index` is `list.index` on objects without `__eq__`, i.e. the position of that very object. -/

/-- index in `tokens` of `_groupable_tokens[-1]` (`IndexError` when `_groupable_tokens` is empty) -/
def groupableLastIdx (c : Cls) (ks : List Node) : Except PyErr Nat :=
  if Gen.groupableInner.contains c then
    -- `tokens[1:-1]`: non-empty iff `len ≥ 3`; its last element is `tokens[len − 2]`
    if ks.length ≥ 3 then .ok (ks.length - 2) else .error .indexError
  else
    if ks.length ≥ 1 then .ok (ks.length - 1) else .error .indexError

def whereEnd (upper : Text → Text) (c : Cls) (ks : List Node) (tidx : Nat) : Except PyErr Nat :=
  match tokenNextBy upper ks [] Gen.group_where_token_next_by1_m .none (tidx + 1) with
  | none => groupableLastIdx c ks
  | some (eidx, _) =>
    -- `tokens[eidx − 1]` (`eidx = 0` would be `tokens[-1]`)
    if eidx ≥ 1 then .ok (eidx - 1)
    else if ks.length ≥ 1 then .ok (ks.length - 1) else .error .indexError

def whereLoop (upper : Text → Text) (c : Cls) : Nat → List Node → Option (Nat × Node) → Except PyErr (List Node)
  | _, ks, none => .ok ks
  | 0, _, some _ => .error .notImplemented
  | n+1, ks, some (tidx, _) =>
    match whereEnd upper c ks tidx with
    | .error e => .error e
    | .ok eidx =>
      match groupTokens ks Gen.group_where_group_tokens0_cls tidx eidx true Gen.group_where_group_tokens0_extend with
      | .error e => .error e
      | .ok ks' => whereLoop upper c n ks' (tokenNextBy upper ks' [] Gen.group_where_token_next_by2_m .none (tidx + 1))

def groupWhereBody (upper : Text → Text) (c : Cls) (ks : List Node) : Except PyErr (List Node) :=
  whereLoop upper c (loopBound ks) ks (tokenNextBy upper ks [] Gen.group_where_token_next_by0_m .none 0)

/-! ### group_aliased  (`@recurse()`) -/
def aliasedLoop (upper : Text → Text) : Nat → List Node → Option (Nat × Node) → Except PyErr (List Node)
  | _, ks, none => .ok ks
  | 0, _, some _ => .error .notImplemented
  | n+1, ks, some (tidx, _) =>
    match tokenNext ks tidx with
    | some (nidx, next) =>
      if next.isInstAny Gen.group_aliased_isinstance0 then
        match groupTokens ks Gen.group_aliased_group_tokens0_cls tidx nidx true
            Gen.group_aliased_group_tokens0_extend with
        | .error e => .error e
        | .ok ks' => aliasedLoop upper n ks'
            (tokenNextBy upper ks' Gen.group_aliased_I_ALIAS [] Gen.group_aliased_token_next_by1_t (tidx + 1))
      else aliasedLoop upper n ks
            (tokenNextBy upper ks Gen.group_aliased_I_ALIAS [] Gen.group_aliased_token_next_by1_t (tidx + 1))
    | none => aliasedLoop upper n ks
            (tokenNextBy upper ks Gen.group_aliased_I_ALIAS [] Gen.group_aliased_token_next_by1_t (tidx + 1))

def groupAliasedBody (upper : Text → Text) (_c : Cls) (ks : List Node) : Except PyErr (List Node) :=
  aliasedLoop upper (loopBound ks) ks
    (tokenNextBy upper ks Gen.group_aliased_I_ALIAS [] Gen.group_aliased_token_next_by0_t 0)

/-! ### group_functions  (`@recurse(sql.Function)`)
```python
for tmp_token in tlist.tokens:
    if tmp_token.value.upper() == 'CREATE': has_create = True
    if tmp_token.value.upper() == 'TABLE':  has_table = True
    if tmp_token.value == 'AS':             has_as = True
if has_create and has_table and not has_as: return
```
`.value` of a group is its text. -/
def functionsSkip (upper : Text → Text) (ks : List Node) : Bool :=
  ks.any (fun k => upper k.value == txt "CREATE") && ks.any (fun k => upper k.value == txt "TABLE")
    && !(ks.any (fun k => upper k.value == txt "AS"))

def functionsLoop (upper : Text → Text) : Nat → List Node → Option (Nat × Node) → Except PyErr (List Node)
  | _, ks, none => .ok ks
  | 0, _, some _ => .error .notImplemented
  | n+1, ks, some (tidx, _) =>
    match tokenNext ks tidx with
    | some (nidx, next) =>
      if next.isInstAny Gen.group_functions_isinstance0 then
        -- `over_idx, over = tlist.token_next(nidx)`; `eidx = over_idx if over and isinstance(over, sql.Over) else nidx`
        let eidx := match tokenNext ks nidx with
          | some (oidx, over) => if over.isInstAny Gen.group_functions_isinstance1 then oidx else nidx
          | none => nidx
        match groupTokens ks Gen.group_functions_group_tokens0_cls tidx eidx true
            Gen.group_functions_group_tokens0_extend with
        | .error e => .error e
        | .ok ks' => functionsLoop upper n ks'
            (tokenNextBy upper ks' [] [] Gen.group_functions_token_next_by1_t (tidx + 1))
      else functionsLoop upper n ks (tokenNextBy upper ks [] [] Gen.group_functions_token_next_by1_t (tidx + 1))
    | none => functionsLoop upper n ks (tokenNextBy upper ks [] [] Gen.group_functions_token_next_by1_t (tidx + 1))

def groupFunctionsBody (upper : Text → Text) (_c : Cls) (ks : List Node) : Except PyErr (List Node) :=
  if functionsSkip upper ks then .ok ks
  else functionsLoop upper (loopBound ks) ks (tokenNextBy upper ks [] [] Gen.group_functions_token_next_by0_t 0)

/-! ### group_order  (`@recurse(sql.Identifier)`)
```python
pidx, prev_ = tlist.token_prev(tidx)
if imt(prev_, i=sql.Identifier, t=T.Number):
    tlist.group_tokens(sql.Identifier, pidx, tidx)
    tidx = pidx
``` -/
def orderLoop (upper : Text → Text) : Nat → List Node → Option (Nat × Node) → Except PyErr (List Node)
  | _, ks, none => .ok ks
  | 0, _, some _ => .error .notImplemented
  | n+1, ks, some (tidx, _) =>
    match tokenPrev ks tidx with
    | some (pidx, prev) =>
      if imt upper prev Gen.group_order_imt0_i [] Gen.group_order_imt0_t then
        match groupTokens ks Gen.group_order_group_tokens0_cls pidx tidx true Gen.group_order_group_tokens0_extend with
        | .error e => .error e
        | .ok ks' => orderLoop upper n ks' (tokenNextBy upper ks' [] [] Gen.group_order_token_next_by1_t (pidx + 1))
      else orderLoop upper n ks (tokenNextBy upper ks [] [] Gen.group_order_token_next_by1_t (tidx + 1))
    | none => orderLoop upper n ks (tokenNextBy upper ks [] [] Gen.group_order_token_next_by1_t (tidx + 1))

def groupOrderBody (upper : Text → Text) (_c : Cls) (ks : List Node) : Except PyErr (List Node) :=
  orderLoop upper (loopBound ks) ks (tokenNextBy upper ks [] [] Gen.group_order_token_next_by0_t 0)

/-! ### align_comments  (`@recurse()`)
`isinstance(prev_, sql.TokenList)` holds for every group; `group_tokens(sql.TokenList, pidx, tidx, extend=True)`
therefore always takes the extend branch: the comment is appended to the preceding group. -/
def alignLoop (upper : Text → Text) : Nat → List Node → Option (Nat × Node) → Except PyErr (List Node)
  | _, ks, none => .ok ks
  | 0, _, some _ => .error .notImplemented
  | n+1, ks, some (tidx, _) =>
    match tokenPrev ks tidx with
    | some (pidx, prev) =>
      if prev.isInstAny Gen.align_comments_isinstance0 then
        match groupTokens ks Gen.align_comments_group_tokens0_cls pidx tidx true
            Gen.align_comments_group_tokens0_extend with
        | .error e => .error e
        | .ok ks' => alignLoop upper n ks'
            (tokenNextBy upper ks' Gen.align_comments_token_next_by1_i [] .none (pidx + 1))
      else alignLoop upper n ks (tokenNextBy upper ks Gen.align_comments_token_next_by1_i [] .none (tidx + 1))
    | none => alignLoop upper n ks (tokenNextBy upper ks Gen.align_comments_token_next_by1_i [] .none (tidx + 1))

def alignCommentsBody (upper : Text → Text) (_c : Cls) (ks : List Node) : Except PyErr (List Node) :=
  alignLoop upper (loopBound ks) ks (tokenNextBy upper ks Gen.align_comments_token_next_by0_i [] .none 0)

/-! ### group_values  (not decorated: top level only)
```python
tidx, token = tlist.token_next_by(m=(T.Keyword, 'VALUES'))
start_idx = tidx; end_idx = -1
while token:
    if isinstance(token, sql.Parenthesis): end_idx = tidx
    tidx, token = tlist.token_next(tidx)
if end_idx != -1: tlist.group_tokens(sql.Values, start_idx, end_idx, extend=True)
``` -/
def valuesLoop : Nat → List Node → Option (Nat × Node) → Option Nat → Except PyErr (Option Nat)
  | _, _, none, e => .ok e
  | 0, _, some _, _ => .error .notImplemented
  | n+1, ks, some (tidx, token), e =>
    valuesLoop n ks (tokenNext ks tidx) (if token.isInstAny Gen.group_values_isinstance0 then some tidx else e)

def groupValuesBody (upper : Text → Text) (_c : Cls) (ks : List Node) : Except PyErr (List Node) :=
  match tokenNextBy upper ks [] Gen.group_values_token_next_by0_m .none 0 with
  | none => .ok ks
  | some (startIdx, token) =>
    match valuesLoop (loopBound ks) ks (some (startIdx, token)) none with
    | .error e => .error e
    | .ok none => .ok ks
    | .ok (some endIdx) =>
      groupTokens ks Gen.group_values_group_tokens0_cls startIdx endIdx true Gen.group_values_group_tokens0_extend

end Sql
