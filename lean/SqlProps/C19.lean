import SqlModel.Control
import SqlModel.Generated.ControlCodec
/-!
# C19 — all input forms and front ends give the same result

The pipeline is a function of the *normalised text*; `normaliseInput` models the head of `Lexer.get_tokens` with the codecs as parameters
(their round-trip law `decode enc (encode enc s) = s` is an assumption about CPython, sampled by stream S-NORM).  So equal normalised text
⇒ equal results for parse/parsestream/split/format.  `parse = tuple(parsestream)` and the CLI → `format()` relation are shape facts /
real-code relations checked by the harness (S-CLI).
-/
namespace Sql.C19

/-- bytes with the matching `encoding` argument are the same input as the decoded str -/
theorem bytes_with_encoding (decode : Decoder) (pr fb : String) (b : List Nat) (enc : String) (s : Text)
    (hne : enc.isEmpty = false) (h : decode enc b = .ok s) :
    normaliseInput decode pr fb (.bytes b) (some enc) = normaliseInput decode pr fb (.str s) none := by
  simp [normaliseInput, Option.filter, hne, h]

/-- table obligation: bytes without an encoding are first read as plain UTF-8 (not a variant that drops a signature or tolerates errors) -/
theorem primary_is_utf8 : Gen.primaryCodec = "utf-8" := by decide

/-- UTF-8 bytes without an encoding argument are the same input as the decoded str -/
theorem utf8_bytes (decode : Decoder) (fb : String) (b : List Nat) (s : Text) (h : decode "utf-8" b = .ok s) :
    normaliseInput decode Gen.primaryCodec fb (.bytes b) none = normaliseInput decode Gen.primaryCodec fb (.str s) none := by
  rw [primary_is_utf8]
  simp [normaliseInput, Option.filter, h]

/-- a text stream is the same input as its contents -/
theorem stream_is_its_text (decode : Decoder) (pr fb : String) (s : Text) (enc : Option String) :
    normaliseInput decode pr fb (.stream s) enc = normaliseInput decode pr fb (.str s) none := rfl

/-- table obligation: the codec applied to bytes that are not valid UTF-8 is Latin-1, as documented -/
theorem fallback_is_latin1 : Gen.fallbackCodec = "latin-1" := by decide

/-- **non-UTF-8 bytes without an encoding are read as Latin-1** -/
theorem latin1_fallback (decode : Decoder) (b : List Nat) (h : decode "utf-8" b = .error .unicodeDecodeError) :
    normaliseInput decode Gen.primaryCodec Gen.fallbackCodec (.bytes b) none = decode "latin-1" b := by
  rw [fallback_is_latin1, primary_is_utf8]
  simp [normaliseInput, Option.filter, h]

/-- the hypothesis is not decorative (defect repaired by a `fix:` commit, KF-C19-F1): with `unicode-escape` as fallback the text depends on
backslashes in the bytes — a decoder that maps `\n` (two bytes) to a line break gives a different text than Latin-1 -/
theorem unicode_escape_counterexample :
    let decode : Decoder := fun name b =>
      if name == "utf-8" then .error .unicodeDecodeError
      else if name == "unicode-escape" then .ok (if b == [233, 92, 110] then [233, 10] else b)
      else .ok b
    (normaliseInput decode "utf-8" "unicode-escape" (.bytes [233, 92, 110]) none).toOption ≠
      (normaliseInput decode "utf-8" "latin-1" (.bytes [233, 92, 110]) none).toOption := by decide

end Sql.C19
