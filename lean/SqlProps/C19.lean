import SqlModel.Control
import SqlModel.Generated.ControlCodec
import SqlProps.C01
/-!
# C19 — all input forms and front ends give the same result

The pipeline is a function of the *normalised text*; `normaliseInput` models the head of `Lexer.get_tokens` with the codecs as parameters
(their round-trip law `decode enc (encode enc s) = s` is an assumption about CPython, sampled by stream S-NORM).  So equal normalised text
⇒ equal results for parse/parsestream/split/format.  `parse = tuple(parsestream)` and the CLI → `format()` relation are shape facts /
real-code relations checked by the harness (S-CLI).
-/
namespace Sql.C19

/-- bytes with the matching `encoding` argument are the same input as the decoded str -/
theorem bytes_with_encoding (decode : Decoder) (pr fb : String) (b : List Nat) (enc : String) (s : Text)
    (hne : enc.isEmpty = false) (h : decode enc b = .ok s) :
    normaliseInput decode pr fb (.bytes b) (some enc) = normaliseInput decode pr fb (.str s) none := by
  simp [normaliseInput, Option.filter, hne, h]

/-- table obligation: bytes without an encoding are first read as plain UTF-8 (not a variant that drops a signature or tolerates errors) -/
theorem primary_is_utf8 : Gen.primaryCodec = "utf-8" := by decide

/-- UTF-8 bytes without an encoding argument are the same input as the decoded str -/
theorem utf8_bytes (decode : Decoder) (fb : String) (b : List Nat) (s : Text) (h : decode "utf-8" b = .ok s) :
    normaliseInput decode Gen.primaryCodec fb (.bytes b) none = normaliseInput decode Gen.primaryCodec fb (.str s) none := by
  rw [primary_is_utf8]
  simp [normaliseInput, Option.filter, h]

/-- a text stream is the same input as its contents -/
theorem stream_is_its_text (decode : Decoder) (pr fb : String) (s : Text) (enc : Option String) :
    normaliseInput decode pr fb (.stream s) enc = normaliseInput decode pr fb (.str s) none := rfl

/-- table obligation: the codec applied to bytes that are not valid UTF-8 is Latin-1, as documented -/
theorem fallback_is_latin1 : Gen.fallbackCodec = "latin-1" := by decide

/-- **non-UTF-8 bytes without an encoding are read as Latin-1** -/
theorem latin1_fallback (decode : Decoder) (b : List Nat) (h : decode "utf-8" b = .error .unicodeDecodeError) :
    normaliseInput decode Gen.primaryCodec Gen.fallbackCodec (.bytes b) none = decode "latin-1" b := by
  rw [fallback_is_latin1, primary_is_utf8]
  simp [normaliseInput, Option.filter, h]

/-- the hypothesis is not decorative (defect repaired by a `fix:` commit, KF-C19-F1): with `unicode-escape` as fallback the text depends on
backslashes in the bytes — a decoder that maps `\n` (two bytes) to a line break gives a different text than Latin-1 -/
theorem unicode_escape_counterexample :
    let decode : Decoder := fun name b =>
      if name == "utf-8" then .error .unicodeDecodeError
      else if name == "unicode-escape" then .ok (if b == [233, 92, 110] then [233, 10] else b)
      else .ok b
    (normaliseInput decode "utf-8" "unicode-escape" (.bytes [233, 92, 110]) none).toOption ≠
      (normaliseInput decode "utf-8" "latin-1" (.bytes [233, 92, 110]) none).toOption := by decide

/-! ## byte-order mark

The decoding itself is a parameter of the model (`Decoder`).  What the model fixes is *which* codec is asked: `primary_is_utf8` pins plain
`utf-8` — whose CPython implementation decodes the signature bytes `EF BB BF` to U+FEFF and keeps it, unlike `utf-8-sig` — so the
assumption about CPython needed below is exactly `decode "utf-8" (EF BB BF ++ b) = ok (U+FEFF :: t)` (sampled by stream S-NORM). -/

/-- UTF-8 bytes that start with the signature `EF BB BF`, passed without an encoding, normalise to a text whose first code point is U+FEFF:
the head of `get_tokens` does not strip it -/
theorem bom_kept_by_normalise (decode : Decoder) (fb : String) (b : List Nat) (t : Text)
    (h : decode "utf-8" (0xEF :: 0xBB :: 0xBF :: b) = .ok (0xFEFF :: t)) :
    normaliseInput decode Gen.primaryCodec fb (.bytes (0xEF :: 0xBB :: 0xBF :: b)) none = .ok (0xFEFF :: t) := by
  rw [primary_is_utf8]
  simp [normaliseInput, Option.filter, h]

/-- a str (or stream) that starts with U+FEFF is passed on unchanged -/
theorem bom_kept_str (decode : Decoder) (pr fb : String) (t : Text) (enc : Option String) :
    normaliseInput decode pr fb (.str (0xFEFF :: t)) enc = .ok (0xFEFF :: t) ∧
    normaliseInput decode pr fb (.stream (0xFEFF :: t)) enc = .ok (0xFEFF :: t) := ⟨rfl, rfl⟩

/-- **the U+FEFF reaches the tokens**: bytes `EF BB BF …` without an encoding are tokenized to tokens whose values spell U+FEFF followed by
the rest of the decoded text — nothing dropped, nothing added (glue of `bom_kept_by_normalise` and `C01.lex_keeps_bom`) -/
theorem bom_survives_to_tokens (decode : Decoder) (fb : String) (b : List Nat) (t : Text)
    (h : decode "utf-8" (0xEF :: 0xBB :: 0xBF :: b) = .ok (0xFEFF :: t)) :
    ∃ text ts, normaliseInput decode Gen.primaryCodec fb (.bytes (0xEF :: 0xBB :: 0xBF :: b)) none = .ok text ∧
      lex defaultCfg text.toArray = .ok ts ∧ (ts.map (·.val)).flatten = 0xFEFF :: t := by
  obtain ⟨ts, h1, h2⟩ := C01.lex_keeps_bom t
  exact ⟨0xFEFF :: t, ts, bom_kept_by_normalise decode fb b t h, h1, h2⟩

end Sql.C19
