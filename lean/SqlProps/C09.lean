import SqlProofs.DelimSafe
import SqlProofs.GroupLeavesStrict
import SqlProofs.AlignComments
import SqlModel.Grouping.MatchSpec
import SqlModel.Sexp
import SqlProofs.MatchSpec
import SqlProofs.Group.SpecShape
import SqlProofs.GroupNonEmpty
import SqlProofs.GroupLeaves
import SqlProofs.BracketsKept
import SqlProofs.DelimChild.KwNorm
/-!
# C09 — bracketed and block groups are exactly the properly matched pairs

`specMatch` (SqlModel/Grouping/MatchSpec.lean) is the textbook matcher: a fold over a stack of frames — an opener pushes a frame, a closer with
an open frame pops it into one group `cls (frame ++ [closer])` appended to its parent, an unmatched closer or any other token is appended to the
top frame, and the frames still open at the end are concatenated in place (unmatched openers stay ungrouped).  `specMatchRec` applies it inside
every group of another class first (later kinds are matched inside, never across, groups of earlier kinds).
Theorems: the real loop of `_group_matching` (snapshot iteration, `tidx = idx − offset` index arithmetic, `group_tokens` slicing) computes exactly
that, for every class, pattern and token list, balanced or not, and never raises; plus the shape of what the matcher builds.
End to end (later passes keep these groups; only trailing comments are appended) is checked by the oracle against an independent matcher.
-/
namespace Sql.C09

/-- **refinement**: the loop of `_group_matching` = the textbook stack matcher -/
theorem matching_loop_is_stack_matcher : type_of% @matchLoop_eq_spec := @matchLoop_eq_spec
/-- the loop never raises (every `group_tokens` call it makes is in range) -/
theorem matching_loop_total : type_of% @matchLoop_total := @matchLoop_total
/-- with the recursion into groups of other classes: equal to the structural recursive matcher; the only failure is running out of recursion depth -/
theorem group_matching_is_recursive_matcher : type_of% @groupMatching_eq_spec := @groupMatching_eq_spec
theorem group_matching_total : type_of% @groupMatching_total := @groupMatching_total
/-- every node the matcher creates has ≥ 2 children, starts with its opening token and ends with its closing token; openers/closers are leaf tokens
matching `M_OPEN`/`M_CLOSE` -/
theorem created_groups_shape : type_of% @matchLoop_shape := @matchLoop_shape
theorem shape_of_new_group : type_of% @Shape.new_spec := @Shape.new_spec
theorem opener_is_mopen_leaf : type_of% @isOpenTok_leaf := @isOpenTok_leaf
theorem closer_is_mclose_leaf : type_of% @isCloseTok_leaf := @isCloseTok_leaf
/-- nothing is lost or reordered, balanced or not -/
theorem matcher_keeps_leaves : type_of% @specMatch_leaves := @specMatch_leaves
/-- after all 25 passes no group is empty -/
theorem bracket_groups_nonempty : type_of% @group_nonempty := @group_nonempty

/-- non-vacuity: `( a ) )` `(` — one matched pair, one unmatched closer, one unmatched opener -/
example :
    let o := Node.tok T.Punctuation [40]
    let c := Node.tok T.Punctuation [41]
    let a := Node.tok T.Name [97]
    let isO : Node → Bool := fun k => match k with | .tok _ [40] => true | _ => false
    let isC : Node → Bool := fun k => match k with | .tok _ [41] => true | _ => false
    (specMatch isO isC .Parenthesis [o, a, c, c, o]).map Node.sexp
      = [Node.grp .Parenthesis [o, a, c], c, o].map Node.sexp := by decide

/-- **end to end**: the 19 passes after the six matching passes neither create nor dissolve a Parenthesis/SquareBrackets/Case/If/For/Begin group nor change its leaves (up to Operator re-typing);
only `align_comments` may append leaves taken from the siblings that immediately follow the group -/
theorem later_passes_keep_brackets : type_of% @later_pass_brackets := @later_pass_brackets
theorem brackets_kept_through_group : type_of% @group_brackets_kept := @group_brackets_kept

/-- **what `align_comments` appends**: each step extends one group by the following whitespace leaves and exactly one Comment group -/
theorem align_comments_appends_ws_then_comment : type_of% @Sql.alignPass_rwA := @Sql.alignPass_rwA
/-- `group_comments` builds Comment groups that contain only comment/whitespace leaves (`clL`) -/
theorem comment_groups_hold_only_comments : type_of% @Sql.groupComments_cl := @Sql.groupComments_cl
/-- hence `align_comments` keeps every bracket/block group's class, order and leaves, adding only comment/whitespace leaves after it -/
theorem align_comments_keeps_brackets : type_of% @Sql.align_pass_brackets := @Sql.align_pass_brackets
/-- end to end (decomposition at `group_begin` / `align_comments`): the six classes are kept by every later pass; across `align_comments`
they may only gain trailing comments — under `clL` of its input (kept by `group_comments`; for passes 2–22 checked by the oracle) -/
theorem brackets_end_with_closer_modulo_comments : type_of% @Sql.groupWith_brackets_comments := @Sql.groupWith_brackets_comments

/-- **end to end, no side condition**: for every flat statement the bracket/block groups of the final tree are those of the tree after
the six matching passes — same classes in the same order, same leaves (up to `Wildcard → Operator`), followed only by comment/whitespace
leaves (what `align_comments` attaches) -/
theorem brackets_final_total : type_of% @Sql.brackets_end_with_closer_modulo_comments_total := @Sql.brackets_end_with_closer_modulo_comments_total
/-- under the decidable `DelimSafe` the leaf sequence of every bracket/block node is `opener :: … ++ closer :: comments` -/
theorem delimiters_kept_leafwise : type_of% @Sql.delims_kept_leafwise := @Sql.delims_kept_leafwise
/-- **the delimiters are kept, child-wise** (SqlProofs/DelimChild, 21 files: one invariant `ListInv` carried through all 22 passes after the
matching passes): for every flat statement satisfying the decidable `DelimSafe`, every Parenthesis / SquareBrackets / Case / If / For / Begin
node of the final tree has its opening token as FIRST CHILD and its closing token as the last child before trailing whitespace / Comment
groups — no later pass wraps, moves or re-types a delimiter.  (`DelimSafe` is evaluated by the driver command `delimsafe` on every generated
statement; the statements it rejects are the absorbing neighbourhoods `(::int)`, `(x as)`, `case x , end`, … of KF-C07-1 and KF-C07-2.) -/
theorem delimiters_kept_childwise : type_of% @Sql.delims_kept_childwise := @Sql.delims_kept_childwise
/-- the same for any keyword normalisation that separates the block keywords (`DelimU`), at any recursion depth -/
theorem delimiters_kept_childwise_generic : type_of% @Sql.DC.groupWith_delims_childwise := @Sql.DC.groupWith_delims_childwise

end Sql.C09
