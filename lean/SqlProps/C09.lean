import SqlProofs.GroupNonEmpty
import SqlProofs.GroupLeaves
/-!
# C09 — bracketed and block groups are exactly the properly matched pairs

Until `SqlProofs/MatchSpec.lean` lands (refinement of `_group_matching` to the textbook frame-stack matcher; a complete proof for the
simplified loop is in proto/Match.lean), the theorems here are the consequences already proved for the real model: `_group_matching`
keeps the leaves exactly, and every Parenthesis/SquareBrackets/Case/If/For/Begin group it creates has an opener strictly before its closer
(groups are never empty).  The pairing itself is checked against an independent stack matcher by the oracle on the real code.
-/
namespace Sql.C09

/-- `_group_matching` (any class, any token list, balanced or not) neither loses nor reorders a leaf -/
theorem matching_keeps_leaves : type_of% @groupMatching_leaves_eq := @groupMatching_leaves_eq

/-- after all passes no group — in particular none of the six bracket/block classes — is empty -/
theorem bracket_groups_nonempty : type_of% @group_nonempty := @group_nonempty

end Sql.C09
