import SqlProofs.FilterSpec
import SqlProofs.FormatSpec
import SqlProofs.IndentSpec
import SqlProofs.WsRespell.Gap
/-!
# C06 — layout formatting never changes the significant tokens of the SQL

Proved over the model of the stage-2 layout filters (on every tree on which the filter does not raise): `StripWhitespaceFilter` and
`SpacesAroundOperatorsFilter` leave the sequence of non-whitespace leaves (type and value) unchanged — literals, quoted names and comments
included, byte for byte.  `ReindentFilter` and `AlignedIndentFilter` are modelled literally (offset arithmetic included, `SqlModel/Filters/Reindent.lean`,
`Aligned.lean`) and tied by streams S-TREES/S-FMT (0 mismatches on ≈ 75 000 cases each), but their preservation theorems are **not** proved: for
those options, and for the lexical bridge (the output re-lexes to the same tokens, same statement count), the check relies on the oracle.
-/
namespace Sql.C06

/-- `strip_whitespace` keeps every non-whitespace leaf, in order, unchanged -/
theorem strip_whitespace_preserves_significant : type_of% @stripWhitespace_preserves_sig := @stripWhitespace_preserves_sig
/-- `use_space_around_operators` keeps every non-whitespace leaf, in order, unchanged -/
theorem spaces_around_operators_preserves_significant : type_of% @spaces_preserves_sig := @spaces_preserves_sig
/-- the serializer only rewrites line ends: every output line has no trailing `isspace` character -/
theorem serializer_lines_rstripped : type_of% @serializer_no_trailing_blank := @serializer_no_trailing_blank
/-- `format` (full pipeline model) never lets RecursionError or StopIteration out, and rejects invalid options before touching the input -/
theorem format_error_kinds : type_of% @Sql.format_error_kinds := @Sql.format_error_kinds
theorem format_validates_first : type_of% @Sql.format_validates_first := @Sql.format_validates_first

/-- **reindent only touches whitespace**: for every option set (char, width, indent_after_first, indent_columns, wrap_after, comma_first, compact), every filter state and
every tree on which `ReindentFilter` does not raise, the sequence of non-whitespace leaves (type and value) is unchanged -/
theorem reindent_preserves_significant : type_of% @reindent_preserves_sig := @reindent_preserves_sig
/-- **reindent_aligned only touches whitespace** -/
theorem aligned_preserves_significant : type_of% @aligned_preserves_sig := @aligned_preserves_sig
/-- for a filter plan made of layout filters only (spaces, strip_whitespace, reindent, aligned) the tree handed to the serializer has the significant leaves of the grouped tree, statement by statement -/
theorem layout_stack_preserves_significant : type_of% @runStmtObjs_layout_sig := @runStmtObjs_layout_sig
theorem layout_plan_is_layout_stack : type_of% @layout_plan_objs := @layout_plan_objs

/-! ## lexical bridge (partial)

At tree level the four layout filters keep the significant leaves (above).  That the serialized output RE-LEXES to the same significant tokens
needs lexical stability under adding/removing whitespace between two tokens.  Proved: for ONE boundary certified by the decidable `gapFree`
(driver command `gapcert`; both variants — no whitespace / one blank at that boundary — lex to the same significant tokens and are
`wsRespellableAny`), every text that spells either variant with arbitrary non-empty whitespace for all runs lexes to the same significant tokens.
NOT proved: several changed boundaries at once (`Sql.GapConjecture : Prop` in SqlProofs/WsRespell/Gap.lean is a definition, not a theorem;
validated on the real lexer: 28 476 changed certified boundaries, 0 violations; the three open C06 findings all sit on UNcertified boundaries).
End to end the bridge is checked by the oracle (re-lexing the real output) and S-FMT. -/
theorem one_boundary_whitespace_change_relexes_partial : type_of% @Sql.gap_boundary_respell := @Sql.gap_boundary_respell
theorem certified_boundary_variants_lex : type_of% @Sql.gap_variants_lex := @Sql.gap_variants_lex

end Sql.C06
