import SqlProofs.FilterSpec
import SqlProofs.StripCommentsSpec
/-!
# C08 — targeted filters change exactly their target tokens and nothing else

Token filters are maps over the token stream: exactly the targeted tokens change, all others are identical and in order; idempotence of the map
follows from idempotence of the case conversion (an assumption about `str.upper/lower/capitalize`, validated on every code point by stream S-CASE).
`strip_comments`: on trees whose Comment groups contain only comment/whitespace leaves (what grouping builds) every leaf that is neither a comment
nor whitespace survives in order and unchanged.  End-to-end claims (no fusing of neighbours, idempotence of `format`) need the lexical bridge and are
checked by the oracle; known findings: KF-C08-1 (`select x/*c*/as y` → `select xas y`), KF-C08-2 (cross-statement idempotence), KF-C08-3 (output_format
loses filter effects inside groups).
-/
namespace Sql.C08

theorem keyword_case_is_map_on_keywords : type_of% @kwcase_spec := @kwcase_spec
theorem keyword_case_keeps_types : type_of% @kwcase_types := @kwcase_types
theorem keyword_case_leaves_others : type_of% @kwcase_untouched := @kwcase_untouched
theorem keyword_case_idempotent : type_of% @kwcase_idem := @kwcase_idem
theorem identifier_case_is_map_on_unquoted_names : type_of% @idcase_spec := @idcase_spec
theorem identifier_case_leaves_others : type_of% @idcase_untouched := @idcase_untouched
theorem identifier_case_idempotent : type_of% @idcase_map_idem := @idcase_map_idem
theorem truncate_is_map_on_single_quoted : type_of% @truncate_spec := @truncate_spec
theorem truncate_leaves_others : type_of% @truncate_untouched := @truncate_untouched
theorem truncate_idempotent : type_of% @truncate_idem := @truncate_idem
/-- `strip_comments` removes only comment leaves and inserts only whitespace leaves -/
theorem strip_comments_keeps_everything_else : type_of% @stripComments_preserves_noncomment := @stripComments_preserves_noncomment

/-- after `strip_comments` every comment-typed leaf left in the tree is a hint — on trees whose Comment groups are flat and whose lists have no two adjacent non-hint
comment siblings (`noNhPairs`; the exception is known finding KF-C08-6: a comment pair at the start of a list or after `(`) -/
theorem strip_comments_only_hints_remain : type_of% @stripComments_only_hints_remain := @stripComments_only_hints_remain
theorem strip_comments_level_survivors : type_of% @stripCommentsLevel_survivors := @stripCommentsLevel_survivors

end Sql.C08
