import SqlProofs.FilterSpec
import SqlProofs.StripCommentsSpec
import SqlProofs.CaseRelex
/-!
# C08 — targeted filters change exactly their target tokens and nothing else

Token filters are maps over the token stream: exactly the targeted tokens change, all others are identical and in order; idempotence of the map
follows from idempotence of the case conversion (an assumption about `str.upper/lower/capitalize`, validated on every code point by stream S-CASE).
`strip_comments`: on trees whose Comment groups contain only comment/whitespace leaves (what grouping builds) every leaf that is neither a comment
nor whitespace survives in order and unchanged.  The lexical bridge for the two case filters is proved below (`keyword_case_output_relexes`, `identifier_case_output_relexes`,
text-level idempotence); for the other filters end-to-end claims are checked by the oracle; known findings: KF-C08-1 (`select x/*c*/as y` → `select xas y`), KF-C08-2 (cross-statement idempotence), KF-C08-3 (output_format
loses filter effects inside groups).
-/
namespace Sql.C08

theorem keyword_case_is_map_on_keywords : type_of% @kwcase_spec := @kwcase_spec
theorem keyword_case_keeps_types : type_of% @kwcase_types := @kwcase_types
theorem keyword_case_leaves_others : type_of% @kwcase_untouched := @kwcase_untouched
theorem keyword_case_idempotent : type_of% @kwcase_idem := @kwcase_idem
theorem identifier_case_is_map_on_unquoted_names : type_of% @idcase_spec := @idcase_spec
theorem identifier_case_leaves_others : type_of% @idcase_untouched := @idcase_untouched
theorem identifier_case_idempotent : type_of% @idcase_map_idem := @idcase_map_idem
theorem truncate_is_map_on_single_quoted : type_of% @truncate_spec := @truncate_spec
theorem truncate_leaves_others : type_of% @truncate_untouched := @truncate_untouched
theorem truncate_idempotent : type_of% @truncate_idem := @truncate_idem
/-- `strip_comments` removes only comment leaves and inserts only whitespace leaves -/
theorem strip_comments_keeps_everything_else : type_of% @stripComments_preserves_noncomment := @stripComments_preserves_noncomment

/-- after `strip_comments` every comment-typed leaf left in the tree is a hint — on trees whose Comment groups are flat and whose lists have no two adjacent non-hint
comment siblings (`noNhPairs`; the exception is known finding KF-C08-6: a comment pair at the start of a list or after `(`) -/
theorem strip_comments_only_hints_remain : type_of% @stripComments_only_hints_remain := @stripComments_only_hints_remain
theorem strip_comments_level_survivors : type_of% @stripCommentsLevel_survivors := @stripCommentsLevel_survivors


/-! ## the lexical bridge for the case filters: the output text lexes to exactly the filtered tokens

`asciiFold` = ASCII upper-casing of a code point (SqlProofs/LexWords.lean); two values with equal `map asciiFold` differ only in the case
of ASCII letters (and have the same length).  `lex_ascii_case_invariant` (SqlProofs/LexCase.lean): re-casing ASCII letters anywhere in a
text — inside strings, comments, names, keywords — changes no token boundary and no token type, because every class of the generated rule
table is closed under ASCII case, back-references compare through `_sre.unicode_tolower`, and `is_keyword` upper-cases its argument.

NOT covered (hypothesis `hcase` false): values containing non-ASCII letters whose `str.upper/lower/capitalize` is not a one-to-one
re-casing inside the same classes — `ß`→`SS`, `ŉ`→`ʼN`, `ﬁ`→`FI` (length changes; still one Name when re-lexed) and, genuinely breaking,
`ǰ`→`J`+U+030C: `format('select ǰx', identifier_case='upper')` gives `select J̌X`, which the real lexer re-lexes as `Name J`,
`Error U+030C`, `Name X` (the combining caron is not a `\\w` character): one token becomes three. -/

/-- **re-casing ASCII letters never moves a token boundary or changes a token type**: if `s'` and `s` differ only in the case of ASCII
letters, the tokens of `s'` are the tokens of `s` with the values read from `s'` (`reslice`) -/
theorem lex_ascii_case_invariant (s s' : Array Cp) (h : s'.toList.map asciiFold = s.toList.map asciiFold)
    (ts : List Tok) (hl : lex defaultCfg s = .ok ts) :
    lex defaultCfg s' = .ok (reslice s'.toList ts) ∧ (reslice s'.toList ts).map (·.tt) = ts.map (·.tt) :=
  ⟨Sql.lex_ascii_case_invariant s s' h ts hl, reslice_types ts _⟩

/-- on ASCII values `upper`, `lower` and `capitalize` change only the case of letters -/
theorem case_conversion_ascii (c : CaseConv) (v : Text) (h : ∀ x ∈ v, x < 128) :
    (c.apply v).map asciiFold = v.map asciiFold := caseConv_ascii c v h

/-- **`keyword_case`: the output text lexes to exactly the filtered tokens** (nothing fused, nothing split, same types), whenever the
filter changed only ASCII case — in particular for every ASCII text (`keyword_case_output_relexes_ascii`) -/
theorem keyword_case_output_relexes (c : CaseConv) (s : Array Cp) (ts : List Tok) (hl : lex defaultCfg s = .ok ts)
    (hcase : ∀ t ∈ ts, (kwCaseTok c t).val.map asciiFold = t.val.map asciiFold) :
    lex defaultCfg (stmtText (keywordCaseFilter c ts)).toArray = .ok (keywordCaseFilter c ts) :=
  kwcase_relex c s ts hl hcase

theorem keyword_case_output_relexes_ascii (c : CaseConv) (s : Array Cp) (ts : List Tok) (hl : lex defaultCfg s = .ok ts)
    (hascii : ∀ x ∈ s.toList, x < 128) :
    lex defaultCfg (stmtText (keywordCaseFilter c ts)).toArray = .ok (keywordCaseFilter c ts) :=
  kwcase_relex c s ts hl (fun t ht => kwCaseTok_ascii c t (ascii_tokens s ts hl hascii t ht))

/-- **`identifier_case`: the output text lexes to exactly the filtered tokens** -/
theorem identifier_case_output_relexes (c : CaseConv) (s : Array Cp) (ts ts' : List Tok) (hl : lex defaultCfg s = .ok ts)
    (hf : identifierCaseFilter c ts = .ok ts')
    (hcase : ∀ t ∈ ts, ∀ t', idCaseTok c t = .ok t' → t'.val.map asciiFold = t.val.map asciiFold) :
    lex defaultCfg (stmtText ts').toArray = .ok ts' :=
  idcase_relex c s ts ts' hl hf hcase

theorem identifier_case_output_relexes_ascii (c : CaseConv) (s : Array Cp) (ts ts' : List Tok) (hl : lex defaultCfg s = .ok ts)
    (hf : identifierCaseFilter c ts = .ok ts') (hascii : ∀ x ∈ s.toList, x < 128) :
    lex defaultCfg (stmtText ts').toArray = .ok ts' :=
  idcase_relex c s ts ts' hl hf (fun t ht t' h' => idCaseTok_ascii c t t' (ascii_tokens s ts hl hascii t ht) h')

/-- **text-level idempotence of `keyword_case` alone**: lexing the output and filtering again reproduces the output text
(from the lexical bridge and the token-level idempotence; `hc` = idempotence of the string conversion, as in `keyword_case_idempotent`) -/
theorem keyword_case_text_idempotent (c : CaseConv) (hc : ∀ v, c.apply (c.apply v) = c.apply v) (s : Array Cp) (ts : List Tok)
    (hl : lex defaultCfg s = .ok ts)
    (hcase : ∀ t ∈ ts, (kwCaseTok c t).val.map asciiFold = t.val.map asciiFold) :
    ∃ ts1, lex defaultCfg (stmtText (keywordCaseFilter c ts)).toArray = .ok ts1 ∧
      stmtText (keywordCaseFilter c ts1) = stmtText (keywordCaseFilter c ts) :=
  kwcase_text_idem c hc s ts hl hcase

/-- **text-level idempotence of `identifier_case` alone**: the second run sees exactly the tokens the first produced, so its result is the
map applied twice (`identifier_case_idempotent` then gives equality under that theorem's hypotheses on the conversion) -/
theorem identifier_case_text_second_run (c : CaseConv) (s : Array Cp) (ts ts' ts'' : List Tok) (hl : lex defaultCfg s = .ok ts)
    (hf : identifierCaseFilter c ts = .ok ts')
    (hcase : ∀ t ∈ ts, ∀ t', idCaseTok c t = .ok t' → t'.val.map asciiFold = t.val.map asciiFold)
    (hf2 : identifierCaseFilter c ts' = .ok ts'') :
    ∃ ts1, lex defaultCfg (stmtText ts').toArray = .ok ts1 ∧ identifierCaseFilter c ts1 = .ok ts'' :=
  ⟨ts', idcase_relex c s ts ts' hl hf hcase, hf2⟩

/-- non-vacuity: `select a from b` with `keyword_case=upper` — the output `SELECT a FROM b` lexes to the four filtered tokens + blanks -/
example : lex defaultCfg (stmtText (keywordCaseFilter .upper
      ((lex defaultCfg #[115, 101, 108, 101, 99, 116, 32, 97, 32, 102, 114, 111, 109, 32, 98]).toOption.getD []))).toArray
    = .ok (keywordCaseFilter .upper ((lex defaultCfg #[115, 101, 108, 101, 99, 116, 32, 97, 32, 102, 114, 111, 109, 32, 98]).toOption.getD [])) := by
  obtain ⟨ts, hts⟩ : ∃ ts, lex defaultCfg #[115, 101, 108, 101, 99, 116, 32, 97, 32, 102, 114, 111, 109, 32, 98] = .ok ts := by
    obtain ⟨ts, h, _⟩ := lex_scan defaultCfg defaultRulesOK #[115, 101, 108, 101, 99, 116, 32, 97, 32, 102, 114, 111, 109, 32, 98]
    exact ⟨ts, h⟩
  rw [hts]
  exact keyword_case_output_relexes_ascii .upper _ ts hts (by decide)

end Sql.C08
