import SqlModel.Pipeline
import SqlProofs.SplitScript
import SqlProofs.SplitValue
/-!
# C05 — statements end exactly at top-level semicolons; opaque regions never split

Token-level theorems about the model of `StatementSplitter` (tied to the code by streams S-SPLIT and the
exhaustive `_change_splitlevel` table S-CSL).  "Quiet" is the decidable condition under which a statement body
never shows the splitter a `;` at level ≤ 0 nor a `GO` keyword; every plain statement of the verification grammar
satisfies it (checked on every generated script by the driver, and proved for the block grammar in C17).
The character-level half (each opaque region is one token of a value-blind type) is C14.
-/
namespace Sql.C05

/-- table obligation: the generated `EOS_TTYPE` types are neither keyword types nor Punctuation -/
theorem eos_neutral : EosNeutral defaultSplitCfg = true := by decide

/-- **k statements in, k statements out.** A script made of units `body ; trail` — each body quiet from a fresh
splitter state with its level ending ≤ 0 and not starting with an EOS-typed token, each `trail` consisting of blanks and
single-line comments — is split into exactly those units, whatever the bodies, separators and comments are. -/
theorem plain_script_split (us : List SUnit) (h : ∀ u ∈ us, u.ok defaultSplitCfg = true) :
    splitProcess defaultSplitCfg (us.flatMap SUnit.toks) = .ok (us.map SUnit.toks) :=
  split_units defaultSplitCfg eos_neutral us h

/-- the same with a last statement that has no terminating semicolon -/
theorem plain_script_split_last (us : List SUnit) (h : ∀ u ∈ us, u.ok defaultSplitCfg = true) (last : List Tok)
    (hh : headNotEos defaultSplitCfg last = true) (hq : quiet defaultSplitCfg {} 0 last = true)
    (hw : last.all Tok.isWhitespace = false) :
    splitProcess defaultSplitCfg (us.flatMap SUnit.toks ++ last) = .ok (us.map SUnit.toks ++ [last]) :=
  split_units_last defaultSplitCfg eos_neutral us h last hh hq hw

/-- the same followed by a whitespace-only tail, which is dropped -/
theorem plain_script_split_wstail (us : List SUnit) (h : ∀ u ∈ us, u.ok defaultSplitCfg = true) (tail : List Tok)
    (hh : headNotEos defaultSplitCfg tail = true) (hq : quiet defaultSplitCfg {} 0 tail = true)
    (hw : tail.all Tok.isWhitespace = true) :
    splitProcess defaultSplitCfg (us.flatMap SUnit.toks ++ tail) = .ok (us.map SUnit.toks) :=
  split_units_wstail defaultSplitCfg eos_neutral us h tail hh hq hw

/-- **opaque regions never split, and their contents are irrelevant.** Two token streams that agree on all types, and
on the values of keyword-typed and Punctuation tokens, are split into statements of identical extents: replacing the body
of any string literal, quoted name, dollar-quoted literal, comment, number or name by anything else changes nothing. -/
theorem split_value_irrelevant (ts ts' : List Tok) (h : SameSplitView ts ts') :
    partitionLens (splitProcess defaultSplitCfg ts) = partitionLens (splitProcess defaultSplitCfg ts') :=
  Sql.split_value_irrelevant defaultSplitCfg ts ts' h

/-- the types of all opaque regions are value-blind -/
theorem opaque_types_value_blind :
    ([T.StringSingle, T.StringSymbol, T.Literal, T.Name, T.CommentSingle, T.CommentMultiline,
      ["Comment", "Single", "Hint"], ["Comment", "Multiline", "Hint"], T.Whitespace, T.Newline, T.Integer, T.Float,
      T.Placeholder, T.Operator, T.Comparison, T.Wildcard, T.Error].all valueBlind) = true := by decide

def tk (tt : TType) (s : String) : Tok := ⟨tt, txt s⟩

/-- non-vacuity: `select 'a;b' ; /*c*/ select ( 1 ; 2 )` (a `;` in a literal and one in parentheses) is a two-unit script -/
example :
    let u1 : SUnit := ⟨[tk T.DML "select", tk T.Whitespace " ", tk T.StringSingle "'a;b'"], tk T.Punctuation ";", [tk T.Whitespace " "]⟩
    let u2 : SUnit := ⟨[tk T.CommentMultiline "/*c*/", tk T.DML "select", tk T.Punctuation "(", tk T.Integer "1",
                        tk T.Punctuation ";", tk T.Integer "2", tk T.Punctuation ")"], tk T.Punctuation ";", []⟩
    (u1.ok defaultSplitCfg && u2.ok defaultSplitCfg) = true := by decide +kernel

/-- the hypothesis `quiet` is not decorative (known finding KF-C05-1): inside parentheses `END` lowers the level, so
`select ( case when a then b end ; c )` is cut at the inner semicolon — the body is not quiet -/
theorem paren_end_counterexample :
    (splitProcess defaultSplitCfg
      [tk T.DML "select", tk T.Punctuation "(", tk T.Keyword "case", tk T.Keyword "when", tk T.Name "a", tk T.Keyword "then",
       tk T.Name "b", tk T.Keyword "end", tk T.Punctuation ";", tk T.Name "c", tk T.Punctuation ")"]).toOption.map List.length
      = some 2 := by decide +kernel

end Sql.C05
