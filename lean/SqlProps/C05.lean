import SqlModel.Pipeline
import SqlProofs.SplitScript
import SqlProofs.SplitValue
import SqlProofs.RegionSplit
/-!
# C05 — statements end exactly at top-level semicolons; opaque regions never split

Token-level theorems about the model of `StatementSplitter` (tied to the code by streams S-SPLIT and the
exhaustive `_change_splitlevel` table S-CSL).  "Quiet" is the decidable condition under which a statement body
never shows the splitter a `;` at level ≤ 0 nor a `GO` keyword; every plain statement of the verification grammar
satisfies it (checked on every generated script by the driver, and proved for the block grammar in C17).
The character-level half combines C14 (each opaque region at a scan position is one token of a value-blind, non-Whitespace type) with the
partition: `region_in_one_statement`, `semicolon_in_region_does_not_split` below.
-/
/-!
## Hypotheses audit (C05)

Token level (`plain_script_split…`): `SUnit.ok` = quiet body (no `;` at level ≤ 0, no `GO`, no IndexError), level ending ≤ 0, head not of an
EOS type.  Needed: `select ( case when a then b end ; c )` is cut at the inner `;` (`paren_end_counterexample`, KF-C05-1); a body starting
with a blank or `-- comment` is attached to the previous statement by the real splitter.
Character level:
* `Region pre post region ty`: the hypotheses of the C14 region theorems (audited in SqlProps/C14.lean).
* `ScanBoundary … pre.length` (`region_in_one_statement`): a region opener inside another token is not lexed as a region.  `'/*;*/'` is one string.
* `before` — the tokens before the region are the same in both texts (`region_body_irrelevant`, `semicolon_in_region_does_not_split`): NEEDED.
  `AT TIME ZONE ''` lexes as `AT`, `TIME`, `ZONE`, `''` but `AT TIME ZONE 'x'` as ONE `Keyword.TZCast` (the earlier rule reads into the
  region); likewise a stray `"` before `'a"b'` (`"'a"` becomes a `String.Symbol`).  Vacuous for a region at the start of the text
  (`semicolon_in_leading_region_does_not_split`).
* `region.getLast? = region'.getLast?`: technical.  The next token can look one character back (`(?<![\w"$])`, `(?<!\w)`, `(?<![\w\])])`,
  `(?<=\.)`, `\b`); the proof transports derivations between texts that agree from that character on.  It holds automatically for two
  regions of the same kind, except two line comments ended by different line breaks or a backtick versus an acute-accent name; in those
  cases the characters (`␍`, `⏎`, `` ` ``, `´`) are all outside every look-behind class, so the hypothesis is presumably not necessary there —
  it is what the proof uses, no counterexample exists.
No input restriction: `split_value_irrelevant` (only `SameSplitView`), `region_types`.
-/

namespace Sql.C05

/-- table obligation: the generated `EOS_TTYPE` types are neither keyword types nor Punctuation -/
theorem eos_neutral : EosNeutral defaultSplitCfg = true := by decide

/-- **k statements in, k statements out.** A script made of units `body ; trail` — each body quiet from a fresh
splitter state with its level ending ≤ 0 and not starting with an EOS-typed token, each `trail` consisting of blanks and
single-line comments — is split into exactly those units, whatever the bodies, separators and comments are. -/
theorem plain_script_split (us : List SUnit) (h : ∀ u ∈ us, u.ok defaultSplitCfg = true) :
    splitProcess defaultSplitCfg (us.flatMap SUnit.toks) = .ok (us.map SUnit.toks) :=
  split_units defaultSplitCfg eos_neutral us h

/-- the same with a last statement that has no terminating semicolon -/
theorem plain_script_split_last (us : List SUnit) (h : ∀ u ∈ us, u.ok defaultSplitCfg = true) (last : List Tok)
    (hh : headNotEos defaultSplitCfg last = true) (hq : quiet defaultSplitCfg {} 0 last = true)
    (hw : last.all Tok.isWhitespace = false) :
    splitProcess defaultSplitCfg (us.flatMap SUnit.toks ++ last) = .ok (us.map SUnit.toks ++ [last]) :=
  split_units_last defaultSplitCfg eos_neutral us h last hh hq hw

/-- the same followed by a whitespace-only tail, which is dropped -/
theorem plain_script_split_wstail (us : List SUnit) (h : ∀ u ∈ us, u.ok defaultSplitCfg = true) (tail : List Tok)
    (hh : headNotEos defaultSplitCfg tail = true) (hq : quiet defaultSplitCfg {} 0 tail = true)
    (hw : tail.all Tok.isWhitespace = true) :
    splitProcess defaultSplitCfg (us.flatMap SUnit.toks ++ tail) = .ok (us.map SUnit.toks) :=
  split_units_wstail defaultSplitCfg eos_neutral us h tail hh hq hw

/-- **opaque regions never split, and their contents are irrelevant.** Two token streams that agree on all types, and
on the values of keyword-typed and Punctuation tokens, are split into statements of identical extents: replacing the body
of any string literal, quoted name, dollar-quoted literal, comment, number or name by anything else changes nothing. -/
theorem split_value_irrelevant (ts ts' : List Tok) (h : SameSplitView ts ts') :
    partitionLens (splitProcess defaultSplitCfg ts) = partitionLens (splitProcess defaultSplitCfg ts') :=
  Sql.split_value_irrelevant defaultSplitCfg ts ts' h

/-- the types of all opaque regions are value-blind -/
theorem opaque_types_value_blind :
    ([T.StringSingle, T.StringSymbol, T.Literal, T.Name, T.CommentSingle, T.CommentMultiline,
      ["Comment", "Single", "Hint"], ["Comment", "Multiline", "Hint"], T.Whitespace, T.Newline, T.Integer, T.Float,
      T.Placeholder, T.Operator, T.Comparison, T.Wildcard, T.Error].all valueBlind) = true := by decide

def tk (tt : TType) (s : String) : Tok := ⟨tt, txt s⟩

/-- non-vacuity: `select 'a;b' ; /*c*/ select ( 1 ; 2 )` (a `;` in a literal and one in parentheses) is a two-unit script -/
example :
    let u1 : SUnit := ⟨[tk T.DML "select", tk T.Whitespace " ", tk T.StringSingle "'a;b'"], tk T.Punctuation ";", [tk T.Whitespace " "]⟩
    let u2 : SUnit := ⟨[tk T.CommentMultiline "/*c*/", tk T.DML "select", tk T.Punctuation "(", tk T.Integer "1",
                        tk T.Punctuation ";", tk T.Integer "2", tk T.Punctuation ")"], tk T.Punctuation ";", []⟩
    (u1.ok defaultSplitCfg && u2.ok defaultSplitCfg) = true := by decide +kernel

/-- the hypothesis `quiet` is not decorative (known finding KF-C05-1): inside parentheses `END` lowers the level, so
`select ( case when a then b end ; c )` is cut at the inner semicolon — the body is not quiet -/
theorem paren_end_counterexample :
    (splitProcess defaultSplitCfg
      [tk T.DML "select", tk T.Punctuation "(", tk T.Keyword "case", tk T.Keyword "when", tk T.Name "a", tk T.Keyword "then",
       tk T.Name "b", tk T.Keyword "end", tk T.Punctuation ";", tk T.Name "c", tk T.Punctuation ")"]).toOption.map List.length
      = some 2 := by decide +kernel

/-! ## character level: opaque regions never split

`Region pre post region ty` (SqlProofs/RegionSplit.lean): `region` is one of the nine region kinds of C14 — block comment, hint block
comment, line comment, hint line comment, `'…'`, `"…"`, `` `…` ``, `´…´`, `$tag$…$tag$` — with that kind's hypotheses on its body and on the
text before (`pre`) and after (`post`); `ty` is its token type.  `ScanBoundary … p`: the lexer performs a scan step at `p` (C14). -/

/-- the nine region types are not Whitespace types (so a region token is never in the dropped tail) and are value-blind -/
theorem region_types {pre post region : List Cp} {ty : TType} (hr : Region pre post region ty) :
    ty.isIn T.Whitespace = false ∧ valueBlind ty = true := hr.ty_facts

/-- **an opaque region lies inside one statement.** For every text `pre ++ region ++ post` with the lexer standing at `|pre|`: one of the
statements `lexSplit` returns contains the region as a single token, `A` being the statements before it and `l` the tokens of that
statement before the region token, with `|text of A| + |text of l| = |pre|`.  Whatever the region contains — `;`, `GO`, `END`, openers of
other regions — ended no statement inside it. -/
theorem region_in_one_statement (s : Array Cp) (pre region post : List Cp) (ty : TType)
    (h : s.toList = pre ++ region ++ post) (hreg : Region pre post region ty)
    (hb : ScanBoundary defaultCfg (defaultCfg.env s) pre.length)
    (sts : List (List Tok)) (hs : lexSplit s = .ok sts) :
    ∃ A st B l r, sts = A ++ st :: B ∧ st = l ++ ⟨ty, region⟩ :: r ∧ textLen (A.flatten ++ l) = pre.length :=
  Sql.region_in_one_statement s pre region post ty h hreg hb sts hs

/-- the same as character offsets in the partition of `C04.statements_partition_text`: the statement starts at or before `|pre|` and ends
at or after `|pre| + |region|` -/
theorem region_span_in_statement (s : Array Cp) (pre region post : List Cp) (ty : TType)
    (h : s.toList = pre ++ region ++ post) (hreg : Region pre post region ty)
    (hb : ScanBoundary defaultCfg (defaultCfg.env s) pre.length)
    (sts : List (List Tok)) (hs : lexSplit s = .ok sts) :
    ∃ A st B, sts = A ++ st :: B ∧ textLen A.flatten ≤ pre.length ∧
      pre.length + region.length ≤ textLen A.flatten + textLen st :=
  Sql.region_span_in_statement s pre region post ty h hreg hb sts hs

/-- **the body of a region influences no other token**: same context, two regions of the same kind ending with the same character (all a
one-character look-behind — `(?<![\w"$])`, `(?<!\w)`, `\b` … , table obligation `rules_lb1` — can see); if the tokens before the region
are the same in both texts, so are the tokens after it. -/
theorem region_body_irrelevant (s s' : Array Cp) (pre region region' post : List Cp) (ty : TType)
    (h : s.toList = pre ++ region ++ post) (h' : s'.toList = pre ++ region' ++ post)
    (hreg : Region pre post region ty) (hreg' : Region pre post region' ty)
    (hlast : region.getLast? = region'.getLast?)
    (ts ts' : List Tok) (hl : lex defaultCfg s = .ok ts) (hl' : lex defaultCfg s' = .ok ts')
    (before : List Tok) (hb : before <+: ts) (hb' : before <+: ts') (hlen : textLen before = pre.length) :
    ∃ after, ts = before ++ ⟨ty, region⟩ :: after ∧ ts' = before ++ ⟨ty, region'⟩ :: after :=
  Sql.region_body_irrelevant s s' pre region region' post ty h h' hreg hreg' hlast ts ts' hl hl' before hb hb' hlen

/-- **a `;` inside a region does not split**: replacing the body of a region by any other body of the same kind (for instance one without
`;`) leaves the extents of all statements — hence their number — unchanged.  Hypothesis `before`: the tokens before the region are the same
in both texts; it can fail only when an unterminated construct in `pre` reaches into the region (e.g. a stray `"` before a `'…"…'`), and
is vacuous for a region at the start of the text (`semicolon_in_leading_region_does_not_split`). -/
theorem semicolon_in_region_does_not_split (s s' : Array Cp) (pre region region' post : List Cp) (ty : TType)
    (h : s.toList = pre ++ region ++ post) (h' : s'.toList = pre ++ region' ++ post)
    (hreg : Region pre post region ty) (hreg' : Region pre post region' ty)
    (hlast : region.getLast? = region'.getLast?)
    (ts ts' : List Tok) (hl : lex defaultCfg s = .ok ts) (hl' : lex defaultCfg s' = .ok ts')
    (before : List Tok) (hb : before <+: ts) (hb' : before <+: ts') (hlen : textLen before = pre.length) :
    partitionLens (lexSplit s) = partitionLens (lexSplit s') :=
  Sql.semicolon_in_region_does_not_split s s' pre region region' post ty h h' hreg hreg' hlast ts ts' hl hl' before hb hb' hlen

theorem semicolon_in_leading_region_does_not_split (s s' : Array Cp) (region region' post : List Cp) (ty : TType)
    (h : s.toList = region ++ post) (h' : s'.toList = region' ++ post)
    (hreg : Region [] post region ty) (hreg' : Region [] post region' ty)
    (hlast : region.getLast? = region'.getLast?) :
    partitionLens (lexSplit s) = partitionLens (lexSplit s') :=
  Sql.semicolon_in_leading_region_does_not_split s s' region region' post ty h h' hreg hreg' hlast

/-- non-vacuity: `/*a;b*/ x ; y` and `/*ab*/ x ; y` instantiate the leading-region theorem -/
example : partitionLens (lexSplit #[47, 42, 97, 59, 98, 42, 47, 32, 120, 59, 121]) =
    partitionLens (lexSplit #[47, 42, 97, 98, 42, 47, 32, 120, 59, 121]) :=
  semicolon_in_leading_region_does_not_split _ _ ([47, 42] ++ [97, 59, 98] ++ [42, 47]) ([47, 42] ++ [97, 98] ++ [42, 47])
    [32, 120, 59, 121] T.CommentMultiline rfl rfl
    (.block [97, 59, 98] (by decide) (by decide) (by decide)) (.block [97, 98] (by decide) (by decide) (by decide)) rfl

/-- and executing the model on the first text: two statements, the comment with its `;` inside the first -/
example : (lexSplit #[47, 42, 97, 59, 98, 42, 47, 32, 120, 59, 121]).toOption.map (·.map List.length) = some [4, 1] := by
  decide +kernel

end Sql.C05
