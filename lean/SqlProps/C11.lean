import SqlModel.Pipeline
import SqlModel.KwNorm
import SqlProofs.SplitValue
import SqlProofs.Respell.All
import SqlProofs.WsInv.WsInvariant
import SqlProofs.WsRespell.Theorem
import SqlProofs.WsRespell.Text
import SqlProofs.WsRespell.SqueezeTheorem
import SqlProofs.WsRespell.SqueezeText
/-!
# C11 — parsing is insensitive to inter-token whitespace and keyword letter case

Theorems: the statement splitter sees a token only through its *view* — type, `_change_splitlevel` class (computed from
`' '.join(value.upper().split())` for keywords), the `;` test and the case-insensitive GO test — so two token streams with the same views are split
into statements of identical extents (`split_view_invariant`); re-spelled keywords have the same view (`kwNorm` facts below, and the driver
evaluates `tokView` on both spellings of every generated script: stream DOMAIN(view)).  For the grouping passes the re-spelling theorem `respell_group` holds: re-spelling the leaves of any token forest by an *admissible* map
(keyword leaves keep their `kwNorm`, whitespace leaves may get any contextually equivalent value, everything else is untouched) and then
grouping gives exactly the re-spelling of the grouped forest — same classes, same shape, same leaf types, same error — for every input, every
fuel, all 25 passes (`SqlProofs/Respell/*`).  Keyword re-casing and re-spelling the whitespace inside multi-word keywords are admissible
(`respell_group_case`, `respell_group_kwWs`).  Changing the *number or type* of whitespace tokens (`a  b` vs `a b`, blank vs line break: the lexer emits one token per whitespace
character): `whitespace_count_invariant` — on the decidable domain `InDomain` (no comment token, no `:=` token, and the `CREATE TABLE … AS` scan
of `group_functions` blind to whitespace children: `WsDomain`, never false on 164 637 corpus statements) the grouped trees of two statements with
the same non-whitespace tokens are equal after deleting whitespace leaves (`skel`): same classes, same nesting, same significant leaves; even
deleting all whitespace tokens gives the same skeleton (`group_skel_canonical`).  Outside the domain the statement is FALSE for the library
(witness pairs on the real code: adjacent comments separated by a blank vs a line break; `:=` chains whose stale indexes count whitespace
tokens): known findings KF-C11-1/2.  The metamorphic oracle on the real code and S-TREE on both spellings cover the grammar scripts.
-/
namespace Sql.C11

/-- streams with equal views have identical statement extents -/
theorem split_view_invariant (ts ts' : List Tok) (h : ts.map (tokView defaultSplitCfg) = ts'.map (tokView defaultSplitCfg)) :
    partitionLens (splitProcess defaultSplitCfg ts) = partitionLens (splitProcess defaultSplitCfg ts') :=
  Sql.split_view_invariant defaultSplitCfg ts ts' h

/-- re-spelled multi-word keywords normalise identically (examples over the closing keywords the splitter and the grouping passes compare) -/
theorem respelled_keywords_normalise :
    kwNorm (txt "end  \t if") = txt "END IF" ∧ kwNorm (txt "Order\r\n\nBY") = txt "ORDER BY" ∧ kwNorm (txt "uNiOn   aLl") = txt "UNION ALL" ∧
    kwNorm (txt "Create\n or\treplace") = txt "CREATE OR REPLACE" ∧ unify defaultSplitCfg (txt "End\tWhile") = txt "END WHILE" := by
  refine ⟨?_, ?_, ?_, ?_, ?_⟩ <;> decide +kernel

/-- and hence have the same view: `END  IF` and `end if` both close a block, `go` and `GO` both end a batch -/
theorem respelled_views_equal :
    tokView defaultSplitCfg ⟨T.Keyword, txt "END  IF"⟩ = tokView defaultSplitCfg ⟨T.Keyword, txt "end\tif"⟩ ∧
    tokView defaultSplitCfg ⟨T.Keyword, txt "GO"⟩ = tokView defaultSplitCfg ⟨T.Keyword, txt "go"⟩ ∧
    tokView defaultSplitCfg ⟨T.DDL, txt "CREATE OR REPLACE"⟩ = tokView defaultSplitCfg ⟨T.DDL, txt "create  or\nreplace"⟩ := by
  refine ⟨?_, ?_, ?_⟩ <;> decide +kernel

/-- **grouping commutes with admissible re-spelling** (all 25 passes, every input forest, every fuel; errors are preserved too) -/
theorem respell_group : type_of% @Sql.respell_group := @Sql.respell_group
/-- … for the flat statement the splitter hands over -/
theorem respell_group_statement : type_of% @Sql.respell_groupStatement := @Sql.respell_groupStatement
/-- changing the letter case of keywords by any map that `str.upper` undoes is admissible -/
theorem respell_group_keyword_case : type_of% @Sql.respell_group_case := @Sql.respell_group_case
theorem respell_group_ascii_lower : type_of% @Sql.respell_group_asciiLower := @Sql.respell_group_asciiLower
/-- re-spelling keyword values / whitespace values by contextually `kwNorm`-equivalent texts is admissible -/
theorem respell_group_keyword_whitespace : type_of% @Sql.respell_group_kwWs := @Sql.respell_group_kwWs
/-- two non-empty whitespace runs are interchangeable in any context (`ORDER  BY` = `ORDER\nBY` under `kwNorm`) -/
theorem whitespace_runs_equivalent : type_of% @Sql.ctxEq_ws := @Sql.ctxEq_ws

/-- **whitespace-count invariance** (decidable domain `InDomain`): two flat statements with the same non-whitespace tokens and whitespace in the
same gaps (`WsEquiv`) group to trees with identical skeletons -/
theorem whitespace_count_invariant : type_of% @Sql.ws_invariant_partial' := @Sql.ws_invariant_partial'
/-- … and grouping the statement with ALL whitespace tokens deleted gives the skeleton of the original tree -/
theorem group_skel_canonical : type_of% @Sql.group_skel_canonical := @Sql.group_skel_canonical

/-- **the lexical step** (SqlProofs/WsRespell): if a text lexes to `toks`, `toks` satisfies the decidable `wsRespellable` (driver command
`wsrespell`; it rejects comments, dollar-quoted literals, the double-quote fallback and `#`/`-` directly before whitespace — where the library
really is whitespace-sensitive) and `toks'` re-spells every whitespace token with the same number of arbitrary whitespace characters (blank ↔ tab
↔ any line break ↔ NBSP …), then the re-spelled TEXT lexes, and to a token list `WsEquiv` to the original — the relation
`whitespace_count_invariant` consumes.  Together: re-spelled text ⇒ same tree skeleton, on the two decidable domains. -/
theorem respelled_text_lexes_equivalently : type_of% @Sql.ws_respell_lex := @Sql.ws_respell_lex
/-- the same composed with re-casing of keywords (through `relex_case_mapped`) -/
theorem respelled_and_recased_text_lexes_equivalently : type_of% @Sql.respell_lex := @Sql.respell_lex
/-- text form, run by run: ANY text of the same length that keeps the non-whitespace tokens at their offsets and has arbitrary whitespace
characters in the gaps (so `\r\n` may straddle what used to be two whitespace tokens) lexes to a `WsEquiv` token list -/
theorem respelled_text_lexes_equivalently_runwise : type_of% @Sql.ws_respell_text := @Sql.ws_respell_text
/-- the hypothesis is neither vacuous nor trivially true -/
theorem wsRespellable_examples : type_of% @Sql.wsRespellable_examples := @Sql.wsRespellable_examples
/-- **length-changing whitespace runs** (SqlProofs/WsRespell/Squeeze*.lean): if a text lexes to `toks`, `toks` satisfies the decidable
`wsRespellableAny` (driver command `wsrespellany`; evaluated on the squeezed token list — every whitespace run one blank — so one certificate
serves all spellings), and `toks'` replaces the value of every whitespace token by ANY non-empty string of whitespace characters, then the
re-spelled text lexes to a token list `WsEquiv` to the original.  Proof: every rule of the table is in the "run class" (whitespace consumed only
by `\s*`/`\s+` loops whose continuation is dead on whitespace; `rules_in_run_class`, decided by the kernel: 42 of 52 rules) or must be killed /
matched exactly by the per-token certificate; derivations on a text correspond one-to-one, in order, to derivations on its squeezed form
(`Sql.corr_derivs`).  `wsRespellableAny` and `wsRespellable` are independent hypotheses (different per-rule conditions). -/
theorem respelled_runs_of_any_length_lex_equivalently : type_of% @Sql.ws_respell_any_lex := @Sql.ws_respell_any_lex
theorem respelled_runs_of_any_length_lex_equivalently_text : type_of% @Sql.ws_respell_any_text := @Sql.ws_respell_any_text
theorem rules_in_run_class : type_of% @Sql.rules_in_class := @Sql.rules_in_class
theorem wsRespellableAny_examples : type_of% @Sql.wsRespellableAny_examples := @Sql.wsRespellableAny_examples

end Sql.C11
