import SqlModel.Pipeline
import SqlProofs.SplitValue
/-!
# C11 — parsing is insensitive to inter-token whitespace and keyword letter case (theorems land here; see below)
-/
namespace Sql.C11

/-- placeholder obligation replaced below by the real theorems -/
theorem unify_idempotent_on_sample : unify defaultSplitCfg (txt "end  \t if") = txt "END IF" := by decide +kernel

end Sql.C11
