import SqlModel.Pipeline
import SqlModel.KwNorm
import SqlProofs.SplitValue
/-!
# C11 — parsing is insensitive to inter-token whitespace and keyword letter case

Theorems: the statement splitter sees a token only through its *view* — type, `_change_splitlevel` class (computed from
`' '.join(value.upper().split())` for keywords), the `;` test and the case-insensitive GO test — so two token streams with the same views are split
into statements of identical extents (`split_view_invariant`); re-spelled keywords have the same view (`kwNorm` facts below, and the driver
evaluates `tokView` on both spellings of every generated script: stream DOMAIN(view)).  The tree model compares keywords through `kwNorm` only
(`Node.match`, `Node.normalized` are parametric in it).  Not theorems: invariance of the 25 grouping passes under changing the *number* of
whitespace tokens — established by the metamorphic oracle on the real code and by S-TREE on both spellings.
-/
namespace Sql.C11

/-- streams with equal views have identical statement extents -/
theorem split_view_invariant (ts ts' : List Tok) (h : ts.map (tokView defaultSplitCfg) = ts'.map (tokView defaultSplitCfg)) :
    partitionLens (splitProcess defaultSplitCfg ts) = partitionLens (splitProcess defaultSplitCfg ts') :=
  Sql.split_view_invariant defaultSplitCfg ts ts' h

/-- re-spelled multi-word keywords normalise identically (examples over the closing keywords the splitter and the grouping passes compare) -/
theorem respelled_keywords_normalise :
    kwNorm (txt "end  \t if") = txt "END IF" ∧ kwNorm (txt "Order\r\n\nBY") = txt "ORDER BY" ∧ kwNorm (txt "uNiOn   aLl") = txt "UNION ALL" ∧
    kwNorm (txt "Create\n or\treplace") = txt "CREATE OR REPLACE" ∧ unify defaultSplitCfg (txt "End\tWhile") = txt "END WHILE" := by
  refine ⟨?_, ?_, ?_, ?_, ?_⟩ <;> decide +kernel

/-- and hence have the same view: `END  IF` and `end if` both close a block, `go` and `GO` both end a batch -/
theorem respelled_views_equal :
    tokView defaultSplitCfg ⟨T.Keyword, txt "END  IF"⟩ = tokView defaultSplitCfg ⟨T.Keyword, txt "end\tif"⟩ ∧
    tokView defaultSplitCfg ⟨T.Keyword, txt "GO"⟩ = tokView defaultSplitCfg ⟨T.Keyword, txt "go"⟩ ∧
    tokView defaultSplitCfg ⟨T.DDL, txt "CREATE OR REPLACE"⟩ = tokView defaultSplitCfg ⟨T.DDL, txt "create  or\nreplace"⟩ := by
  refine ⟨?_, ?_, ?_⟩ <;> decide +kernel

end Sql.C11
