import SqlModel.Default
import SqlProofs.LexRegions
import SqlProofs.LexDollar
import SqlProofs.LexScan
import SqlProofs.LexWords
import SqlProofs.LexDictWords
/-!
# C14 — opaque regions are one token (character level)

For every text `s` and every position `p`: if the text from `p` on reads `opener body closer rest`, with a well-formed `body`
and a `rest` that cannot prolong the region, then the scan step of the lexer at `p` (`firstMatch`, the inner loop of
`Lexer.get_tokens` over the regenerated rule table) emits exactly one token of the region's type that ends right after the
closer — whatever precedes `p`, whatever the body contains (`;`, keywords, other openers, line breaks where allowed).

Each theorem is tied to the generated table by one obligation `…_rule_first` (SqlProofs/LexRegions.lean, LexDollar.lean; a computation
`firstWith pre rule defaultCfg.rules = true`): the table contains the rule `⟨template, action⟩`, found **by content** — no rule index and no
atom number occurs anywhere — and every rule before its first occurrence cannot start at the opener's first character (or is the hint rule
sharing the opener, excluded by a direct argument).  So adding, removing or reordering rules that cannot start at the opener leaves every
obligation intact, while a change of the region's regular expression or token type breaks it.  Code points are `Nat`; classes such as
`[\s\S]`, `.` and `[^']` contain exactly the code points ≤ 0x10FFFF, hence the bound on body characters.

Vocabulary (defined in SqlProofs/Lex/Basic.lean and SqlProofs/Lex/Comments.lean):
* `QBody q noBs body` — `body` is a sequence of units, each a doubled quote `q q` or one code point ≤ 0x10FFFF other than `q`
  (and, when `noBs`, other than the backslash 92);
* `EolCtx close rest` — `close` is `\r\n`, or `\r` not followed by `\n`, or `\n`, or empty at the end of the text;
* `LineOpen op` — `op` is `--` or `# `;
* `DollarTag tag` — `tag` is empty, or one character of `[_A-ZÀ-Ü]` (case-insensitively) followed by `\w` characters.
-/
namespace Sql.C14

/-- **block comment.** `/*body*/` with a body that does not start with `+` and does not contain `*/` is one `Comment.Multiline` token. -/
theorem block_comment (s : Array Cp) (p : Nat) (pre body rest : List Cp)
    (h : s.toList = pre ++ [47, 42] ++ body ++ [42, 47] ++ rest) (hp : pre.length = p)
    (hplus : body.head? ≠ some 43) (hno : ¬ [42, 47] <:+: body) (hle : ∀ c ∈ body, c ≤ 1114111) :
    firstMatch (defaultCfg.env s) defaultCfg.rules p = some (.tok T.CommentMultiline, p + 2 + body.length + 2) :=
  block_comment_token s p pre body rest h hp hplus hno hle

/-- **hint block comment.** `/*+body*/` with a body that does not contain `*/` is one `Comment.Multiline.Hint` token. -/
theorem block_hint (s : Array Cp) (p : Nat) (pre body rest : List Cp)
    (h : s.toList = pre ++ [47, 42, 43] ++ body ++ [42, 47] ++ rest) (hp : pre.length = p)
    (hno : ¬ [42, 47] <:+: body) (hle : ∀ c ∈ body, c ≤ 1114111) :
    firstMatch (defaultCfg.env s) defaultCfg.rules p
      = some (.tok ["Comment", "Multiline", "Hint"], p + 3 + body.length + 2) :=
  block_hint_token s p pre body rest h hp hno hle

/-- **line comment.** `--body EOL` or `# body EOL`, body without `\r`/`\n` and not starting with `+`, is one `Comment.Single`
token that includes the line break (`\r\n`, a lone `\r`, `\n`) or ends at the end of the text. -/
theorem line_comment (s : Array Cp) (p : Nat) (pre op body close rest : List Cp) (hop : LineOpen op)
    (h : s.toList = pre ++ op ++ body ++ close ++ rest) (hp : pre.length = p)
    (hplus : body.head? ≠ some 43) (hbody : ∀ c ∈ body, c ≠ 13 ∧ c ≠ 10 ∧ c ≤ 1114111) (hctx : EolCtx close rest) :
    firstMatch (defaultCfg.env s) defaultCfg.rules p
      = some (.tok T.CommentSingle, p + 2 + body.length + close.length) :=
  line_comment_token s p pre op body close rest hop h hp hplus hbody hctx

/-- **hint line comment.** `--+body EOL` or `# +body EOL` is one `Comment.Single.Hint` token. -/
theorem line_hint (s : Array Cp) (p : Nat) (pre op body close rest : List Cp) (hop : LineOpen op)
    (h : s.toList = pre ++ op ++ [43] ++ body ++ close ++ rest) (hp : pre.length = p)
    (hbody : ∀ c ∈ body, c ≠ 13 ∧ c ≠ 10 ∧ c ≤ 1114111) (hctx : EolCtx close rest) :
    firstMatch (defaultCfg.env s) defaultCfg.rules p
      = some (.tok ["Comment", "Single", "Hint"], p + 3 + body.length + close.length) :=
  line_hint_token s p pre op body close rest hop h hp hbody hctx

/-- **single-quoted string.** `'body'`, body made of `''` pairs and code points other than `'` and `\`, not followed by another `'`,
is one `String.Single` token. -/
theorem single_quoted (s : Array Cp) (p : Nat) (pre body rest : List Cp)
    (h : s.toList = pre ++ [39] ++ body ++ [39] ++ rest) (hp : pre.length = p)
    (hb : QBody 39 true body) (hr : rest.head? ≠ some 39) :
    firstMatch (defaultCfg.env s) defaultCfg.rules p = some (.tok T.StringSingle, p + 1 + body.length + 1) :=
  single_quoted_token s p pre body rest h hp hb hr

/-- **double-quoted string.** `"body"`, body made of `""` pairs and code points other than `"` and `\`, not followed by another `"`,
is one `String.Symbol` token. -/
theorem double_quoted (s : Array Cp) (p : Nat) (pre body rest : List Cp)
    (h : s.toList = pre ++ [34] ++ body ++ [34] ++ rest) (hp : pre.length = p)
    (hb : QBody 34 true body) (hr : rest.head? ≠ some 34) :
    firstMatch (defaultCfg.env s) defaultCfg.rules p = some (.tok T.StringSymbol, p + 1 + body.length + 1) :=
  double_quoted_token s p pre body rest h hp hb hr

/-- **backtick name.** `` `body` ``, body made of doubled backticks and code points other than the backtick (backslash allowed),
not followed by another backtick, is one `Name` token. -/
theorem backtick_name (s : Array Cp) (p : Nat) (pre body rest : List Cp)
    (h : s.toList = pre ++ [96] ++ body ++ [96] ++ rest) (hp : pre.length = p)
    (hb : QBody 96 false body) (hr : rest.head? ≠ some 96) :
    firstMatch (defaultCfg.env s) defaultCfg.rules p = some (.tok T.Name, p + 1 + body.length + 1) :=
  backtick_name_token s p pre body rest h hp hb hr

/-- **acute-accent name.** `´body´` likewise is one `Name` token. -/
theorem acute_name (s : Array Cp) (p : Nat) (pre body rest : List Cp)
    (h : s.toList = pre ++ [180] ++ body ++ [180] ++ rest) (hp : pre.length = p)
    (hb : QBody 180 false body) (hr : rest.head? ≠ some 180) :
    firstMatch (defaultCfg.env s) defaultCfg.rules p = some (.tok T.Name, p + 1 + body.length + 1) :=
  acute_name_token s p pre body rest h hp hb hr

/-- **dollar-quoted literal.** `$tag$body$tag$` is one `Literal` token, provided the opening `$` is not preceded by a word character,
`"` or `$` (the rule's look-behind), the tag is well formed, and the delimiter `$tag$` does not occur — compared case-insensitively, as
the back-reference of the IGNORECASE rule does — at any position starting inside the body. -/
theorem dollar_quoted (s : Array Cp) (p : Nat) (pre tag body rest : List Cp)
    (h : s.toList = pre ++ [36] ++ tag ++ [36] ++ body ++ [36] ++ tag ++ [36] ++ rest) (hp : pre.length = p)
    (hlb : ∀ c, pre.getLast? = some c → Gen.wordSet.mem c = false ∧ c ≠ 34 ∧ c ≠ 36)
    (htag : DollarTag tag) (hle : ∀ c ∈ body, c ≤ 1114111)
    (hbody : ∀ i, i < body.length →
      (((body ++ ([36] ++ tag ++ [36] ++ rest)).drop i).take (tag.length + 2)).map sreLower
        ≠ ([36] ++ tag ++ [36]).map sreLower) :
    firstMatch (defaultCfg.env s) defaultCfg.rules p
      = some (.tok T.Literal, p + (tag.length + 2) + body.length + (tag.length + 2)) :=
  dollar_quoted_token s p pre tag body rest h hp hlb htag hle hbody

/-! ## from one scan step to the output of `lexer.tokenize`

`ScanBoundary defaultCfg (defaultCfg.env s) p` — `p` is a scan position of the lexer on `s`: 0, or the end of the token emitted at a scan
position (`ScanBoundary.zero`, `ScanBoundary.next`; `scanNext` is the end of the match, or `p + 1` for an Error token).
`textLen before` is the number of characters the tokens `before` spell. -/

/-- position 0 is a scan position, and scan positions are closed under the emitted tokens -/
theorem boundary_zero (s : Array Cp) : ScanBoundary defaultCfg (defaultCfg.env s) 0 := ScanBoundary.zero

theorem boundary_next (s : Array Cp) (p : Nat) (hb : ScanBoundary defaultCfg (defaultCfg.env s) p) (hlt : p < s.size) :
    ScanBoundary defaultCfg (defaultCfg.env s) (scanNext defaultCfg (defaultCfg.env s) p) := ScanBoundary.next p hb hlt

/-- scan positions are exactly the offsets at which the tokens of the output start (plus the end of the text) -/
theorem boundary_iff_token_offset (s : Array Cp) (ts : List Tok) (h : lex defaultCfg s = .ok ts) (p : Nat) :
    ScanBoundary defaultCfg (defaultCfg.env s) p ↔ ∃ before after, ts = before ++ after ∧ textLen before = p :=
  boundary_iff_offset s ts h p

/-- **a scan step is a token of the output.** If `p` is a scan position and the scan step at `p` yields `(ty, e)` — which is what each
region theorem above establishes — then `lex defaultCfg s` contains the token of type `ty` and value `s[p..e)` immediately after tokens
that spell `s[0..p)`, and `e` is again a scan position. -/
theorem lex_emits_region (s : Array Cp) (p : Nat) (ty : TType) (e : Nat)
    (hb : ScanBoundary defaultCfg (defaultCfg.env s) p)
    (hfm : firstMatch (defaultCfg.env s) defaultCfg.rules p = some (.tok ty, e)) :
    ∃ ts before after, lex defaultCfg s = .ok ts ∧ ts = before ++ ⟨ty, (s.extract p e).toList⟩ :: after ∧
      textLen before = p ∧ ScanBoundary defaultCfg (defaultCfg.env s) e :=
  lex_emits s p ty e hb hfm

/-- the composition, for single-quoted strings: at a scan position, `'body'` (well-formed body, not followed by `'`) is one
`String.Single` token **of the token list `lex` returns**, with exactly the region as its value, and the position after the closing quote is
the next scan position. -/
theorem single_quoted_in_output (s : Array Cp) (p : Nat) (pre body rest : List Cp)
    (h : s.toList = pre ++ [39] ++ body ++ [39] ++ rest) (hp : pre.length = p)
    (hb : ScanBoundary defaultCfg (defaultCfg.env s) p) (hq : QBody 39 true body) (hr : rest.head? ≠ some 39) :
    ∃ ts before after, lex defaultCfg s = .ok ts ∧ ts = before ++ ⟨T.StringSingle, [39] ++ body ++ [39]⟩ :: after ∧
      textLen before = p ∧ ScanBoundary defaultCfg (defaultCfg.env s) (p + ([39] ++ body ++ [39]).length) := by
  refine region_in_lex s p pre ([39] ++ body ++ [39]) rest T.StringSingle (by simpa using h) hp hb ?_
  have := single_quoted s p pre body rest h hp hq hr
  rw [this]; simp; omega

/-- the same for block comments: after any prefix that ends at a scan position, `/*body*/` is one `Comment.Multiline` token of the output -/
theorem block_comment_in_output (s : Array Cp) (p : Nat) (pre body rest : List Cp)
    (h : s.toList = pre ++ [47, 42] ++ body ++ [42, 47] ++ rest) (hp : pre.length = p)
    (hb : ScanBoundary defaultCfg (defaultCfg.env s) p)
    (hplus : body.head? ≠ some 43) (hno : ¬ [42, 47] <:+: body) (hle : ∀ c ∈ body, c ≤ 1114111) :
    ∃ ts before after, lex defaultCfg s = .ok ts ∧ ts = before ++ ⟨T.CommentMultiline, [47, 42] ++ body ++ [42, 47]⟩ :: after ∧
      textLen before = p ∧ ScanBoundary defaultCfg (defaultCfg.env s) (p + ([47, 42] ++ body ++ [42, 47]).length) := by
  refine region_in_lex s p pre ([47, 42] ++ body ++ [42, 47]) rest T.CommentMultiline (by simpa using h) hp hb ?_
  have := block_comment s p pre body rest h hp hplus hno hle
  rw [this]; simp; omega

/-! ## keywords classify by table

Vocabulary (SqlProofs/LexWords.lean, SqlProofs/LexDictWords.lean): `asciiFold` = ASCII upper-casing of a code point; `wordTailSet` = `[$#\w]`;
`WordDelim c` = `c` is not in `[$#\w]`, not `str.isspace`, not `(` and not `.`; `dictWords` = all keys of the generated keyword dictionaries;
`uncertified` = the 19 entries listed there (words with a dedicated earlier rule, `WITH`, and four entries that are not single words). -/

/-- **case invariance.** `Lexer.is_keyword` gives the same token type to two ASCII texts that differ only in the case of ASCII letters
(`str.upper` on ASCII is checked against the generated table, all 128 entries). -/
theorem keyword_case_invariant (w w' : Text) (hw : ∀ c ∈ w, c < 128) (hw' : ∀ c ∈ w', c < 128)
    (h : w'.map asciiFold = w.map asciiFold) : isKeyword defaultCfg w' = isKeyword defaultCfg w :=
  isKeyword_case_invariant w w' hw hw' h

/-- table obligation: the generic word rule `\w[$#\w]*` with action `PROCESS_AS_KEYWORD` is in the table -/
theorem word_rule_present : defaultCfg.rules.contains wordRule = true := word_rule_in_table

/-- **maximal munch of the word rule** (`\w[$#\w]*`, `PROCESS_AS_KEYWORD`): at a `\w` character followed by a run of `[$#\w]`
characters and then a character outside `[$#\w]` or the end of the text, the first derivation ends exactly at the end of the run. -/
theorem word_rule_munch (E : Env) (p : Nat) (c0 : Cp) (run tail : List Cp)
    (h0 : E.s.toList.drop p = c0 :: (run ++ tail)) (hc0 : Gen.wordSet.mem c0 = true)
    (hrun : ∀ x ∈ run, wordTailSet.mem x = true) (htail : ∀ x, tail.head? = some x → wordTailSet.mem x = false) :
    ∃ more, derivs E wordRule.re ⟨p, []⟩ = ⟨p + 1 + run.length, []⟩ :: more :=
  word_rule_maximal_munch E p c0 run tail h0 hc0 hrun htail

/-- table obligation (evaluated over dictionaries × rule table): every dictionary entry passes the certificate `wordCert` or is one of the
listed exceptions; and none of the listed exceptions passes it -/
theorem dictionary_certified : (dictWords.all fun w => wordCert w || uncertified.contains w) = true := dict_words_certified
theorem exceptions_tight : (uncertified.all fun w => !wordCert w) = true := uncertified_tight

/-- **dictionary words are word-rule tokens** (universal in the text, the position and the delimiter): a dictionary word other than the
listed exceptions, in its dictionary spelling, before a delimiter and not right after a `.`, is matched by no earlier rule; the scan step is
the word rule's and covers exactly the word, so the token is `(is_keyword(w), w)`. -/
theorem dict_word (s : Array Cp) (p : Nat) (pre w rest : List Cp) (c : Cp)
    (hw : w ∈ dictWords) (hn : w ∉ uncertified)
    (h : s.toList = pre ++ w ++ c :: rest) (hp : pre.length = p) (hprev : pre.getLast? ≠ some 46) (hc : WordDelim c) :
    firstMatch (defaultCfg.env s) defaultCfg.rules p = some (.kw, p + w.length) :=
  dict_word_token s p pre w rest c hw hn h hp hprev hc

/-- … hence, at a scan position, the output of `lex` has the token `(is_keyword(w), w)` at that offset -/
theorem dict_word_in_lex_output (s : Array Cp) (p : Nat) (pre w rest : List Cp) (c : Cp)
    (hw : w ∈ dictWords) (hn : w ∉ uncertified)
    (h : s.toList = pre ++ w ++ c :: rest) (hp : pre.length = p) (hprev : pre.getLast? ≠ some 46) (hc : WordDelim c)
    (hb : ScanBoundary defaultCfg (defaultCfg.env s) p) :
    ∃ ts before after, lex defaultCfg s = .ok ts ∧ ts = before ++ ⟨isKeyword defaultCfg w, w⟩ :: after ∧
      textLen before = p ∧ ScanBoundary defaultCfg (defaultCfg.env s) (p + w.length) :=
  dict_word_in_output s p pre w rest c hw hn h hp hprev hc hb

/-- the same for any word (not only dictionary words) that passes the certificate, e.g. a lower-case spelling or an identifier -/
theorem certified_word (s : Array Cp) (p : Nat) (pre w rest : List Cp) (c : Cp)
    (h : s.toList = pre ++ w ++ c :: rest) (hp : pre.length = p) (hprev : pre.getLast? ≠ some 46)
    (hc : WordDelim c) (hcert : wordCert w = true) :
    firstMatch (defaultCfg.env s) defaultCfg.rules p = some (.kw, p + w.length) :=
  word_token s p pre w rest c h hp hprev hc hcert

/-- **the certificate ignores ASCII case** (every class of the generated table is closed under ASCII case, `rules_case_closed`) -/
theorem word_cert_case (w' w : Text) (h : w'.map asciiFold = w.map asciiFold) : wordCert w' = wordCert w :=
  wordCert_case w' w h

/-- **dictionary words in every casing** (universal in the text, the position, the delimiter and the casing): for a dictionary word `w`
other than the listed exceptions and any spelling `w'` equal to it up to the case of ASCII letters, before a delimiter and not right after
a `.`: the scan step is the word rule's over exactly `w'`, and `is_keyword` gives it the dictionary type of `w`. -/
theorem dict_word_any_casing (s : Array Cp) (p : Nat) (pre w w' rest : List Cp) (c : Cp)
    (hw : w ∈ dictWords) (hn : w ∉ uncertified) (hcase : w'.map asciiFold = w.map asciiFold)
    (h : s.toList = pre ++ w' ++ c :: rest) (hp : pre.length = p) (hprev : pre.getLast? ≠ some 46) (hc : WordDelim c) :
    firstMatch (defaultCfg.env s) defaultCfg.rules p = some (.kw, p + w'.length) ∧
      isKeyword defaultCfg w' = isKeyword defaultCfg w :=
  dict_word_any_case s p pre w w' rest c hw hn hcase h hp hprev hc

/-- … and at a scan position the output of `lex` has the token `(type of w, w')` at that offset -/
theorem dict_word_any_casing_in_lex_output (s : Array Cp) (p : Nat) (pre w w' rest : List Cp) (c : Cp)
    (hw : w ∈ dictWords) (hn : w ∉ uncertified) (hcase : w'.map asciiFold = w.map asciiFold)
    (h : s.toList = pre ++ w' ++ c :: rest) (hp : pre.length = p) (hprev : pre.getLast? ≠ some 46) (hc : WordDelim c)
    (hb : ScanBoundary defaultCfg (defaultCfg.env s) p) :
    ∃ ts before after, lex defaultCfg s = .ok ts ∧ ts = before ++ ⟨isKeyword defaultCfg w, w'⟩ :: after ∧
      textLen before = p ∧ ScanBoundary defaultCfg (defaultCfg.env s) (p + w'.length) :=
  dict_word_any_case_in_output s p pre w w' rest c hw hn hcase h hp hprev hc hb

/-- **evaluated on the concrete text `w;` only** (not universal): for the words with a dedicated rule the scan step at 0 yields that
rule's token — `CREATE` DDL; `FROM IN AS CASE USING VALUES JOIN END` Keyword; `LIKE ILIKE RLIKE REGEXP` Comparison — and `WITH;` is
taken by the word rule -/
theorem dedicated_rule_words :
    (dedicated.all fun e =>
      decide (firstMatch (defaultCfg.env (txt e.1 ++ [59]).toArray) defaultCfg.rules 0 = some (e.2.1, e.2.2))) = true :=
  dedicated_rules

/-! ## non-vacuity -/

/-- the hypotheses are satisfiable: the string literal `'a;b''c'` inside `x='a;b''c';` instantiates `single_quoted` -/
example : firstMatch (defaultCfg.env #[120, 61, 39, 97, 59, 98, 39, 39, 99, 39, 59]) defaultCfg.rules 2
    = some (.tok T.StringSingle, 2 + 1 + 6 + 1) :=
  single_quoted #[120, 61, 39, 97, 59, 98, 39, 39, 99, 39, 59] 2 [120, 61] [97, 59, 98, 39, 39, 99] [59] rfl rfl
    (.chr (by decide) (by decide) (by decide) (.chr (by decide) (by decide) (by decide) (.chr (by decide) (by decide) (by decide)
      (.dbl (.chr (by decide) (by decide) (by decide) .nil))))) (by decide)

/-- `/*x;*/` followed by more text instantiates `block_comment` -/
example : firstMatch (defaultCfg.env #[32, 47, 42, 120, 59, 42, 47, 32, 49]) defaultCfg.rules 1
    = some (.tok T.CommentMultiline, 1 + 2 + 2 + 2) :=
  block_comment #[32, 47, 42, 120, 59, 42, 47, 32, 49] 1 [32] [120, 59] [32, 49] rfl rfl (by decide) (by decide) (by decide)

/-- `-- y;` + `\n` instantiates `line_comment` -/
example : firstMatch (defaultCfg.env #[45, 45, 32, 121, 59, 10, 49]) defaultCfg.rules 0
    = some (.tok T.CommentSingle, 0 + 2 + 3 + 1) :=
  line_comment #[45, 45, 32, 121, 59, 10, 49] 0 [] [45, 45] [32, 121, 59] [10] [49] (Or.inl rfl) rfl rfl (by decide) (by decide)
    (Or.inr (Or.inr (Or.inl rfl)))

/-- executing the model on
``select 'a;b''c' /*x;*/ -- y;⏎ "q;" `n``m` /*+ h */ --+ z␍⏎# w``
gives one token per region, of the expected types (and nothing inside a region is split at `;`) -/
example : (lex defaultCfg #[115, 101, 108, 101, 99, 116, 32, 39, 97, 59, 98, 39, 39, 99, 39, 32, 47, 42, 120, 59, 42, 47, 32,
      45, 45, 32, 121, 59, 10, 32, 34, 113, 59, 34, 32, 96, 110, 96, 96, 109, 96, 32, 47, 42, 43, 32, 104, 32, 42, 47, 32,
      45, 45, 43, 32, 122, 13, 10, 35, 32, 119]).toOption.map (fun ts => ts.map (·.tt)) =
    some [T.DML, T.Whitespace, T.StringSingle, T.Whitespace, T.CommentMultiline, T.Whitespace, T.CommentSingle, T.Whitespace,
      T.StringSymbol, T.Whitespace, T.Name, T.Whitespace, ["Comment", "Multiline", "Hint"], T.Whitespace,
      ["Comment", "Single", "Hint"], T.CommentSingle] := by decide +kernel

/-- `$a$x;$a$` followed by `;` instantiates `dollar_quoted` -/
example : firstMatch (defaultCfg.env #[32, 36, 97, 36, 120, 59, 36, 97, 36, 59]) defaultCfg.rules 1
    = some (.tok T.Literal, 1 + (1 + 2) + 2 + (1 + 2)) :=
  dollar_quoted #[32, 36, 97, 36, 120, 59, 36, 97, 36, 59] 1 [32] [97] [120, 59] [59] rfl rfl (by decide +kernel)
    (Or.inr ⟨97, [], rfl, by decide +kernel, by simp⟩) (by decide) (by decide +kernel)

/-- executing the model: `$a$x;$A$` is one `Literal` token (the closing tag is matched case-insensitively), `$$;$$` likewise -/
example : (lex defaultCfg #[36, 97, 36, 120, 59, 36, 65, 36, 32, 36, 36, 59, 36, 36]).toOption.map (fun ts => ts.map (·.tt)) =
    some [T.Literal, T.Whitespace, T.Literal] := by decide +kernel

/-- `SELECT` in `x SELECT;` instantiates `dict_word` (position 2, after a blank, before `;`) and classifies as DML;
`select` classifies like `SELECT` by `keyword_case_invariant`, and `dict_word_any_casing` covers `sElEcT` -/
example : firstMatch (defaultCfg.env #[120, 32, 83, 69, 76, 69, 67, 84, 59]) defaultCfg.rules 2 = some (.kw, 2 + 6) :=
  dict_word #[120, 32, 83, 69, 76, 69, 67, 84, 59] 2 [120, 32] [83, 69, 76, 69, 67, 84] [] 59 (by decide +kernel) (by decide +kernel)
    rfl rfl (by decide) (by refine ⟨by decide +kernel, by decide +kernel, by decide, by decide⟩)

example : isKeyword defaultCfg [115, 101, 108, 101, 99, 116] = T.DML := by
  rw [keyword_case_invariant [83, 69, 76, 69, 67, 84] [115, 101, 108, 101, 99, 116] (by decide) (by decide) (by decide)]
  decide +kernel

example : firstMatch (defaultCfg.env #[115, 69, 108, 69, 99, 84, 59]) defaultCfg.rules 0 = some (.kw, 0 + 6) ∧
    isKeyword defaultCfg [115, 69, 108, 69, 99, 84] = isKeyword defaultCfg [83, 69, 76, 69, 67, 84] :=
  dict_word_any_casing #[115, 69, 108, 69, 99, 84, 59] 0 [] [83, 69, 76, 69, 67, 84] [115, 69, 108, 69, 99, 84] [] 59
    (by decide +kernel) (by decide +kernel) (by decide) rfl rfl (by decide)
    (by refine ⟨by decide +kernel, by decide +kernel, by decide, by decide⟩)

end Sql.C14
