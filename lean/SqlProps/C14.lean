import SqlModel.Default
import SqlProofs.LexRegions
import SqlProofs.LexDollar
import SqlProofs.LexScan
import SqlProofs.LexWords
import SqlProofs.LexDictWords
import SqlProofs.LexDedicatedWords
import SqlProofs.LexDeadEntries
import SqlProofs.LexTwoWords
import SqlProofs.LexRule16
/-!
# C14 — opaque regions are one token (character level)

For every text `s` and every position `p`: if the text from `p` on reads `opener body closer rest`, with a well-formed `body`
and a `rest` that cannot prolong the region, then the scan step of the lexer at `p` (`firstMatch`, the inner loop of
`Lexer.get_tokens` over the regenerated rule table) emits exactly one token of the region's type that ends right after the
closer — whatever precedes `p`, whatever the body contains (`;`, keywords, other openers, line breaks where allowed).

Each theorem is tied to the generated table by one obligation `…_rule_first` (SqlProofs/LexRegions.lean, LexDollar.lean; a computation
`firstWith pre rule defaultCfg.rules = true`): the table contains the rule `⟨template, action⟩`, found **by content** — no rule index and no
atom number occurs anywhere — and every rule before its first occurrence cannot start at the opener's first character (or is the hint rule
sharing the opener, excluded by a direct argument).  So adding, removing or reordering rules that cannot start at the opener leaves every
obligation intact, while a change of the region's regular expression or token type breaks it.  Code points are `Nat`; classes such as
`[\s\S]`, `.` and `[^']` contain exactly the code points ≤ 0x10FFFF, hence the bound on body characters.

Vocabulary (defined in SqlProofs/Lex/Basic.lean and SqlProofs/Lex/Comments.lean):
* `QBody q noBs body` — `body` is a sequence of units, each a doubled quote `q q` or one code point ≤ 0x10FFFF other than `q`
  (and, when `noBs`, other than the backslash 92);
* `EolCtx close rest` — `close` is `\r\n`, or `\r` not followed by `\n`, or `\n`, or empty at the end of the text;
* `LineOpen op` — `op` is `--` or `# `;
* `DollarTag tag` — `tag` is empty, or one character of `[_A-ZÀ-Ü]` (case-insensitively) followed by `\w` characters.
-/
/-!
## Hypotheses audit (C14) — every hypothesis that restricts the input, why, and an excluded input with the real lexer's behaviour

Regions (`block_comment` … `dollar_quoted`; the same hypotheses are bundled in `Region`, used by C05):
* `body.head? ≠ some 43` (comments): a body starting with `+` makes it a *hint* comment. `/*+x*/` → `Comment.Multiline.Hint`, `--+x⏎` → `Comment.Single.Hint`.
* `¬ [42,47] <:+: body` (block comments): the token ends at the first `*/`. `/*a*/b*/` → `/*a*/`, then `b`, `*`, `/`.
* `∀ c ∈ body, c ≤ 1114111`: model artefact — `Cp` is `Nat`, the classes `[\s\S]`, `.`, `[^']` are generated as ranges up to 0x10FFFF. No Python `str` violates it.
* `∀ c ∈ body, c ≠ 13 ∧ c ≠ 10` (line comments): the comment ends at the first line break. `--a␍b⏎` → `--a␍`, then `b`.
* `EolCtx close rest`: `close = [13]` needs `rest` not starting with `⏎` (`--a␍⏎b` → token `--a␍⏎`); `close = []` needs `rest = []` (otherwise the comment continues).
* `LineOpen op`: `# ` needs the blank. `#x⏎` → `Operator #`, `Name x`.
* `QBody q true body` — units `qq` or one code point other than `q` and `\` (strings): a backslash starts the alternative `\q`, so the region is not the token. `'a\'b' x` → ONE string `'a\'b'`, not `'a\'`.  (`QBody q false` for names allows the backslash: `` `a\` `` is a Name.)
* `rest.head? ≠ some q`: a following quote continues the literal. `'a''b'` → one string `'a''b'`.
* dollar: `hlb` (the opening `$` is not preceded by a word character, `"` or `$`): `a$$x$$` → `Name a$$x$$`; `DollarTag tag`: `$1$x$1$` → `Name.Placeholder $1`, `Error $`, `Name x$1$`; `hbody` (the delimiter does not recur, case-insensitively, inside the body): `$a$ x $A$ y $a$` → `Literal $a$ x $A$`, the rest separately.
Whole-lex statements (`lex_emits_region`, `…_in_output`, `…_in_lex_output`):
* `ScanBoundary … p`: the region theorems speak about the scan step *at* `p`; if `p` is inside another token no step happens there. `'/*x*/'` → one `String.Single`; position 1 is not a scan position although `firstMatch` at 1 would give a comment.
Keywords (`dict_word`, `dict_word_any_casing`, `certified_word`, `unlisted_word_is_name`, `dedicated_word…`, `double_precision`):
* `pre.getLast? ≠ some 46`: after a `.` the rule `(?<=\.)[A-ZÀ-Ü]\w*` makes any word a Name. `x.select;` → `Name select`; `.double precision` → `Name double`, `Keyword precision`.  NOT needed for `kw16_word` (their rule comes first): `x.in(1)` → `Keyword in`.
* `WordDelim c`, four clauses: (1) `c ∉ [$#\w]` — maximal munch: `selectx;` → `Name selectx`; `inx;` → `Name inx`. (2) `c` not whitespace — multi-word rules and `(?=\s*\.)` look past blanks: `order  by;` → ONE `Keyword 'order  by'`, `not null;` → one Keyword, `select .x` → `Name select`; needed uniformly, though not for every word (it is dropped for `kw16_word`, whose rule has only `\b`). (3) `c ≠ (` — `[A-ZÀ-Ü]\w*(?=\()` comes before the word rule and before every dedicated rule except the first: `select(1)` → `Name select`, `like(x)` → `Name like`; but `in(1)` → `Keyword in` (`kw16_word`). (4) `c ≠ .` — `select.x` → `Name select`, `join.x` → `Name join`.
* `WordDelim2 c` adds `c ≠ '`: needed only for `WITH` (`with' time zone 'x'` → one `Keyword.TZCast`); `dedicated_word_plain` drops it for the other thirteen words (`like';` → `Operator.Comparison like`, `Error '`).
* `wordCert w` / `w ∉ uncertified` / membership in `dedicatedWords`, `kw16Words`: decidable side conditions, discharged by evaluation over the generated tables; the excluded words are exactly those treated by the other theorems.
* `double_precision`: `tail` empty or starting with a non-word character is the rule's `\b`: `double precisionx` → `Keyword double`, `Name precisionx`.
* `dictsLookup (pyUpper w) Gen.dicts = none` (`unlisted_word_is_name`): stated with `str.upper()`, so non-ASCII spellings are classified as CPython does — `ſelect` is `Keyword.DML`, not a Name.
Dropped in this round: the ASCII hypotheses of `keyword_case_invariant` (two texts equal up to ASCII case may contain any other code points).
No input restriction: `keyword_case_invariant`, `word_cert_case`, `word_rule_munch` (its hypotheses describe the run), `dead_dictionary_entries`, `boundary_*`, all table obligations.
-/

namespace Sql.C14

/-- **block comment.** `/*body*/` with a body that does not start with `+` and does not contain `*/` is one `Comment.Multiline` token. -/
theorem block_comment (s : Array Cp) (p : Nat) (pre body rest : List Cp)
    (h : s.toList = pre ++ [47, 42] ++ body ++ [42, 47] ++ rest) (hp : pre.length = p)
    (hplus : body.head? ≠ some 43) (hno : ¬ [42, 47] <:+: body) (hle : ∀ c ∈ body, c ≤ 1114111) :
    firstMatch (defaultCfg.env s) defaultCfg.rules p = some (.tok T.CommentMultiline, p + 2 + body.length + 2) :=
  block_comment_token s p pre body rest h hp hplus hno hle

/-- **hint block comment.** `/*+body*/` with a body that does not contain `*/` is one `Comment.Multiline.Hint` token. -/
theorem block_hint (s : Array Cp) (p : Nat) (pre body rest : List Cp)
    (h : s.toList = pre ++ [47, 42, 43] ++ body ++ [42, 47] ++ rest) (hp : pre.length = p)
    (hno : ¬ [42, 47] <:+: body) (hle : ∀ c ∈ body, c ≤ 1114111) :
    firstMatch (defaultCfg.env s) defaultCfg.rules p
      = some (.tok ["Comment", "Multiline", "Hint"], p + 3 + body.length + 2) :=
  block_hint_token s p pre body rest h hp hno hle

/-- **line comment.** `--body EOL` or `# body EOL`, body without `\r`/`\n` and not starting with `+`, is one `Comment.Single`
token that includes the line break (`\r\n`, a lone `\r`, `\n`) or ends at the end of the text. -/
theorem line_comment (s : Array Cp) (p : Nat) (pre op body close rest : List Cp) (hop : LineOpen op)
    (h : s.toList = pre ++ op ++ body ++ close ++ rest) (hp : pre.length = p)
    (hplus : body.head? ≠ some 43) (hbody : ∀ c ∈ body, c ≠ 13 ∧ c ≠ 10 ∧ c ≤ 1114111) (hctx : EolCtx close rest) :
    firstMatch (defaultCfg.env s) defaultCfg.rules p
      = some (.tok T.CommentSingle, p + 2 + body.length + close.length) :=
  line_comment_token s p pre op body close rest hop h hp hplus hbody hctx

/-- **hint line comment.** `--+body EOL` or `# +body EOL` is one `Comment.Single.Hint` token. -/
theorem line_hint (s : Array Cp) (p : Nat) (pre op body close rest : List Cp) (hop : LineOpen op)
    (h : s.toList = pre ++ op ++ [43] ++ body ++ close ++ rest) (hp : pre.length = p)
    (hbody : ∀ c ∈ body, c ≠ 13 ∧ c ≠ 10 ∧ c ≤ 1114111) (hctx : EolCtx close rest) :
    firstMatch (defaultCfg.env s) defaultCfg.rules p
      = some (.tok ["Comment", "Single", "Hint"], p + 3 + body.length + close.length) :=
  line_hint_token s p pre op body close rest hop h hp hbody hctx

/-- **single-quoted string.** `'body'`, body made of `''` pairs and code points other than `'` and `\`, not followed by another `'`,
is one `String.Single` token. -/
theorem single_quoted (s : Array Cp) (p : Nat) (pre body rest : List Cp)
    (h : s.toList = pre ++ [39] ++ body ++ [39] ++ rest) (hp : pre.length = p)
    (hb : QBody 39 true body) (hr : rest.head? ≠ some 39) :
    firstMatch (defaultCfg.env s) defaultCfg.rules p = some (.tok T.StringSingle, p + 1 + body.length + 1) :=
  single_quoted_token s p pre body rest h hp hb hr

/-- **double-quoted string.** `"body"`, body made of `""` pairs and code points other than `"` and `\`, not followed by another `"`,
is one `String.Symbol` token. -/
theorem double_quoted (s : Array Cp) (p : Nat) (pre body rest : List Cp)
    (h : s.toList = pre ++ [34] ++ body ++ [34] ++ rest) (hp : pre.length = p)
    (hb : QBody 34 true body) (hr : rest.head? ≠ some 34) :
    firstMatch (defaultCfg.env s) defaultCfg.rules p = some (.tok T.StringSymbol, p + 1 + body.length + 1) :=
  double_quoted_token s p pre body rest h hp hb hr

/-- **backtick name.** `` `body` ``, body made of doubled backticks and code points other than the backtick (backslash allowed),
not followed by another backtick, is one `Name` token. -/
theorem backtick_name (s : Array Cp) (p : Nat) (pre body rest : List Cp)
    (h : s.toList = pre ++ [96] ++ body ++ [96] ++ rest) (hp : pre.length = p)
    (hb : QBody 96 false body) (hr : rest.head? ≠ some 96) :
    firstMatch (defaultCfg.env s) defaultCfg.rules p = some (.tok T.Name, p + 1 + body.length + 1) :=
  backtick_name_token s p pre body rest h hp hb hr

/-- **acute-accent name.** `´body´` likewise is one `Name` token. -/
theorem acute_name (s : Array Cp) (p : Nat) (pre body rest : List Cp)
    (h : s.toList = pre ++ [180] ++ body ++ [180] ++ rest) (hp : pre.length = p)
    (hb : QBody 180 false body) (hr : rest.head? ≠ some 180) :
    firstMatch (defaultCfg.env s) defaultCfg.rules p = some (.tok T.Name, p + 1 + body.length + 1) :=
  acute_name_token s p pre body rest h hp hb hr

/-- **dollar-quoted literal.** `$tag$body$tag$` is one `Literal` token, provided the opening `$` is not preceded by a word character,
`"` or `$` (the rule's look-behind), the tag is well formed, and the delimiter `$tag$` does not occur — compared case-insensitively, as
the back-reference of the IGNORECASE rule does — at any position starting inside the body. -/
theorem dollar_quoted (s : Array Cp) (p : Nat) (pre tag body rest : List Cp)
    (h : s.toList = pre ++ [36] ++ tag ++ [36] ++ body ++ [36] ++ tag ++ [36] ++ rest) (hp : pre.length = p)
    (hlb : ∀ c, pre.getLast? = some c → Gen.wordSet.mem c = false ∧ c ≠ 34 ∧ c ≠ 36)
    (htag : DollarTag tag) (hle : ∀ c ∈ body, c ≤ 1114111)
    (hbody : ∀ i, i < body.length →
      (((body ++ ([36] ++ tag ++ [36] ++ rest)).drop i).take (tag.length + 2)).map sreLower
        ≠ ([36] ++ tag ++ [36]).map sreLower) :
    firstMatch (defaultCfg.env s) defaultCfg.rules p
      = some (.tok T.Literal, p + (tag.length + 2) + body.length + (tag.length + 2)) :=
  dollar_quoted_token s p pre tag body rest h hp hlb htag hle hbody

/-! ## from one scan step to the output of `lexer.tokenize`

`ScanBoundary defaultCfg (defaultCfg.env s) p` — `p` is a scan position of the lexer on `s`: 0, or the end of the token emitted at a scan
position (`ScanBoundary.zero`, `ScanBoundary.next`; `scanNext` is the end of the match, or `p + 1` for an Error token).
`textLen before` is the number of characters the tokens `before` spell. -/

/-- position 0 is a scan position, and scan positions are closed under the emitted tokens -/
theorem boundary_zero (s : Array Cp) : ScanBoundary defaultCfg (defaultCfg.env s) 0 := ScanBoundary.zero

theorem boundary_next (s : Array Cp) (p : Nat) (hb : ScanBoundary defaultCfg (defaultCfg.env s) p) (hlt : p < s.size) :
    ScanBoundary defaultCfg (defaultCfg.env s) (scanNext defaultCfg (defaultCfg.env s) p) := ScanBoundary.next p hb hlt

/-- scan positions are exactly the offsets at which the tokens of the output start (plus the end of the text) -/
theorem boundary_iff_token_offset (s : Array Cp) (ts : List Tok) (h : lex defaultCfg s = .ok ts) (p : Nat) :
    ScanBoundary defaultCfg (defaultCfg.env s) p ↔ ∃ before after, ts = before ++ after ∧ textLen before = p :=
  boundary_iff_offset s ts h p

/-- **a scan step is a token of the output.** If `p` is a scan position and the scan step at `p` yields `(ty, e)` — which is what each
region theorem above establishes — then `lex defaultCfg s` contains the token of type `ty` and value `s[p..e)` immediately after tokens
that spell `s[0..p)`, and `e` is again a scan position. -/
theorem lex_emits_region (s : Array Cp) (p : Nat) (ty : TType) (e : Nat)
    (hb : ScanBoundary defaultCfg (defaultCfg.env s) p)
    (hfm : firstMatch (defaultCfg.env s) defaultCfg.rules p = some (.tok ty, e)) :
    ∃ ts before after, lex defaultCfg s = .ok ts ∧ ts = before ++ ⟨ty, (s.extract p e).toList⟩ :: after ∧
      textLen before = p ∧ ScanBoundary defaultCfg (defaultCfg.env s) e :=
  lex_emits s p ty e hb hfm

/-- the composition, for single-quoted strings: at a scan position, `'body'` (well-formed body, not followed by `'`) is one
`String.Single` token **of the token list `lex` returns**, with exactly the region as its value, and the position after the closing quote is
the next scan position. -/
theorem single_quoted_in_output (s : Array Cp) (p : Nat) (pre body rest : List Cp)
    (h : s.toList = pre ++ [39] ++ body ++ [39] ++ rest) (hp : pre.length = p)
    (hb : ScanBoundary defaultCfg (defaultCfg.env s) p) (hq : QBody 39 true body) (hr : rest.head? ≠ some 39) :
    ∃ ts before after, lex defaultCfg s = .ok ts ∧ ts = before ++ ⟨T.StringSingle, [39] ++ body ++ [39]⟩ :: after ∧
      textLen before = p ∧ ScanBoundary defaultCfg (defaultCfg.env s) (p + ([39] ++ body ++ [39]).length) := by
  refine region_in_lex s p pre ([39] ++ body ++ [39]) rest T.StringSingle (by simpa using h) hp hb ?_
  have := single_quoted s p pre body rest h hp hq hr
  rw [this]; simp; omega

/-- the same for block comments: after any prefix that ends at a scan position, `/*body*/` is one `Comment.Multiline` token of the output -/
theorem block_comment_in_output (s : Array Cp) (p : Nat) (pre body rest : List Cp)
    (h : s.toList = pre ++ [47, 42] ++ body ++ [42, 47] ++ rest) (hp : pre.length = p)
    (hb : ScanBoundary defaultCfg (defaultCfg.env s) p)
    (hplus : body.head? ≠ some 43) (hno : ¬ [42, 47] <:+: body) (hle : ∀ c ∈ body, c ≤ 1114111) :
    ∃ ts before after, lex defaultCfg s = .ok ts ∧ ts = before ++ ⟨T.CommentMultiline, [47, 42] ++ body ++ [42, 47]⟩ :: after ∧
      textLen before = p ∧ ScanBoundary defaultCfg (defaultCfg.env s) (p + ([47, 42] ++ body ++ [42, 47]).length) := by
  refine region_in_lex s p pre ([47, 42] ++ body ++ [42, 47]) rest T.CommentMultiline (by simpa using h) hp hb ?_
  have := block_comment s p pre body rest h hp hplus hno hle
  rw [this]; simp; omega

/-! ## keywords classify by table

Vocabulary (SqlProofs/LexWords.lean, SqlProofs/LexDictWords.lean): `asciiFold` = ASCII upper-casing of a code point; `wordTailSet` = `[$#\w]`;
`WordDelim c` = `c` is not in `[$#\w]`, not `str.isspace`, not `(` and not `.`; `dictWords` = all keys of the generated keyword dictionaries;
`uncertified` = the 19 entries listed there (words with a dedicated earlier rule, `WITH`, and four entries that are not single words). -/

/-- **case invariance.** `Lexer.is_keyword` gives the same token type to two texts that differ only in the case of ASCII letters (other
code points allowed, identical in both; `str.upper` on ASCII is checked against the generated table, all 128 entries). -/
theorem keyword_case_invariant (w w' : Text)
    (h : w'.map asciiFold = w.map asciiFold) : isKeyword defaultCfg w' = isKeyword defaultCfg w :=
  isKeyword_case_invariant w w' h

/-- table obligation: the generic word rule `\w[$#\w]*` with action `PROCESS_AS_KEYWORD` is in the table -/
theorem word_rule_present : defaultCfg.rules.contains wordRule = true := word_rule_in_table

/-- **maximal munch of the word rule** (`\w[$#\w]*`, `PROCESS_AS_KEYWORD`): at a `\w` character followed by a run of `[$#\w]`
characters and then a character outside `[$#\w]` or the end of the text, the first derivation ends exactly at the end of the run. -/
theorem word_rule_munch (E : Env) (p : Nat) (c0 : Cp) (run tail : List Cp)
    (h0 : E.s.toList.drop p = c0 :: (run ++ tail)) (hc0 : Gen.wordSet.mem c0 = true)
    (hrun : ∀ x ∈ run, wordTailSet.mem x = true) (htail : ∀ x, tail.head? = some x → wordTailSet.mem x = false) :
    ∃ more, derivs E wordRule.re ⟨p, []⟩ = ⟨p + 1 + run.length, []⟩ :: more :=
  word_rule_maximal_munch E p c0 run tail h0 hc0 hrun htail

/-- table obligation (evaluated over dictionaries × rule table): every dictionary entry passes the certificate `wordCert` or is one of the
listed exceptions; and none of the listed exceptions passes it -/
theorem dictionary_certified : (dictWords.all fun w => wordCert w || uncertified.contains w) = true := dict_words_certified
theorem exceptions_tight : (uncertified.all fun w => !wordCert w) = true := uncertified_tight

/-- **dictionary words are word-rule tokens** (universal in the text, the position and the delimiter): a dictionary word other than the
listed exceptions, in its dictionary spelling, before a delimiter and not right after a `.`, is matched by no earlier rule; the scan step is
the word rule's and covers exactly the word, so the token is `(is_keyword(w), w)`. -/
theorem dict_word (s : Array Cp) (p : Nat) (pre w rest : List Cp) (c : Cp)
    (hw : w ∈ dictWords) (hn : w ∉ uncertified)
    (h : s.toList = pre ++ w ++ c :: rest) (hp : pre.length = p) (hprev : pre.getLast? ≠ some 46) (hc : WordDelim c) :
    firstMatch (defaultCfg.env s) defaultCfg.rules p = some (.kw, p + w.length) :=
  dict_word_token s p pre w rest c hw hn h hp hprev hc

/-- … hence, at a scan position, the output of `lex` has the token `(is_keyword(w), w)` at that offset -/
theorem dict_word_in_lex_output (s : Array Cp) (p : Nat) (pre w rest : List Cp) (c : Cp)
    (hw : w ∈ dictWords) (hn : w ∉ uncertified)
    (h : s.toList = pre ++ w ++ c :: rest) (hp : pre.length = p) (hprev : pre.getLast? ≠ some 46) (hc : WordDelim c)
    (hb : ScanBoundary defaultCfg (defaultCfg.env s) p) :
    ∃ ts before after, lex defaultCfg s = .ok ts ∧ ts = before ++ ⟨isKeyword defaultCfg w, w⟩ :: after ∧
      textLen before = p ∧ ScanBoundary defaultCfg (defaultCfg.env s) (p + w.length) :=
  dict_word_in_output s p pre w rest c hw hn h hp hprev hc hb

/-- the same for any word (not only dictionary words) that passes the certificate, e.g. a lower-case spelling or an identifier -/
theorem certified_word (s : Array Cp) (p : Nat) (pre w rest : List Cp) (c : Cp)
    (h : s.toList = pre ++ w ++ c :: rest) (hp : pre.length = p) (hprev : pre.getLast? ≠ some 46)
    (hc : WordDelim c) (hcert : wordCert w = true) :
    firstMatch (defaultCfg.env s) defaultCfg.rules p = some (.kw, p + w.length) :=
  word_token s p pre w rest c h hp hprev hc hcert

/-- **the certificate ignores ASCII case** (every class of the generated table is closed under ASCII case, `rules_case_closed`) -/
theorem word_cert_case (w' w : Text) (h : w'.map asciiFold = w.map asciiFold) : wordCert w' = wordCert w :=
  wordCert_case w' w h

/-- **dictionary words in every casing** (universal in the text, the position, the delimiter and the casing): for a dictionary word `w`
other than the listed exceptions and any spelling `w'` equal to it up to the case of ASCII letters, before a delimiter and not right after
a `.`: the scan step is the word rule's over exactly `w'`, and `is_keyword` gives it the dictionary type of `w`. -/
theorem dict_word_any_casing (s : Array Cp) (p : Nat) (pre w w' rest : List Cp) (c : Cp)
    (hw : w ∈ dictWords) (hn : w ∉ uncertified) (hcase : w'.map asciiFold = w.map asciiFold)
    (h : s.toList = pre ++ w' ++ c :: rest) (hp : pre.length = p) (hprev : pre.getLast? ≠ some 46) (hc : WordDelim c) :
    firstMatch (defaultCfg.env s) defaultCfg.rules p = some (.kw, p + w'.length) ∧
      isKeyword defaultCfg w' = isKeyword defaultCfg w :=
  dict_word_any_case s p pre w w' rest c hw hn hcase h hp hprev hc

/-- … and at a scan position the output of `lex` has the token `(type of w, w')` at that offset -/
theorem dict_word_any_casing_in_lex_output (s : Array Cp) (p : Nat) (pre w w' rest : List Cp) (c : Cp)
    (hw : w ∈ dictWords) (hn : w ∉ uncertified) (hcase : w'.map asciiFold = w.map asciiFold)
    (h : s.toList = pre ++ w' ++ c :: rest) (hp : pre.length = p) (hprev : pre.getLast? ≠ some 46) (hc : WordDelim c)
    (hb : ScanBoundary defaultCfg (defaultCfg.env s) p) :
    ∃ ts before after, lex defaultCfg s = .ok ts ∧ ts = before ++ ⟨isKeyword defaultCfg w, w'⟩ :: after ∧
      textLen before = p ∧ ScanBoundary defaultCfg (defaultCfg.env s) (p + w'.length) :=
  dict_word_any_case_in_output s p pre w w' rest c hw hn hcase h hp hprev hc hb

/-- **evaluated on the concrete text `w;` only** (not universal): for the words with a dedicated rule the scan step at 0 yields that
rule's token — `CREATE` DDL; `FROM IN AS CASE USING VALUES JOIN END` Keyword; `LIKE ILIKE RLIKE REGEXP` Comparison — and `WITH;` is
taken by the word rule -/
theorem dedicated_rule_words :
    (dedicated.all fun e =>
      decide (firstMatch (defaultCfg.env (txt e.1 ++ [59]).toArray) defaultCfg.rules 0 = some (e.2.1, e.2.2))) = true :=
  dedicated_rules

/-! ## the remaining dictionary entries: dedicated rules, `WITH`, and the dead keys

`dedCert w` (SqlProofs/LexDedicated.lean) computes from the generated table the action of the first rule that can match `w` before a
delimiter and the end of its first derivation (exactly, `aexact`); `WordDelim2 c` = `WordDelim c` and `c` is not `'`. -/

/-- table obligation (evaluated): for each of the fourteen single-word entries not covered by `dict_word`, the rule that takes it and that
its first match is the whole word -/
theorem dedicated_table :
    (dedicatedWords.all fun e => wordShape (txt e.1) && (dedCert (txt e.1) == some (e.2, (txt e.1).length))) = true :=
  dedicated_cert

/-- **words taken by a dedicated rule, in every casing** (universal in text, position, delimiter, casing): `CASE IN VALUES USING FROM AS`
(rule `(CASE|IN|…)\b`), `JOIN`, `END`, `CREATE`, `LIKE ILIKE RLIKE`, `REGEXP` — and `WITH`, taken by the word rule once the delimiter is
not `'`: one scan step with the listed action over exactly the spelling `w'`. -/
theorem dedicated_word (name : String) (act : Action) (hmem : (name, act) ∈ dedicatedWords)
    (s : Array Cp) (p : Nat) (pre w' rest : List Cp) (c : Cp)
    (hcase : w'.map asciiFold = (txt name).map asciiFold)
    (h : s.toList = pre ++ w' ++ c :: rest) (hp : pre.length = p) (hprev : pre.getLast? ≠ some 46) (hc : WordDelim2 c) :
    firstMatch (defaultCfg.env s) defaultCfg.rules p = some (act, p + w'.length) :=
  dedicated_word_any_casing name act hmem s p pre w' rest c hcase h hp hprev hc

/-- the same with the plain delimiter condition `WordDelim` (a following `'` allowed), for every listed word except `WITH`
(`WITH'` starts the rule `(AT|WITH')\s+TIME\s+ZONE…`) -/
theorem dedicated_word_plain (name : String) (act : Action) (hmem : (name, act) ∈ dedicatedWords) (hne : name ≠ "WITH")
    (s : Array Cp) (p : Nat) (pre w' rest : List Cp) (c : Cp)
    (hcase : w'.map asciiFold = (txt name).map asciiFold)
    (h : s.toList = pre ++ w' ++ c :: rest) (hp : pre.length = p) (hprev : pre.getLast? ≠ some 46) (hc : WordDelim c) :
    firstMatch (defaultCfg.env s) defaultCfg.rules p = some (act, p + w'.length) :=
  dedicated_word_any_casing1 name act hmem hne s p pre w' rest c hcase h hp hprev hc

/-- **`CASE IN VALUES USING FROM AS` in their true context**: their rule `(CASE|IN|VALUES|USING|FROM|AS)\b` precedes every rule with a
look-around, so: every casing, after anything (also right after `.`), before any character that is not a word character — a blank, `(`,
`.`, `'`, `;` … (the rule's own `\b`): one `Keyword` token over exactly the word. -/
theorem kw16_word (name : String) (hmem : name ∈ kw16Words) (s : Array Cp) (p : Nat) (pre w' rest : List Cp) (c : Cp)
    (hcase : w'.map asciiFold = (txt name).map asciiFold)
    (h : s.toList = pre ++ w' ++ c :: rest) (hp : pre.length = p) (hc : Gen.wordSet.mem c = false) :
    firstMatch (defaultCfg.env s) defaultCfg.rules p = some (.tok T.Keyword, p + w'.length) :=
  kw16_word_any_casing name hmem s p pre w' rest c hcase h hp hc

/-- **the multi-word key `DOUBLE PRECISION`** (rule `DOUBLE\s+PRECISION\b`, located by content, `double_precision_rule_first`): every
casing of both words, any non-empty run of `str.isspace` characters between them, not right after a `.`, followed by the end of the text or
a non-word character: ONE token covering `DOUBLE<whitespace>PRECISION`, of the rule's type `Name.Builtin` (the dictionary says `Keyword`;
that entry is dead, `dead_dictionary_entries`). -/
theorem double_precision (s : Array Cp) (p : Nat) (pre w1 ws w2 tail : List Cp)
    (h : s.toList = pre ++ w1 ++ ws ++ w2 ++ tail) (hp : pre.length = p) (hprev : pre.getLast? ≠ some 46)
    (hw1 : w1.map asciiFold = (txt "DOUBLE").map asciiFold) (hw2 : w2.map asciiFold = (txt "PRECISION").map asciiFold)
    (hws : ws ≠ []) (hsp : ∀ y ∈ ws, isSpace y = true)
    (htail : ∀ y, tail.head? = some y → Gen.wordSet.mem y = false) :
    firstMatch (defaultCfg.env s) defaultCfg.rules p = some (.tok T.Builtin, p + w1.length + ws.length + w2.length) :=
  double_precision_token s p pre w1 ws w2 tail h hp hprev hw1 hw2 hws hsp htail

/-- … as one token of the output of `lex`, of the type listed in `word_types` -/
theorem dedicated_word_in_lex_output (name : String) (act : Action) (hmem : (name, act) ∈ dedicatedWords)
    (s : Array Cp) (p : Nat) (pre w' rest : List Cp) (c : Cp)
    (hcase : w'.map asciiFold = (txt name).map asciiFold)
    (h : s.toList = pre ++ w' ++ c :: rest) (hp : pre.length = p) (hprev : pre.getLast? ≠ some 46) (hc : WordDelim2 c)
    (hb : ScanBoundary defaultCfg (defaultCfg.env s) p) :
    ∃ ts before after, lex defaultCfg s = .ok ts ∧
      ts = before ++ ⟨tokType defaultCfg act (txt name), w'⟩ :: after ∧
      textLen before = p ∧ ScanBoundary defaultCfg (defaultCfg.env s) (p + w'.length) :=
  dedicated_word_in_output name act hmem s p pre w' rest c hcase h hp hprev hc hb

/-- **which type each of these words gets** `(word, type emitted, type of the first dictionary listing it)`: they differ exactly for
`LIKE`, `ILIKE`, `RLIKE`, `REGEXP` (dedicated rule: `Operator.Comparison`; dictionary: `Keyword`) — for those the clause "or by an earlier
dedicated lexical rule" of the property is what applies -/
theorem word_types :
    dedicatedWords.map (fun e => (e.1, tokType defaultCfg e.2 (txt e.1), isKeyword defaultCfg (txt e.1))) =
      [("CREATE", T.DDL, T.DDL), ("FROM", T.Keyword, T.Keyword), ("JOIN", T.Keyword, T.Keyword),
       ("LIKE", T.Comparison, T.Keyword), ("IN", T.Keyword, T.Keyword), ("END", T.Keyword, T.Keyword),
       ("AS", T.Keyword, T.Keyword), ("CASE", T.Keyword, T.Keyword), ("REGEXP", T.Comparison, T.Keyword),
       ("RLIKE", T.Comparison, T.Keyword), ("ILIKE", T.Comparison, T.Keyword), ("USING", T.Keyword, T.Keyword),
       ("VALUES", T.Keyword, T.Keyword), ("WITH", T.CTE, T.CTE)] :=
  dedicated_vs_dictionary

/-- the dictionary keys containing a blank or a hyphen -/
theorem dead_keys : deadEntries = [txt "BIT VARYING", txt "CHARACTER VARYING", txt "DOUBLE PRECISION", txt "END-EXEC"] :=
  deadEntries_eq

/-- **KF-C14-1 as a theorem**: for every input, at every scan step whose action is `PROCESS_AS_KEYWORD` — the only place `is_keyword` is
called (`only_word_rule_is_kw`) — `value.upper()` is none of these keys, because the value consists of `[$#\w]` characters and the
generated `str.upper` table never produces a blank or a hyphen.  So no input makes the lookup return these entries.  (`DOUBLE PRECISION`
does occur as a token, through its own rule `DOUBLE\s+PRECISION\b`, with that rule's type `Name.Builtin`, not the dictionary's `Keyword`.) -/
theorem dead_dictionary_entries (s : Array Cp) (p e : Nat)
    (h : firstMatch (defaultCfg.env s) defaultCfg.rules p = some (.kw, e)) :
    ∀ ent ∈ deadEntries, pyUpper (s.extract p e).toList ≠ ent :=
  dead_entries s p e h

/-! ## a word in no dictionary is a Name -/

/-- the type of a word-rule token is the `str.upper()`-based lookup, `Name` when no dictionary lists `value.upper()` -/
theorem word_rule_type (w : Text) :
    isKeyword defaultCfg w = (match dictsLookup (pyUpper w) Gen.dicts with | some t => t | none => T.Name) :=
  isKeyword_upper w

/-- **a word in no dictionary is a Name**: `w` of word shape that no earlier rule can take (`wordCert w`, decidable; independent of ASCII
casing by `word_cert_case`) and whose `str.upper()` no dictionary lists, before a delimiter, not right after a `.`, at a scan position:
the output of `lex` contains exactly the token `⟨Name, w⟩` there.  The lookup is the model of `value.upper()` (`pyUpper`, generated
table), so non-ASCII casings are handled as CPython does: `ſelect` upper-cases to `SELECT` and is a DML keyword, not a Name (example below;
the real lexer agrees). -/
theorem unlisted_word_is_name (s : Array Cp) (p : Nat) (pre w rest : List Cp) (c : Cp)
    (h : s.toList = pre ++ w ++ c :: rest) (hp : pre.length = p) (hprev : pre.getLast? ≠ some 46) (hc : WordDelim c)
    (hcert : wordCert w = true) (hnd : dictsLookup (pyUpper w) Gen.dicts = none)
    (hb : ScanBoundary defaultCfg (defaultCfg.env s) p) :
    ∃ ts before after, lex defaultCfg s = .ok ts ∧ ts = before ++ ⟨T.Name, w⟩ :: after ∧
      textLen before = p ∧ ScanBoundary defaultCfg (defaultCfg.env s) (p + w.length) := by
  have hfm := word_token s p pre w rest c h hp hprev hc hcert
  obtain ⟨ts, before, after, h1, h2, h3, h4⟩ := lex_emits_act s p .kw _ hb hfm
  have hv : (s.extract p (p + w.length)).toList = w := extract_region s pre w (c :: rest) p (by simpa using h) hp
  have hty : tokType defaultCfg .kw w = T.Name := by
    have hnd' : dictsLookup (upperText strUpper1 w) Gen.dicts = none := hnd
    simp only [tokType]; rw [isKeyword_upper, hnd']
  rw [hv, hty] at h2
  exact ⟨ts, before, after, h1, h2, h3, h4⟩

/-! ## non-vacuity -/

/-- the hypotheses are satisfiable: the string literal `'a;b''c'` inside `x='a;b''c';` instantiates `single_quoted` -/
example : firstMatch (defaultCfg.env #[120, 61, 39, 97, 59, 98, 39, 39, 99, 39, 59]) defaultCfg.rules 2
    = some (.tok T.StringSingle, 2 + 1 + 6 + 1) :=
  single_quoted #[120, 61, 39, 97, 59, 98, 39, 39, 99, 39, 59] 2 [120, 61] [97, 59, 98, 39, 39, 99] [59] rfl rfl
    (.chr (by decide) (by decide) (by decide) (.chr (by decide) (by decide) (by decide) (.chr (by decide) (by decide) (by decide)
      (.dbl (.chr (by decide) (by decide) (by decide) .nil))))) (by decide)

/-- `/*x;*/` followed by more text instantiates `block_comment` -/
example : firstMatch (defaultCfg.env #[32, 47, 42, 120, 59, 42, 47, 32, 49]) defaultCfg.rules 1
    = some (.tok T.CommentMultiline, 1 + 2 + 2 + 2) :=
  block_comment #[32, 47, 42, 120, 59, 42, 47, 32, 49] 1 [32] [120, 59] [32, 49] rfl rfl (by decide) (by decide) (by decide)

/-- `-- y;` + `\n` instantiates `line_comment` -/
example : firstMatch (defaultCfg.env #[45, 45, 32, 121, 59, 10, 49]) defaultCfg.rules 0
    = some (.tok T.CommentSingle, 0 + 2 + 3 + 1) :=
  line_comment #[45, 45, 32, 121, 59, 10, 49] 0 [] [45, 45] [32, 121, 59] [10] [49] (Or.inl rfl) rfl rfl (by decide) (by decide)
    (Or.inr (Or.inr (Or.inl rfl)))

/-- executing the model on
``select 'a;b''c' /*x;*/ -- y;⏎ "q;" `n``m` /*+ h */ --+ z␍⏎# w``
gives one token per region, of the expected types (and nothing inside a region is split at `;`) -/
example : (lex defaultCfg #[115, 101, 108, 101, 99, 116, 32, 39, 97, 59, 98, 39, 39, 99, 39, 32, 47, 42, 120, 59, 42, 47, 32,
      45, 45, 32, 121, 59, 10, 32, 34, 113, 59, 34, 32, 96, 110, 96, 96, 109, 96, 32, 47, 42, 43, 32, 104, 32, 42, 47, 32,
      45, 45, 43, 32, 122, 13, 10, 35, 32, 119]).toOption.map (fun ts => ts.map (·.tt)) =
    some [T.DML, T.Whitespace, T.StringSingle, T.Whitespace, T.CommentMultiline, T.Whitespace, T.CommentSingle, T.Whitespace,
      T.StringSymbol, T.Whitespace, T.Name, T.Whitespace, ["Comment", "Multiline", "Hint"], T.Whitespace,
      ["Comment", "Single", "Hint"], T.CommentSingle] := by decide +kernel

/-- `$a$x;$a$` followed by `;` instantiates `dollar_quoted` -/
example : firstMatch (defaultCfg.env #[32, 36, 97, 36, 120, 59, 36, 97, 36, 59]) defaultCfg.rules 1
    = some (.tok T.Literal, 1 + (1 + 2) + 2 + (1 + 2)) :=
  dollar_quoted #[32, 36, 97, 36, 120, 59, 36, 97, 36, 59] 1 [32] [97] [120, 59] [59] rfl rfl (by decide +kernel)
    (Or.inr ⟨97, [], rfl, by decide +kernel, by simp⟩) (by decide) (by decide +kernel)

/-- executing the model: `$a$x;$A$` is one `Literal` token (the closing tag is matched case-insensitively), `$$;$$` likewise -/
example : (lex defaultCfg #[36, 97, 36, 120, 59, 36, 65, 36, 32, 36, 36, 59, 36, 36]).toOption.map (fun ts => ts.map (·.tt)) =
    some [T.Literal, T.Whitespace, T.Literal] := by decide +kernel

/-- `SELECT` in `x SELECT;` instantiates `dict_word` (position 2, after a blank, before `;`) and classifies as DML;
`select` classifies like `SELECT` by `keyword_case_invariant`, and `dict_word_any_casing` covers `sElEcT` -/
example : firstMatch (defaultCfg.env #[120, 32, 83, 69, 76, 69, 67, 84, 59]) defaultCfg.rules 2 = some (.kw, 2 + 6) :=
  dict_word #[120, 32, 83, 69, 76, 69, 67, 84, 59] 2 [120, 32] [83, 69, 76, 69, 67, 84] [] 59 (by decide +kernel) (by decide +kernel)
    rfl rfl (by decide) (by refine ⟨by decide +kernel, by decide +kernel, by decide, by decide⟩)

example : isKeyword defaultCfg [115, 101, 108, 101, 99, 116] = T.DML := by
  rw [keyword_case_invariant [83, 69, 76, 69, 67, 84] [115, 101, 108, 101, 99, 116] (by decide)]
  decide +kernel

example : firstMatch (defaultCfg.env #[115, 69, 108, 69, 99, 84, 59]) defaultCfg.rules 0 = some (.kw, 0 + 6) ∧
    isKeyword defaultCfg [115, 69, 108, 69, 99, 84] = isKeyword defaultCfg [83, 69, 76, 69, 67, 84] :=
  dict_word_any_casing #[115, 69, 108, 69, 99, 84, 59] 0 [] [83, 69, 76, 69, 67, 84] [115, 69, 108, 69, 99, 84] [] 59
    (by decide +kernel) (by decide +kernel) (by decide) rfl rfl (by decide)
    (by refine ⟨by decide +kernel, by decide +kernel, by decide, by decide⟩)

/-- `foo_1;` instantiates `unlisted_word_is_name` -/
example : ∃ ts before after, lex defaultCfg #[102, 111, 111, 95, 49, 59] = .ok ts ∧
    ts = before ++ ⟨T.Name, [102, 111, 111, 95, 49]⟩ :: after ∧ textLen before = 0 ∧
    ScanBoundary defaultCfg (defaultCfg.env #[102, 111, 111, 95, 49, 59]) (0 + 5) :=
  unlisted_word_is_name #[102, 111, 111, 95, 49, 59] 0 [] [102, 111, 111, 95, 49] [] 59 rfl rfl (by decide)
    (by refine ⟨by decide +kernel, by decide +kernel, by decide, by decide⟩) (by decide +kernel) (by decide +kernel)
    ScanBoundary.zero

/-- `ſelect` (U+017F): certified word whose `str.upper()` is `SELECT`, hence a DML keyword — for the model and for the real lexer -/
example : wordCert [383, 101, 108, 101, 99, 116] = true ∧ isKeyword defaultCfg [383, 101, 108, 101, 99, 116] = T.DML := by
  constructor <;> decide +kernel

/-- `like;` / `LiKe;` instantiate `dedicated_word`: a Comparison operator, although the dictionary says Keyword -/
example : firstMatch (defaultCfg.env #[76, 105, 75, 101, 59]) defaultCfg.rules 0 = some (.tok T.Comparison, 0 + 4) :=
  dedicated_word "LIKE" (.tok T.Comparison) (by decide) #[76, 105, 75, 101, 59] 0 [] [76, 105, 75, 101] [] 59 (by decide) rfl rfl
    (by decide) (by refine ⟨⟨by decide +kernel, by decide +kernel, by decide, by decide⟩, by decide⟩)

/-- `x.From(` : right after a `.` and before `(`, still a Keyword (instance of `kw16_word`) -/
example : firstMatch (defaultCfg.env #[120, 46, 70, 114, 111, 109, 40]) defaultCfg.rules 2 = some (.tok T.Keyword, 2 + 4) :=
  kw16_word "FROM" (by decide) #[120, 46, 70, 114, 111, 109, 40] 2 [120, 46] [70, 114, 111, 109] [] 40 (by decide) rfl rfl
    (by decide +kernel)

/-- `Double⇥ precision;` (tab and blank between the words) instantiates `double_precision` -/
example : firstMatch (defaultCfg.env #[68, 111, 117, 98, 108, 101, 9, 32, 112, 114, 101, 99, 105, 115, 105, 111, 110, 59])
    defaultCfg.rules 0 = some (.tok T.Builtin, 0 + 6 + 2 + 9) :=
  double_precision _ 0 [] [68, 111, 117, 98, 108, 101] [9, 32] [112, 114, 101, 99, 105, 115, 105, 111, 110] [59] rfl rfl (by decide)
    (by decide) (by decide) (by decide) (by decide +kernel) (by decide +kernel)

end Sql.C14
