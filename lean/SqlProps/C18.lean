import SqlProofs.AccessorSpec
import SqlModel.KwNorm
import SqlProofs.LeadingKeyword
import SqlProofs.CteShape.Core
/-!
# C18 — Statement.get_type() names the statement's leading DML/DDL keyword

`get_type` on trees: the first top-level child that is neither whitespace nor a comment decides; DML/DDL → its normalised value
(`kwNorm` = upper-cased with whitespace runs collapsed, so `create  or\nreplace` gives `CREATE OR REPLACE`), nothing → `UNKNOWN`.
That the leading keyword is still that child after all 25 grouping passes is `leading_keyword_survives_grouping` (hypothesis `LeadHyp`,
decidable: the next token is not `::` / a time-zone cast and the statement has no `:=` — each exclusion is a real absorption of the keyword,
witnessed on the code: `select::int`, `select at time zone 'utc' as x`, `select x := y z:=;`); `get_type_after_grouping` composes the two.
The CTE walk for the grammar's WITH statements is sampled (oracle + S-ACC).
Known finding KF-C18-1: a keyword written directly before `(` or `.` is lexed as a Name (`select(1)`, `select .5`).
-/
namespace Sql.C18
open Sql.Acc

/-- leading DML/DDL keyword (after any whitespace/comments) ⇒ `get_type()` is its normalised spelling, whatever follows -/
theorem get_type_leading_keyword : type_of% @getType_dml_ddl := @getType_dml_ddl

/-- nothing but whitespace and comments ⇒ `UNKNOWN` -/
theorem get_type_empty : type_of% @getType_empty := @getType_empty

/-- the CTE walk terminates within the fuel `get_type` passes (the "fuel exhausted" branch is unreachable) -/
theorem cte_walk_fuel_irrelevant : type_of% @cteWalk_fuel_irrelevant := @cteWalk_fuel_irrelevant

/-- the normalisation ignores letter case and the amount of inner whitespace -/
theorem create_or_replace_normalised :
    kwNorm (txt "create  Or\n\tREPLACE") = txt "CREATE OR REPLACE" ∧ kwNorm (txt "SeLeCt") = txt "SELECT" := by
  constructor <;> decide +kernel

/-- **the leading keyword survives grouping**: for every flat statement whose first token that is neither whitespace nor comment is a
DML/DDL keyword (and `LeadHyp`), after `group` the first top-level child that is neither whitespace nor a comment is still that very leaf -/
theorem leading_keyword_survives_grouping : type_of% @Sql.leading_kw_survives := @Sql.leading_kw_survives

/-- **get_type() after grouping** is the normalised spelling of that keyword — for every continuation of the statement -/
theorem get_type_after_grouping : type_of% @Sql.leading_kw_getType := @Sql.leading_kw_getType

/-- non-vacuity: `LeadHyp` holds for an ordinary statement with leading comment and odd casing, and fails for the absorbed shapes -/
example : LeadHyp kwNorm [⟨T.CommentMultiline, txt "/* c */"⟩, ⟨T.Whitespace, txt " "⟩, ⟨T.DML, txt "SeLeCt"⟩, ⟨T.Whitespace, txt " "⟩,
    ⟨T.Name, txt "a"⟩] = true ∧
    LeadHyp kwNorm [⟨T.DML, txt "select"⟩, ⟨T.Punctuation, txt "::"⟩, ⟨T.Name, txt "int"⟩] = false := by
  constructor <;> decide +kernel

/-- **CTE clause**: `get_type()` is invariant under admissible re-spelling of the children … -/
theorem get_type_respell : type_of% @Sql.Acc.getType_respell := @Sql.Acc.getType_respell
/-- … so one WITH statement whose check evaluates to true (lexer → grouping → `get_type()` = the DML keyword after the CTE definitions) gives
the same answer for every admissible spelling of names, literals, comment texts, keyword case and whitespace values, at every sufficient fuel.
The table of 196 WITH statements (1–3 definitions, column lists, RECURSIVE, comments between definitions and before the DML keyword,
AS MATERIALIZED, seven DML verbs; AS NOT MATERIALIZED pinned as decided negatives = known finding KF-C18-3) is decided by the kernel in
`SqlPropsSlow/C18Table.lean` (thorough tier) and evaluated by the compiled driver in the quick tier (`ctecheck`). -/
theorem cte_get_type_of_checked_statement : type_of% @Sql.Acc.cte_get_type_of_check := @Sql.Acc.cte_get_type_of_check

end Sql.C18
