import SqlProofs.AccessorSpec
import SqlModel.KwNorm
/-!
# C18 — Statement.get_type() names the statement's leading DML/DDL keyword

`get_type` on trees: the first top-level child that is neither whitespace nor a comment decides; DML/DDL → its normalised value
(`kwNorm` = upper-cased with whitespace runs collapsed, so `create  or\nreplace` gives `CREATE OR REPLACE`), nothing → `UNKNOWN`.
That the leading keyword is still that child after grouping, and the CTE walk for the grammar's WITH statements, are sampled (oracle + S-ACC).
Known finding KF-C18-1: a keyword written directly before `(` or `.` is lexed as a Name (`select(1)`, `select .5`).
-/
namespace Sql.C18
open Sql.Acc

/-- leading DML/DDL keyword (after any whitespace/comments) ⇒ `get_type()` is its normalised spelling, whatever follows -/
theorem get_type_leading_keyword : type_of% @getType_dml_ddl := @getType_dml_ddl

/-- nothing but whitespace and comments ⇒ `UNKNOWN` -/
theorem get_type_empty : type_of% @getType_empty := @getType_empty

/-- the CTE walk terminates within the fuel `get_type` passes (the "fuel exhausted" branch is unreachable) -/
theorem cte_walk_fuel_irrelevant : type_of% @cteWalk_fuel_irrelevant := @cteWalk_fuel_irrelevant

/-- the normalisation ignores letter case and the amount of inner whitespace -/
theorem create_or_replace_normalised :
    kwNorm (txt "create  Or\n\tREPLACE") = txt "CREATE OR REPLACE" ∧ kwNorm (txt "SeLeCt") = txt "SELECT" := by
  constructor <;> decide +kernel

end Sql.C18
