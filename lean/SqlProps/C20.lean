import SqlModel.Control
import SqlModel.Generated.ControlInit
import SqlProofs.InitSafe
/-!
# C20 — results depend only on input and options: no call history, no thread effects

What is a theorem here: (i) the singleton initialisation extracted from `Lexer.get_default_instance` hands out only fully
initialised instances — for every number of threads, every interleaving of their steps, every initialisation step that raises;
(ii) `default_initialization()` resets the lexer configuration whatever calls preceded it.  That the API entry points do not write
the configuration and that filter objects are created per call is by construction of the model (entry points are functions of
(configuration, input, options)) and is checked on the real code by permuted call histories and concurrent runs.
Outside the model (named): interleavings below statement granularity (GIL/bytecode), `_TokenType.__getattr__` creating types lazily.
-/
namespace Sql.C20

/-- table obligation: the statements under `if cls._default_instance is None:` are, in source order,
`x = cls(); x.default_initialization(); cls._default_instance = x` — nothing is published before it is initialised -/
theorem init_program_publishes_last : Gen.initProgram = safeProg := by decide

/-- **every thread works with a completely initialised lexer.** All thread counts `n`, all schedules (which thread moves next), all
choices of initialisation steps that raise (`RecursionError` inside `re.compile`, …), with or without the lock. -/
theorem init_safe (n : Nat) (sched : Schedule) :
    AllResultsInitialised (runSchedule Gen.initLocked Gen.initProgram (initState n) sched) := by
  rw [init_program_publishes_last]
  exact Sql.init_safe Gen.initLocked n sched

/-- the hypothesis is not decorative (the defect repaired by `fix:` commit, known_findings KF-C20-F1): with the order
`cls._default_instance = cls(); cls._default_instance.default_initialization()` a first call whose initialisation raises leaves
a published, uninitialised instance, which the next caller gets back — even under the lock -/
theorem publish_before_init_counterexample :
    let s := runSchedule true [.createPublish, .initPublished] (initState 2) [(0, false), (0, false), (0, true), (1, false)]
    (s.threads.map (·.result), s.insts) = ([none, some 0], [false]) := by decide

/-- non-vacuity: a schedule in which two threads race and one raises still ends with the other holding an initialised instance -/
example :
    let s := runSchedule true safeProg (initState 2) [(0, false), (1, false), (0, false), (0, true), (1, false), (1, false), (1, false), (1, false), (1, false), (1, false)]
    (s.threads.map (·.result), s.insts) = ([none, some 1], [false, true]) := by decide

/-- table obligation: `default_initialization` starts by clearing the configuration -/
theorem default_init_clears_first : Gen.defaultInitOps.head? = some .clear := by decide

/-- table obligation: and then loads the rule table and the nine dictionaries in the documented order -/
theorem default_config :
    cfgRun Gen.defaultInitOps {} [.defaultInit] = { regex := some 0, dicts := [0, 1, 2, 3, 4, 5, 6, 7, 8] } := by decide

/-- **`default_initialization()` resets the configuration whatever preceded it** (any sequence of `clear`, `set_SQL_REGEX`,
`add_keywords`, earlier `default_initialization` calls) -/
theorem default_initialization_resets (history : List CfgOp) (c : LexConfig) :
    cfgRun Gen.defaultInitOps c (history ++ [.defaultInit]) = cfgRun Gen.defaultInitOps {} [.defaultInit] := by
  unfold cfgRun
  rw [List.foldl_append]
  generalize List.foldl (cfgStep Gen.defaultInitOps 1) c history = c1
  simp only [List.foldl_cons, List.foldl_nil, cfgStep]
  have h := default_init_clears_first
  cases hd : Gen.defaultInitOps with
  | nil => rw [hd] at h; cases h
  | cons op rest =>
    rw [hd] at h
    simp only [List.head?_cons, Option.some.injEq] at h
    subst h
    simp only [List.foldl_cons, cfgStep]

end Sql.C20
