import SqlProofs.GroupLeavesStrict
import SqlModel.GroupingParse
import SqlProofs.GroupLeaves
import SqlProofs.GroupNonEmpty
import SqlProofs.AccessorSpec
import SqlProofs.Bookkeeping
import SqlProofs.BookkeepingAbsScript
import SqlProofs.BookkeepingGroup
/-!
# C03 — grouping is purely structural and yields a well-formed token tree

Proved about the model: (a) the leaves of a grouped statement are the statement's tokens, same values and order, same types except
re-typing *to* Operator (`LeafRel`); (b) no group is empty (all 25 passes, via the invariant `goodL` and per-pass index facts);
(c) the navigation helpers meet their specifications on every tree.
(d) The mutable side — `parent` references, object identity ("occurs once") and the cached `value` of groups — is modelled as a heap of
objects (`SqlModel/Bookkeeping.lean`: `TokenList.__init__` and `group_tokens`, the only code through which grouping mutates the tree; that
confinement is checked syntactically on every run, the heap model is tied to the real objects by stream S-HEAP): every history of
`group_tokens` calls on the Statement the splitter builds keeps the heap a well-formed tree.  The link "the passes call `group_tokens` only
with non-empty slices" is (b); `within/has_ancestor/is_child_of` are compared against the path-based model by stream S-ACC.  That only `*`/operator tokens are re-typed is checked by the oracle (the model allows re-typing any token to Operator).
-/
namespace Sql.C03
open Sql.Acc

/-- (a) **grouping is purely structural** -/
theorem leaves_are_the_lexer_tokens (fuel : Nat) (st : List Tok) (n : Node) (h : groupStatement fuel st = .ok n) :
    LeafRel st n.leaves := groupStatement_leaves h

/-- what `LeafRel` says: pointwise same value, and same type unless the new type is Operator -/
theorem leafRel_values {a b : List Tok} (h : LeafRel a b) : a.map (·.val) = b.map (·.val) ∧ a.length = b.length :=
  ⟨h.vals, h.length⟩

/-- (b) **every group is non-empty** -/
theorem groups_nonempty (fuel : Nat) (st : List Tok) (n : Node) (h : groupStatement fuel st = .ok n) (hne : st ≠ []) :
    n.noEmpty = true := groupStatement_nonempty h hne

/-- (c) `get_token_at_offset` returns, for every offset, the unique leaf whose half-open span contains it (None beyond the end) -/
theorem get_token_at_offset_spec : type_of% @getTokenAtOffset_spec := @getTokenAtOffset_spec
theorem span_unique : type_of% @inSpan_unique := @inSpan_unique
/-- (c) `token_next` / `token_prev` / `token_first` / `token_index` -/
theorem token_next_spec : type_of% @tokenNext_spec := @tokenNext_spec
theorem token_prev_spec : type_of% @tokenPrev_spec := @tokenPrev_spec
theorem token_first_spec : type_of% @tokenFirst_spec := @tokenFirst_spec
theorem token_index_spec : type_of% @tokenIndex_spec := @tokenIndex_spec

/-- (d) **bookkeeping, every history**: the Statement built by the splitter from a non-empty token list, regrouped by *any* script of
`group_tokens` calls (any group as receiver, any class, any non-empty slice, `extend` on or off; calls that raise change nothing), is a
well-formed heap — for every recursion budget of `str()` above the number of calls + 1. -/
theorem bookkeeping_every_history : type_of% @BK.statement_history_wf := @BK.statement_history_wf
/-- (d) the step behind it: one call keeps the invariant (ghost `rank` = acyclicity witness, ghost `T` = text of every object) -/
theorem group_tokens_keeps_invariant : type_of% @BK.groupTokens_inv := @BK.groupTokens_inv
/-- (d) what a well-formed heap guarantees: `child.parent` is the group that contains it -/
theorem parent_names_container : type_of% @BK.WF.parent_names_container := @BK.WF.parent_names_container
/-- (d) … no object is a child twice (neither in one group nor in two) -/
theorem occurs_once : type_of% @BK.WF.occurs_once := @BK.WF.occurs_once
/-- (d) … no group is empty -/
theorem heap_groups_nonempty : type_of% @BK.WF.group_nonempty := @BK.WF.group_nonempty
/-- (d) … and every group's cached `value` is its current `str()` -/
theorem cached_value_is_text : type_of% @BK.WF.cached_value_is_text := @BK.WF.cached_value_is_text

/-- non-vacuity: a concrete history (new group, extension of it, nested group) satisfies the hypotheses -/
example : BK.WF (BK.runOps (fun hx i => BK.strF hx 10 i) (BK.mkStatement [txt "a", txt ".", txt "b", txt " "])
    [⟨4, .Identifier, 0, 1, true, false⟩, ⟨4, .Identifier, 0, 1, true, true⟩, ⟨5, .Parenthesis, 1, 2, true, false⟩]).1 :=
  BK.statement_history_wf _ (by decide) _ 10 (by decide) (by decide)

/-- (a′) **only `*` tokens are re-typed**: leaf by leaf the value is unchanged, and where the type differs the lexer token was exactly
`Wildcard` and the leaf is `Operator` (an `Operator` token "re-typed" to `Operator` keeps its type) — all 25 passes, every input -/
theorem only_wildcard_is_retyped : type_of% @Sql.retype_only_operator_wildcard := @Sql.retype_only_operator_wildcard
theorem leaves_are_the_lexer_tokens_strict : type_of% @Sql.groupStatement_leaves_strict := @Sql.groupStatement_leaves_strict

/-! ## the heap model refines the pure tree model (SqlProofs/BookkeepingAbs*.lean)

`IsAbs tt h A`: `A i` is the pure tree of heap object `i` (leaves `tok (tt i) value`, groups `grp cls (kids.map A)`); it exists and is unique on a
well-formed heap (`abstraction_exists_unique`).  One `group_tokens` call on the heap is the pure `Sql.groupTokens` on the child list of the
receiver, leaves every object outside the path to the receiver unchanged, and changes the ancestors exactly by that replacement
(`group_tokens_call_refines_pure`); a raising call raises the same error purely.  For ANY script of calls on the Statement the splitter built, the
final heap is well-formed AND its abstraction is the pure tree obtained by running the same calls at the corresponding tree paths
(`statement_history_refines_pure`).  And every pure grouping pass IS such a script (SqlProofs/PureScript.lean: each `groupTokens` call a pass makes is one script operation, and
`group_operator`'s re-typing of `*` is the one `setType` operation; all 25 pass names covered), hence
`grouped_statement_is_a_wellformed_object_graph`: for every token list, the tree the pure model computes is the (unique) abstraction of the heap
reached from the splitter's Statement by a history of `group_tokens` / set-ttype operations all of which return — a well-formed object graph
(parents, occurs-once, acyclic, non-empty groups, cached value = text, every group reachable from the Statement).  The script's order is the
pure model's (children first), not Python's interleaving; the theorem is existential in the script. -/
theorem abstraction_exists_unique : type_of% @BK.WF.abs_unique := @BK.WF.abs_unique
theorem group_tokens_call_refines_pure : type_of% @BK.groupTokens_abs := @BK.groupTokens_abs
theorem group_tokens_error_refines_pure : type_of% @BK.groupTokens_abs_error := @BK.groupTokens_abs_error
theorem history_refines_pure : type_of% @BK.runOps_abs := @BK.runOps_abs
theorem statement_history_refines_pure : type_of% @BK.statement_history_abs := @BK.statement_history_abs
theorem typed_history_refines_pure : type_of% @BK.runHOps_abs := @BK.runHOps_abs
theorem every_pass_is_a_script : type_of% @Sql.passByName_scr := @Sql.passByName_scr
theorem group_is_a_script : type_of% @Sql.group_scr := @Sql.group_scr
theorem grouped_statement_is_a_wellformed_object_graph : type_of% @BK.groupStatement_is_heap_history := @BK.groupStatement_is_heap_history

end Sql.C03
