import SqlModel.GroupingParse
import SqlProofs.GroupLeaves
import SqlProofs.GroupNonEmpty
import SqlProofs.AccessorSpec
/-!
# C03 — grouping is purely structural and yields a well-formed token tree

Proved about the model: (a) the leaves of a grouped statement are the statement's tokens, same values and order, same types except
re-typing *to* Operator (`LeafRel`); (b) no group is empty (all 25 passes, via the invariant `goodL` and per-pass index facts);
(c) the navigation helpers meet their specifications on every tree.
Not modelled (checked on the real objects by the oracle on every sampled input): the `parent` references, object identity ("occurs once") and the
cached `value` of groups — the pure tree has no pointers; `within/has_ancestor/is_child_of` are compared against the path-based
model by stream S-ACC.  That only `*`/operator tokens are re-typed is checked by the oracle (the model allows re-typing any token to Operator).
-/
namespace Sql.C03
open Sql.Acc

/-- (a) **grouping is purely structural** -/
theorem leaves_are_the_lexer_tokens (fuel : Nat) (st : List Tok) (n : Node) (h : groupStatement fuel st = .ok n) :
    LeafRel st n.leaves := groupStatement_leaves h

/-- what `LeafRel` says: pointwise same value, and same type unless the new type is Operator -/
theorem leafRel_values {a b : List Tok} (h : LeafRel a b) : a.map (·.val) = b.map (·.val) ∧ a.length = b.length :=
  ⟨h.vals, h.length⟩

/-- (b) **every group is non-empty** -/
theorem groups_nonempty (fuel : Nat) (st : List Tok) (n : Node) (h : groupStatement fuel st = .ok n) (hne : st ≠ []) :
    n.noEmpty = true := groupStatement_nonempty h hne

/-- (c) `get_token_at_offset` returns, for every offset, the unique leaf whose half-open span contains it (None beyond the end) -/
theorem get_token_at_offset_spec : type_of% @getTokenAtOffset_spec := @getTokenAtOffset_spec
theorem span_unique : type_of% @inSpan_unique := @inSpan_unique
/-- (c) `token_next` / `token_prev` / `token_first` / `token_index` -/
theorem token_next_spec : type_of% @tokenNext_spec := @tokenNext_spec
theorem token_prev_spec : type_of% @tokenPrev_spec := @tokenPrev_spec
theorem token_first_spec : type_of% @tokenFirst_spec := @tokenFirst_spec
theorem token_index_spec : type_of% @tokenIndex_spec := @tokenIndex_spec

end Sql.C03
