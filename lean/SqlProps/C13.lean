import SqlProofs.ClauseShape.Core
import SqlProofs.AccessorSpec
import SqlModel.Generated.Tables
import SqlModel.Splitter
import SqlProofs.WhereExtent
/-!
# C13 — clause nodes cover exactly the clause as written

Theorems (universal in the child list) about the accessors that read clause nodes, and table obligations tying the closing keywords of
`Where` to the list the property names.  That the earlier passes deliver the children these theorems assume (one IdentifierList per
comma list, one Function per call, Where extent) is checked on the real code by the oracle with AST-derived expectations and by S-TREE;
the extent theorem `where_extent` is planned on top of the grouping model.
-/
namespace Sql.C13
open Sql.Acc

/-- table obligation: `Where.M_CLOSE` is exactly the list of closing keywords the property names (as one Keyword pattern) -/
theorem where_mclose_is_property_list :
    Gen.Where_M_CLOSE = [⟨T.Keyword, some [txt "ORDER BY", txt "GROUP BY", txt "LIMIT", txt "UNION", txt "UNION ALL", txt "EXCEPT",
      txt "HAVING", txt "RETURNING", txt "INTO"]⟩] := by decide

/-- table obligation: WHERE opens, as a Keyword -/
theorem where_mopen : Gen.Where_M_OPEN = [⟨T.Keyword, some [txt "WHERE"]⟩] := by decide

/-- `IdentifierList.get_identifiers()` yields exactly the children that are neither whitespace nor a `,`, in order -/
theorem get_identifiers_spec : type_of% @getIdentifiers_spec := @getIdentifiers_spec

/-- `Case.get_cases()` on `CASE pre… (WHEN c… THEN v…)* (ELSE v…)? END`: one (condition, value) pair per WHEN/THEN, `(None, value)` for ELSE,
for arbitrary material between the keywords and both `skip_ws` settings; and it never raises on any tree -/
theorem get_cases_spec : type_of% @getCases_spec := @getCases_spec
theorem get_cases_total : type_of% @getCases_total := @getCases_total

/-- `Function.get_parameters()` raises exactly when the Function has no Parenthesis child; `Comparison.left/right` exactly on an empty group -/
theorem get_parameters_error_iff : type_of% @getParameters_error_iff := @getParameters_error_iff
theorem comparison_left_error_iff : type_of% @comparisonLeft_error_iff := @comparisonLeft_error_iff
theorem comparison_right_error_iff : type_of% @comparisonRight_error_iff := @comparisonRight_error_iff

/-- **Where extent**: the first WHERE keyword of a list heads a Where group that ends just before the first later closing keyword of the generated `Where.M_CLOSE`, or — without one — at the
last groupable child (inside a parenthesis: before the `)`); every iteration of the loop does the same for the next WHERE still at this level; afterwards no WHERE keyword is left ungrouped -/
theorem where_extent_to_closer : type_of% @where_first_extent_close := @where_first_extent_close
theorem where_extent_to_end : type_of% @where_first_extent_end := @where_first_extent_end
theorem where_each_iteration : type_of% @whereLoop_iter := @whereLoop_iter
theorem where_none_left_ungrouped : type_of% @where_none_left := @where_none_left

/-- **clause nodes in context, from one checked skeleton to every spelling** (table-independent core; the table itself is decided in
`SqlPropsSlow/C13Table.lean`): if the skeleton's canonical check evaluates to true, then for every admissible re-spelling (all leaf values
except punctuation/operators, keyword case, whitespace values) and every sufficient fuel the grouped tree of the re-spelled tokens contains
the clause node and its accessor returns the re-spelled written parts -/
theorem identifier_list_of_checked_skeleton : type_of% @Sql.Acc.identList_in_context := @Sql.Acc.identList_in_context
theorem parameters_of_checked_skeleton : type_of% @Sql.Acc.parameters_in_context := @Sql.Acc.parameters_in_context
theorem cases_of_checked_skeleton : type_of% @Sql.Acc.cases_in_context := @Sql.Acc.cases_in_context
theorem comparison_of_checked_skeleton : type_of% @Sql.Acc.comparison_in_context := @Sql.Acc.comparison_in_context
theorem typed_literal_of_checked_skeleton : type_of% @Sql.Acc.typedLiteral_in_context := @Sql.Acc.typedLiteral_in_context

end Sql.C13
