import SqlModel.Default
import SqlProofs.LexerTotal
/-!
# C01 — the lexer is total and lossless: tokens partition the input text

Property theorems only.  The model (`Sql.lex`, `Sql.derivs`) is hand-written; `Sql.defaultCfg` is
assembled from tables regenerated from /repo on every run, so the two `decide` obligations below are
re-checked against the regexes and dictionaries the source contains *now*.
-/
/-!
## Hypotheses audit (C01)
No theorem of this file restricts the input: `lex_total_lossless`, `lex_error_single`, `lex_keeps_bom`, `lex_bom_first_token` hold for every
text (any length, any code points including NUL, controls, lone surrogates, U+FEFF).  The only hypotheses are the table obligations
(`rules_minW_actions`, `no_error_type`, `unbounded_rep_bodies_non_nullable`), discharged by evaluation over the regenerated tables;
`lex_zero_width_crashes` shows the first one is needed (a nullable rule crashes the scan loop with ValueError).
-/

namespace Sql.C01

/-- table obligation: every rule of the generated table has minimal width ≥ 1 (so no zero-width match
can reach `consume(iterable, -1)`) and an action that yields a token (a `_TokenType` or `PROCESS_AS_KEYWORD`) -/
theorem rules_minW_actions : RulesOK defaultCfg.rules = true := by decide +kernel

/-- table obligation: no rule action and no keyword-dictionary entry is the `Error` type, so an Error token
can only come from the "no rule matched" branch -/
theorem no_error_type : NoErrorType defaultCfg = true := by decide +kernel

/-- table obligation tying the model's repetition semantics to CPython's: no unbounded repetition body is nullable -/
theorem unbounded_rep_bodies_non_nullable : (defaultCfg.rules.all fun r => repBodiesOK r.re) = true := by decide +kernel

/-- **C01 (total, lossless, non-empty).** For every text — any length, any code points including NUL, controls
and lone surrogates — tokenizing succeeds, the token values concatenated in order are exactly the input, and no
token is empty. -/
theorem lex_total_lossless (s : Array Cp) :
    ∃ ts, lex defaultCfg s = .ok ts ∧ (ts.map (·.val)).flatten = s.toList ∧ ∀ t ∈ ts, t.val ≠ [] := by
  obtain ⟨ts, h1, h2, h3, _⟩ := lex_ok defaultCfg rules_minW_actions no_error_type s
  exact ⟨ts, h1, h2, h3⟩

/-- **C01 (Error tokens).** Every Error token of the result is exactly one character long and sits at an offset
where no lexical rule has any derivation; since the values partition the input, that character is neither
dropped, duplicated nor merged. -/
theorem lex_error_single (s : Array Cp) :
    ∃ ts, lex defaultCfg s = .ok ts ∧ ErrorsOK defaultCfg (defaultCfg.env s) 0 ts := by
  obtain ⟨ts, h1, _, _, h4⟩ := lex_ok defaultCfg rules_minW_actions no_error_type s
  exact ⟨ts, h1, h4⟩

/-- the hypothesis is not decorative: a table containing one nullable rule (`\s*?`-like) crashes the scan loop
with `ValueError` (`islice(it, -1)`) on a one-character input -/
theorem lex_zero_width_crashes :
    (match lex { defaultCfg with rules := [⟨.rep 0 none false (.set ⟨[(32,32)]⟩), .tok T.Whitespace⟩] } #[97] with
      | .error .valueError => true
      | _ => false) = true := by decide +kernel

/-- non-vacuity: a concrete non-trivial input with an unterminated quote and a lone surrogate lexes to
a partition containing Error tokens -/
example : (lex defaultCfg #[39, 0xD800, 97]).toOption.map (fun ts => ts.map (·.tt)) =
    some [T.Error, T.Error, T.Name] := by decide +kernel

/-- **a leading U+FEFF (byte-order mark) is neither dropped nor duplicated**: for every text that starts with U+FEFF, tokenizing succeeds
and the token values, concatenated, still start with that U+FEFF followed by exactly the rest (instance of `lex_total_lossless`; pins the
regression "strip/skip invisible leading characters") -/
theorem lex_keeps_bom (rest : Text) :
    ∃ ts, lex defaultCfg (0xFEFF :: rest).toArray = .ok ts ∧ (ts.map (·.val)).flatten = 0xFEFF :: rest := by
  obtain ⟨ts, h1, h2, _⟩ := lex_total_lossless (0xFEFF :: rest).toArray
  exact ⟨ts, h1, by simpa using h2⟩

/-- … and the first token is non-empty and starts with the U+FEFF -/
theorem lex_bom_first_token (rest : Text) :
    ∃ t ts, lex defaultCfg (0xFEFF :: rest).toArray = .ok (t :: ts) ∧ t.val.head? = some 0xFEFF := by
  obtain ⟨ts, h1, h2, h3⟩ := lex_total_lossless (0xFEFF :: rest).toArray
  cases ts with
  | nil => simp at h2
  | cons t ts =>
    refine ⟨t, ts, h1, ?_⟩
    have hne := h3 t (by simp)
    cases hv : t.val with
    | nil => exact absurd hv hne
    | cons c cs =>
      simp only [List.map_cons, List.flatten_cons, hv, List.cons_append, List.cons.injEq] at h2
      simp [h2.1]

/-- executing the model: `\ufeffselect` lexes to an Error token holding the U+FEFF, then the keyword -/
example : (lex defaultCfg #[0xFEFF, 115, 101, 108, 101, 99, 116]).toOption.map (fun ts => ts.map fun t => (t.tt, t.val.length)) =
    some [(T.Error, 1), (T.DML, 6)] := by decide +kernel

end Sql.C01
