import SqlModel.Pipeline
import SqlProofs.SplitBlock
import SqlProofs.SplitHeader
import SqlProps.C05
/-!
# C17 — procedural bodies (CREATE … BEGIN … END;) stay one statement

By structural induction over the block grammar of `SqlProofs/SplitBlock.lean` (`Ex`: leaves, parentheses, nested CASE … END
expressions; `Item`: expressions incl. `;`, nested BEGIN … END, IF/FOR/WHILE … END IF/END FOR/END WHILE).  Leaves are *arbitrary*
tokens that `_change_splitlevel` classifies as without effect — names, literals, blanks, comments, semicolons, and the
keywords THEN/ELSE/ELSIF/DO/LOOP/`END LOOP`/inner DECLARE — so the theorem covers every spelling and layout.
The model is the splitter *after* the repair of two genuine defects (nested CASE counter, blanks inside `END IF`), see
known_findings.json; FOR/WHILE … LOOP … END LOOP and CASE … END CASE statements are outside the grammar: the code
really fails on them (counterexample theorems below; known findings KF-C17-1..3).
-/
namespace Sql.C17
open Sql.C05 (tk eos_neutral)

/-- **level protocol of a block.** Inside a CREATE … BEGIN body every block-level item returns flags and level to exactly what
they were and never takes the level below where it started (so, the level being ≥ 1 there, no `;` can end the statement). -/
theorem block_level (its : List Item) (f : SplitFlags) (l : Int) (hin : Inside f) (hc : f.inCase = 0)
    (hw : Item.wfL defaultSplitCfg its = true) :
    safeRun defaultSplitCfg l f l (Item.renderL its) = some (f, l) :=
  (item_safe defaultSplitCfg).2 its f l hin hc hw

/-- **CREATE … BEGIN … END; is one statement, its neighbours are returned separately and unchanged.**
`hdr` is any header that leaves the splitter at level 0 with `is_create` set (e.g. `CREATE [OR REPLACE] PROCEDURE p ( … )`), `items`
any body of the block grammar; `pre`/`post` are arbitrary scripts of quiet units (C05). -/
theorem create_one_statement (pre post : List SUnit)
    (hpre : ∀ u ∈ pre, u.ok defaultSplitCfg = true) (hpost : ∀ u ∈ post, u.ok defaultSplitCfg = true)
    (hdr : List Tok) (f0 : SplitFlags) (hh : headNotEos defaultSplitCfg hdr = true)
    (hq : quiet defaultSplitCfg {} 0 hdr = true) (hr : runFL defaultSplitCfg {} 0 hdr = (f0, 0))
    (hc : f0.isCreate = true) (hbd : f0.beginDepth = 0) (hic : f0.inCase = 0)
    (b e semi : Tok) (trail : List Tok)
    (hb : kindIs defaultSplitCfg b .begin_ = true) (he : kindIs defaultSplitCfg e .end_ = true)
    (items : List Item) (hw : Item.wfL defaultSplitCfg items = true)
    (hs : isSemi semi = true) (ht : trail.all (fun t => defaultSplitCfg.eos.contains t.tt) = true) :
    let cu : SUnit := ⟨hdr ++ ([b] ++ Item.renderL items ++ [e]), semi, trail⟩
    splitProcess defaultSplitCfg ((pre ++ [cu] ++ post).flatMap SUnit.toks) = .ok ((pre ++ [cu] ++ post).map SUnit.toks) := by
  intro cu
  apply split_units defaultSplitCfg eos_neutral
  intro u hu
  simp only [List.mem_append, List.mem_singleton] at hu
  rcases hu with (hu | hu) | hu
  · exact hpre u hu
  · subst hu
    obtain ⟨q, r⟩ := create_block_quiet defaultSplitCfg hdr f0 hq hr hc hbd hic b e hb he items hw
    have hh' : headNotEos defaultSplitCfg (hdr ++ ([b] ++ Item.renderL items ++ [e])) = true := by
      cases hdr with
      | nil => simp [headNotEos] at hh
      | cons t ts => simpa [headNotEos] using hh
    simp only [SUnit.ok, Bool.and_eq_true, decide_eq_true_eq]
    refine ⟨⟨⟨⟨hh', q⟩, ?_⟩, hs⟩, ht⟩
    rw [r]; exact Int.le_refl 0
  · exact hpost u hu

/-- **the same with a syntactic header**: the header is `c :: hs` where `c` is any token of kind `create` (a DDL keyword whose
unified spelling starts with CREATE — `create`, `CREATE  OR\tREPLACE`, …) and `hs` any token sequence accepted by the decidable
`hdrOK` (balanced parentheses, only tokens without effect on the splitter, no `;` outside parentheses, GO rule silent):
`PROCEDURE p (a INT, b INT)`, `FUNCTION f() RETURNS int AS`, `TRIGGER t BEFORE INSERT ON x FOR EACH ROW` (an IF/FOR/WHILE/CASE keyword
is accepted in the header: the splitter ignores it while no BEGIN is open).  A DECLARE section before BEGIN is refused — the real
splitter never closes the level it opens.  No hypothesis mentions flags or levels any more. -/
theorem create_one_statement_syntactic_header (pre post : List SUnit)
    (hpre : ∀ u ∈ pre, u.ok defaultSplitCfg = true) (hpost : ∀ u ∈ post, u.ok defaultSplitCfg = true)
    (c : Tok) (hs : List Tok) (hc : kindIs defaultSplitCfg c .create = true) (hh : hdrOK defaultSplitCfg 0 hs = true)
    (b e semi : Tok) (trail : List Tok)
    (hb : kindIs defaultSplitCfg b .begin_ = true) (he : kindIs defaultSplitCfg e .end_ = true)
    (items : List Item) (hw : Item.wfL defaultSplitCfg items = true)
    (hsm : isSemi semi = true) (ht : trail.all (fun t => defaultSplitCfg.eos.contains t.tt) = true) :
    let cu : SUnit := ⟨(c :: hs) ++ ([b] ++ Item.renderL items ++ [e]), semi, trail⟩
    splitProcess defaultSplitCfg ((pre ++ [cu] ++ post).flatMap SUnit.toks) = .ok ((pre ++ [cu] ++ post).map SUnit.toks) := by
  obtain ⟨q, r⟩ := create_header defaultSplitCfg c hs hc hh
  have hddl : c.tt = T.DDL := by
    simp only [kindIs, Bool.and_eq_true, beq_iff_eq] at hc
    exact create_kind_is_ddl defaultSplitCfg c hc.1
  have hhead : headNotEos defaultSplitCfg (c :: hs) = true := by
    simp only [headNotEos, hddl]; decide
  exact create_one_statement pre post hpre hpost (c :: hs) { isCreate := true } hhead q r rfl rfl rfl
    b e semi trail hb he items hw hsm ht

/-- non-vacuity of the syntactic header: `create  or replace procedure p ( a int , b varchar ( 10 ) ) as` is accepted -/
example :
    (kindIs defaultSplitCfg (tk T.DDL "create  or replace") .create &&
     hdrOK defaultSplitCfg 0 [tk T.Whitespace " ", tk T.Keyword "procedure", tk T.Name "p", tk T.Punctuation "(",
       tk T.Name "a", tk T.Builtin "int", tk T.Punctuation ",", tk T.Name "b", tk T.Name "varchar", tk T.Punctuation "(",
       tk T.Integer "10", tk T.Punctuation ")", tk T.Punctuation ";", tk T.Punctuation ")", tk T.Whitespace " ", tk T.Keyword "as"] &&
     hdrOK defaultSplitCfg 0 [tk T.Keyword "trigger", tk T.Name "t", tk T.Keyword "before", tk T.DML "insert", tk T.Keyword "on", tk T.Name "x",
       tk T.Keyword "for", tk T.Keyword "each", tk T.Keyword "row"]) = true := by
  decide +kernel

/-- the syntactic header is tight where it matters: a `;` outside every parenthesis or an unbalanced parenthesis is refused -/
example :
    (hdrOK defaultSplitCfg 0 [tk T.Keyword "procedure", tk T.Name "p", tk T.Punctuation ";"] ||
     hdrOK defaultSplitCfg 0 [tk T.Keyword "procedure", tk T.Name "p", tk T.Punctuation "("] ||
     hdrOK defaultSplitCfg 0 [tk T.Keyword "procedure", tk T.Name "p", tk T.Punctuation ")", tk T.Punctuation "("] ||
     hdrOK defaultSplitCfg 0 [tk T.Keyword "procedure", tk T.Name "p", tk T.Keyword "declare", tk T.Name "x", tk T.Punctuation ";"]) = false := by
  decide +kernel

/-- non-vacuity: a concrete header and a body with a nested block, IF … END IF (two blanks), a nested CASE expression,
an inner DECLARE and a LOOP … END LOOP satisfy the hypotheses -/
example :
    let hdr := [tk T.DDL "create  or replace", tk T.Whitespace " ", tk T.Keyword "procedure", tk T.Name "p", tk T.Punctuation "(", tk T.Punctuation ")"]
    let items : List Item := [
      .ex (.tok (tk T.Keyword "declare")), .ex (.tok (tk T.Name "x")), .ex (.tok (tk T.Punctuation ";")),
      .compound (tk T.Keyword "if") [.ex (.tok (tk T.Name "a")), .ex (.tok (tk T.Keyword "then")),
          .ex (.caseE (tk T.Keyword "case") [.tok (tk T.Keyword "when"), .caseE (tk T.Keyword "CASE") [.tok (tk T.Name "b")] (tk T.Keyword "End")] (tk T.Keyword "end")),
          .ex (.tok (tk T.Punctuation ";"))] (tk T.Keyword "end  if"),
      .ex (.tok (tk T.Punctuation ";")),
      .block (tk T.Keyword "begin") [.ex (.tok (tk T.Keyword "loop")), .ex (.tok (tk T.Name "y")), .ex (.tok (tk T.Punctuation ";")),
          .ex (.tok (tk T.Keyword "end loop")), .ex (.tok (tk T.Punctuation ";"))] (tk T.Keyword "end"),
      .ex (.tok (tk T.Punctuation ";"))]
    (headNotEos defaultSplitCfg hdr && quiet defaultSplitCfg {} 0 hdr && Item.wfL defaultSplitCfg items
      && decide ((runFL defaultSplitCfg {} 0 hdr).snd = 0) && (runFL defaultSplitCfg {} 0 hdr).fst.isCreate) = true := by
  decide +kernel

/-- `hdrOK` refuses a DECLARE section *before* BEGIN, and rightly so: DECLARE raises the level while `is_create` is set and no block is open,
nothing lowers it again, and the statement after the procedure is swallowed (model and code agree: `sqlparse.split` returns one statement).  The
property speaks of DECLARE sections *inside* the BEGIN … END body — those are leaves of the block grammar (`leafOK`). -/
theorem declare_before_begin_counterexample :
    (splitProcess defaultSplitCfg
      [tk T.DDL "create", tk T.Keyword "procedure", tk T.Name "p", tk T.Keyword "declare", tk T.Name "x", tk T.Punctuation ";",
       tk T.Keyword "begin", tk T.Name "y", tk T.Punctuation ";", tk T.Keyword "end", tk T.Punctuation ";",
       tk T.DML "select", tk T.Integer "1", tk T.Punctuation ";"]).toOption.map List.length = some 1 := by decide +kernel

/-- known finding KF-C17-1: `FOR … LOOP … END LOOP` — FOR raises the level, `END LOOP` is not a closing keyword for the
splitter (it lists `END FOR`, which the lexer never produces): the level stays one too high, the following statement is swallowed -/
theorem for_loop_counterexample :
    (splitProcess defaultSplitCfg
      [tk T.DDL "create", tk T.Keyword "procedure", tk T.Name "p", tk T.Keyword "begin",
       tk T.Keyword "for", tk T.Name "i", tk T.Keyword "loop", tk T.Name "x", tk T.Punctuation ";", tk T.Keyword "end loop", tk T.Punctuation ";",
       tk T.Keyword "end", tk T.Punctuation ";", tk T.DML "select", tk T.Integer "1", tk T.Punctuation ";"]).toOption.map List.length
      = some 1 := by decide +kernel

/-- known finding KF-C17-2: `WHILE … LOOP … END LOOP` (the `DO … END WHILE` form is handled) -/
theorem while_loop_counterexample :
    (splitProcess defaultSplitCfg
      [tk T.DDL "create", tk T.Keyword "procedure", tk T.Name "p", tk T.Keyword "begin",
       tk T.Keyword "while", tk T.Name "a", tk T.Keyword "loop", tk T.Name "x", tk T.Punctuation ";", tk T.Keyword "end loop", tk T.Punctuation ";",
       tk T.Keyword "end", tk T.Punctuation ";", tk T.DML "select", tk T.Integer "1", tk T.Punctuation ";"]).toOption.map List.length
      = some 1 := by decide +kernel

/-- known finding KF-C17-3: `CASE … END CASE;` statement — END closes the CASE, the following CASE keyword reopens one -/
theorem end_case_counterexample :
    (splitProcess defaultSplitCfg
      [tk T.DDL "create", tk T.Keyword "procedure", tk T.Name "p", tk T.Keyword "begin",
       tk T.Keyword "case", tk T.Name "a", tk T.Keyword "when", tk T.Integer "1", tk T.Keyword "then", tk T.Name "x", tk T.Punctuation ";",
       tk T.Keyword "end", tk T.Keyword "case", tk T.Punctuation ";",
       tk T.Keyword "end", tk T.Punctuation ";", tk T.DML "select", tk T.Integer "1", tk T.Punctuation ";"]).toOption.map List.length
      = some 1 := by decide +kernel

end Sql.C17
