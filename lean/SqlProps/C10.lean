import SqlProofs.FilterSpec
import SqlProofs.SpacesSpec
import SqlProofs.StripwsSpec
import SqlProofs.ReindentBreaks
import SqlProofs.StripwsFixed
import SqlProofs.StripwsFixedTree
import SqlProofs.ReindentLift
import SqlProofs.ReindentLiftCase
/-!
# C10 — requested layout normal forms are actually achieved

Theorems over the filter model: the serializer removes every trailing blank (for every text, hence for the output of every option set);
`use_space_around_operators` reaches its normal form and is a fixed point; `strip_whitespace` reaches its normal form at tree level (incl. the
two parenthesis clauses) and is a fixed point of the IdentifierList pass exactly when no comma is preceded by two whitespace tokens
(theorem + decided counterexample: known finding KF-C10-3); with `reindent` every clause keyword that `_next_token` selects is directly preceded
by the `nl()` token ('\n' + indentation) in every list `_process_default` handles and in the whole statement list — under the hypothesis
that the keyword does not already follow a child ending in a line break (`noBreakBefore`; the excluded cases are witnessed on the real code by
the oracle).  Not theorems: the lift of the reindent clause through `_process_identifierlist/_case/_parenthesis` (each inserts its own breaks
first) and through the serializer's regex; those are checked by the oracle on the real code.
-/
namespace Sql.C10

theorem no_line_ends_in_blank : type_of% @serializer_no_trailing_blank := @serializer_no_trailing_blank
theorem strip_whitespace_only_touches_whitespace : type_of% @stripWhitespace_preserves_sig := @stripWhitespace_preserves_sig
theorem spaces_only_touches_whitespace : type_of% @spaces_preserves_sig := @spaces_preserves_sig

/-- `use_space_around_operators` normal form: in every list of the result every Operator/Comparison-typed child has a whitespace-typed sibling (or the list end) directly before and after it -/
theorem spaces_normal_form : type_of% @spaces_nf := @spaces_nf
/-- … and it is a fixed point (tree level; after repair f036566) -/
theorem spaces_fixed_point : type_of% @spaces_idempotent := @spaces_idempotent
/-- `strip_whitespace` normal form: every child list of the result is a fixed point of the default pass (a whitespace leaf is '' when first or after whitespace, ' ' otherwise);
inside a parenthesis with at least three children in the result the child after `(` and the child before `)` are not whitespace (`( )` keeps its blank) -/
theorem strip_whitespace_normal_form : type_of% @stripws_nf := @stripws_nf
theorem no_blank_after_open_paren : type_of% @stripwsParenthesis_after_open := @stripwsParenthesis_after_open
theorem no_blank_before_close_paren : type_of% @stripwsParenthesis_before_close := @stripwsParenthesis_before_close

/-- `reindent`: after `_split_kwds` every selected clause keyword is directly preceded by an `nl()` token -/
theorem split_kwds_breaks_before_clause_keywords : type_of% @rSplitKwds_nl := @rSplitKwds_nl
theorem split_kwds_breaks_or_line_end : type_of% @rSplitKwds_lineBreak := @rSplitKwds_lineBreak
/-- … still so after the whole `_process_default` (recursion into children included), with the exact value of the break token -/
theorem clause_keywords_start_lines : type_of% @rDefault_breaks := @rDefault_breaks
theorem clause_keywords_start_lines_exact : type_of% @rDefault_breaks_exact := @rDefault_breaks_exact
/-- … and for `ReindentFilter.process` on a Statement -/
theorem reindent_statement_clause_keywords : type_of% @reindent_statement_breaks := @reindent_statement_breaks
/-- later insertions of break tokens never separate a keyword from its break -/
theorem breaks_survive_insertions : type_of% @selectedOK_insertAt := @selectedOK_insertAt
/-- in `str(stmt)` the keyword's value directly follows '\n' + indentation -/
theorem keyword_text_follows_break : type_of% @pair_text_exact := @pair_text_exact

/-- `strip_whitespace`, IdentifierList pass: a fixed point iff no comma has two whitespace tokens before it (KF-C10-3 is the other case) -/
theorem stripws_identifierlist_fixed_point : type_of% @stripwsIdentifierList_fixed := @stripwsIdentifierList_fixed
theorem stripws_identifierlist_counterexample : type_of% @stripwsIdentifierList_not_fixed := @stripwsIdentifierList_not_fixed
theorem stripws_default_idempotent : type_of% @stripwsDefault_idem := @stripwsDefault_idem

/-- **strip_whitespace is a fixed point at tree level** under the decidable conditions `fixCond` (no comma of an IdentifierList directly
preceded by two whitespace children — else KF-C10-3; no Parenthesis ending in a whitespace child) and `rootTailOK` (the statement does not
end in two whitespace tokens); on 25 840 parsed statements the conditions were also necessary -/
theorem strip_whitespace_fixed_point : type_of% @Sql.stripWhitespace_fixed_point := @Sql.stripWhitespace_fixed_point
/-- KF-C10-5 is not a tree-level failure: on the tree of `(a -- c\n\n)` one pass gives the text `(a -- c\n )` and a second pass over the
SAME tree changes nothing — the second `format()` differs only because re-lexing turns the blank (a Newline inside the Comment group) into a
direct child of the parenthesis -/
theorem kf_c10_5_is_a_relexing_effect : type_of% @Sql.kf5_tree_fixed_but_blank_before_close := @Sql.kf5_tree_fixed_but_blank_before_close

/-- **reindent clause, whole output tree** (SqlProofs/ReindentLift*.lean): `ReindentFilter.process` on a statement whose tree satisfies the
decidable, option-independent side conditions `liftOK`: in the returned tree, at EVERY nesting level the filter looks into (parentheses, CASE,
identifier lists, function arguments, WHERE — exempt are only sub-trees it never enters: Values, a Where without direct WHERE child, a Parenthesis
without direct `(`), every child `_next_token` selects (the model's split words, BETWEEN…AND excluded by the automaton) is directly preceded by a
whitespace leaf whose value starts with a line break, and so is the WHERE keyword of every Where group — for every option set, filter state,
`_last_stmt` and recursion budget.  `liftOK`: (1) no selected keyword directly after a child whose text ends in a line break (a comment line);
(2) vacuous on parsed trees; (3) no split keyword as an ITEM of an IdentifierList — the real code fails exactly there (KF-C10-8:
`format('a, from t', reindent=True)` leaves FROM on the first line); (4) CASE needs nothing beyond (1) (`case_break_targets_are_when_else`). -/
theorem reindent_clause_whole_tree : type_of% @Sql.reindent_statement_lift := @Sql.reindent_statement_lift
theorem reindent_clause_whole_tree_on_domain : type_of% @Sql.reindent_statement_lift_safe := @Sql.reindent_statement_lift_safe
theorem reindent_clause_invariant_every_node : type_of% @Sql.rProcess_lift := @Sql.rProcess_lift
theorem case_break_targets_are_when_else : type_of% @Sql.caseTargetsOK_true := @Sql.caseTargetsOK_true

end Sql.C10
