import SqlProofs.FilterSpec
import SqlProofs.SpacesSpec
import SqlProofs.StripwsSpec
/-!
# C10 — requested layout normal forms are actually achieved

Theorem so far: the serializer removes every trailing blank (no output line ends in an `isspace` character) — for every text, hence for the
output of every option set.  The other normal-form clauses (no double blanks / blanks inside parentheses after strip_whitespace, blanks around
operators, clause keywords on their own line after reindent) and the fixed-point clauses are **not** theorems: the filters are modelled and tied
by streams, and the clauses are checked by the oracle on the real code.  Known finding KF-C10-1: `use_space_around_operators` is not a fixed point
when an operator is followed by a line break.
-/
namespace Sql.C10

theorem no_line_ends_in_blank : type_of% @serializer_no_trailing_blank := @serializer_no_trailing_blank
theorem strip_whitespace_only_touches_whitespace : type_of% @stripWhitespace_preserves_sig := @stripWhitespace_preserves_sig
theorem spaces_only_touches_whitespace : type_of% @spaces_preserves_sig := @spaces_preserves_sig

/-- `use_space_around_operators` normal form: in every list of the result every Operator/Comparison-typed child has a whitespace-typed sibling (or the list end) directly before and after it -/
theorem spaces_normal_form : type_of% @spaces_nf := @spaces_nf
/-- … and it is a fixed point (tree level; after repair f036566) -/
theorem spaces_fixed_point : type_of% @spaces_idempotent := @spaces_idempotent
/-- `strip_whitespace` normal form: every child list of the result is a fixed point of the default pass (a whitespace leaf is '' when first or after whitespace, ' ' otherwise);
inside a parenthesis the child after `(` and the child before `)` are not whitespace -/
theorem strip_whitespace_normal_form : type_of% @stripws_nf := @stripws_nf
theorem no_blank_after_open_paren : type_of% @stripwsParenthesis_after_open := @stripwsParenthesis_after_open
theorem no_blank_before_close_paren : type_of% @stripwsParenthesis_before_close := @stripwsParenthesis_before_close

end Sql.C10
