import SqlProofs.FilterSpec
/-!
# C10 — requested layout normal forms are actually achieved

Theorem so far: the serializer removes every trailing blank (no output line ends in an `isspace` character) — for every text, hence for the
output of every option set.  The other normal-form clauses (no double blanks / blanks inside parentheses after strip_whitespace, blanks around
operators, clause keywords on their own line after reindent) and the fixed-point clauses are **not** theorems: the filters are modelled and tied
by streams, and the clauses are checked by the oracle on the real code.  Known finding KF-C10-1: `use_space_around_operators` is not a fixed point
when an operator is followed by a line break.
-/
namespace Sql.C10

theorem no_line_ends_in_blank : type_of% @serializer_no_trailing_blank := @serializer_no_trailing_blank
theorem strip_whitespace_only_touches_whitespace : type_of% @stripWhitespace_preserves_sig := @stripWhitespace_preserves_sig
theorem spaces_only_touches_whitespace : type_of% @spaces_preserves_sig := @spaces_preserves_sig

end Sql.C10
