import SqlModel.GroupingParse
import SqlProofs.GroupLeaves
import SqlProps.C04
/-!
# C02 — parse() is text-preserving: str() of the result reproduces the input

`parseTrees` is the model of `sqlparse.parse`: lexer ∘ splitter ∘ the 25 grouping passes in the order extracted from `grouping.group`.
The theorems compose C01 (lexer lossless), C04 (splitter partition) and `group_leaves` (every pass keeps the leaf values in order, for any
pass order: `SqlProofs/GroupLeaves.lean`).  The tie of the grouping model to the code is stream S-TREE (full trees) — in particular the M3
equivalence (recursion into children before the parent loop) is validated there, not proved about Python.
-/
namespace Sql.C02

/-- `str(node)` equals the concatenation of the values of its leaf tokens, for every node of every tree -/
theorem node_text_is_leaf_values (n : Node) : n.text = (n.leaves.map (·.val)).flatten := Node.text_eq_leaves n

/-- grouping neither alters, reorders, duplicates nor invents a character: the statement node has the statement's text -/
theorem group_statement_text (fuel : Nat) (st : List Tok) (n : Node) (h : groupStatement fuel st = .ok n) :
    n.text = stmtText st := by
  have hl := groupStatement_leaves h
  rw [Node.text_eq_leaves, ← hl.vals]
  rfl

theorem group_statements_text (fuel : Nat) : ∀ (sts : List (List Tok)) (ns : List Node),
    groupStatements fuel sts = .ok ns → ns.map Node.text = sts.map stmtText := by
  intro sts
  induction sts with
  | nil => intro ns h; simp [groupStatements] at h; subst h; rfl
  | cons st rest ih =>
    intro ns h
    simp only [groupStatements] at h
    split at h
    · cases h
    · rename_i n hn
      split at h
      · cases h
      · rename_i ns' hns'
        injection h with h; subst h
        simp only [List.map_cons, group_statement_text fuel st n hn, ih ns' hns']

/-- **parse() is text-preserving.** For every input text: if `parse` returns, joining `str()` of the statements reproduces the input exactly,
except for a trailing run of whitespace-typed tokens that may be missing. -/
theorem parse_text (fuel : Nat) (s : Array Cp) (ns : List Node) (h : parseTrees fuel s = .ok ns) :
    ∃ tail : List Tok, (ns.map Node.text).flatten ++ stmtText tail = s.toList ∧ tail.all Tok.isWhitespace = true := by
  unfold parseTrees at h
  split at h
  · cases h
  · rename_i sts hsts
    obtain ⟨tail, ht, hws, _⟩ := C04.statements_partition_text s sts hsts
    exact ⟨tail, by rw [group_statements_text fuel sts ns h]; exact ht, hws⟩

/-- **split() agrees with parse()** (the clause of C04 that needs the grouping model): whenever both return, `split(text)` is exactly
`[str(st).strip() for st in parse(text)]` — same number of pieces, same order, same characters. -/
theorem split_is_stripped_parse (fuel : Nat) (s : Array Cp) (ns : List Node) (ps : List Text)
    (hp : parseTrees fuel s = .ok ns) (hs : split s = .ok ps) : ps = ns.map (pyStrip ∘ Node.text) := by
  unfold parseTrees at hp
  unfold split at hs
  cases hl : lexSplit s with
  | error e => rw [hl] at hp; cases hp
  | ok sts =>
    rw [hl] at hp hs
    simp only [Except.map] at hs
    injection hs with hs
    subst hs
    have h := group_statements_text fuel sts ns hp
    have h2 : (ns.map Node.text).map pyStrip = (sts.map stmtText).map pyStrip := by rw [h]
    simpa [List.map_map, Function.comp_def] using h2.symm

/-- and `parse` returns whenever `split` does, unless grouping runs out of recursion depth: the only error grouping can add is
`RecursionError` (cited from C07's `grouping_total`; stated here for the statement list) — so the two entry points fail together on lexer /
splitter errors and otherwise differ only by that error. -/
theorem parse_fails_only_where_split_fails_or_depth (fuel : Nat) (s : Array Cp) (e : PyErr)
    (hp : parseTrees fuel s = .error e) : split s = .error e ∨ ∃ sts, lexSplit s = .ok sts ∧ groupStatements fuel sts = .error e := by
  unfold parseTrees at hp
  unfold split
  cases hl : lexSplit s with
  | error e' => rw [hl] at hp; injection hp with hp; subst hp; left; rfl
  | ok sts => rw [hl] at hp; right; exact ⟨sts, rfl, hp⟩

end Sql.C02
