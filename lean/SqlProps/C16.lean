import SqlModel.Default
import SqlModel.RegexCost
import SqlProofs.RegexCost
/-!
# C16 — no lexical rule can backtrack exponentially

Cost model: `work E r st` is the size of the *complete* backtracking search tree of `r` at `st` (every alternative, every
iteration count, every continuation), an upper bound for an engine that stops at the first success.  `cert` derives polynomial
bounds from the shape of an expression and refuses any unbounded repetition whose body can be derived in two ways from the same
state (the source of exponential blow-up).  `cert_sound` (SqlProofs/RegexCost.lean) holds for every expression, string and state.
-/
namespace Sql.C16

/-- table obligation: every rule of the regenerated table either has a polynomial certificate or is one of the quoted-string
rules of shape `q(qq|\q|[^q])*q` (clause still open, see `PARTIAL` in the evidence; covered by the timing harness).
Re-introducing an overlapping alternative under a star (the historical `(\\\\|\\'|''|[^'])*` bug) falsifies this. -/
theorem rules_poly_or_template :
    (defaultCfg.rules.all fun r => (cert r.re).isSome || isStrTemplate r.re) = true := by decide +kernel

/-- **polynomial search tree.** For every rule with a certificate, every input and every start position, the number of derivations and the
size of the backtracking search tree are bounded by the certified polynomials in N = |s| + 1. -/
theorem rule_work_poly (s : Array Cp) (r : Rule) (c : Cert) (h : cert r.re = some c) (p : Nat) :
    (derivs (defaultCfg.env s) r.re ⟨p, []⟩).length ≤ c.cnt.c * (s.size + 1) ^ c.cnt.d ∧
    work (defaultCfg.env s) r.re ⟨p, []⟩ ≤ c.work.c * (s.size + 1) ^ c.work.d := by
  have := cert_sound (defaultCfg.env s) r.re c h ⟨p, []⟩
  exact ⟨this.1, this.2.1⟩

/-- the certificate is not vacuous and not trivially permissive: `(a|a)*`, `(a*)*` and the historical overlapping string body get none;
`(``|[^`])*` (disjoint first sets) gets one -/
example :
    let a : Re := .set ⟨[(97, 97)]⟩
    let q : Re := .set ⟨[(39, 39)]⟩
    let bs : Re := .set ⟨[(92, 92)]⟩
    let nq : Re := .set ⟨[(0, 38), (40, 1114111)]⟩
    let bq : Re := .set ⟨[(96, 96)]⟩
    let nbq : Re := .set ⟨[(0, 95), (97, 1114111)]⟩
    ((cert (.rep 0 none true (.alt a a))).isNone && (cert (.rep 0 none true (.rep 0 none true a))).isNone &&
     (cert (.rep 0 none true (.alt (.cat bs bs) (.alt (.cat bs q) (.alt (.cat q q) nq))))).isNone &&
     (cert (.rep 0 none true (.alt (.cat bq bq) nbq))).isSome) = true := by decide

end Sql.C16
