import SqlModel.Default
import SqlModel.RegexCost
import SqlProofs.RegexCost
import SqlProofs.StrTemplate
import SqlModel.LexCost
import SqlProofs.LexCost
/-!
# C16 — no lexical rule can backtrack exponentially

Cost model: `work E r st` is the size of the *complete* backtracking search tree of `r` at `st` (every alternative, every
iteration count, every continuation), an upper bound for an engine that stops at the first success.  `cert` derives polynomial
bounds from the shape of an expression and refuses any unbounded repetition whose body can be derived in two ways from the same
state (the source of exponential blow-up).  `cert_sound` (SqlProofs/RegexCost.lean) holds for every expression, string and state.
-/
/-!
## Hypotheses audit (C16)
No theorem of this file restricts the input: `rule_work_poly`, `string_rules_poly`, `every_rule_poly`, `lex_work_poly` hold for every subject string and
every start position.  The hypotheses `cert r.re = some c` / `isStrTemplate r.re` are properties of the rule, and
`rules_poly_or_template` (evaluated over the regenerated table) says every rule has one of them; the example at the end shows the
certificate refuses `(a|a)*`, `(a*)*` and the historical overlapping string body.
-/

namespace Sql.C16

/-- table obligation: every rule of the regenerated table either has a polynomial certificate or is one of the quoted-string
rules of shape `q(qq|\q|[^q])*q`, for which `string_rules_poly` below gives a linear bound by a separate argument.
Re-introducing an overlapping alternative under a star (the historical `(\\\\|\\'|''|[^'])*` bug) falsifies this. -/
theorem rules_poly_or_template :
    (defaultCfg.rules.all fun r => (cert r.re).isSome || isStrTemplate r.re) = true := by decide +kernel

/-- **polynomial search tree.** For every rule with a certificate, every input and every start position, the number of derivations and the
size of the backtracking search tree are bounded by the certified polynomials in N = |s| + 1. -/
theorem rule_work_poly (s : Array Cp) (r : Rule) (c : Cert) (h : cert r.re = some c) (p : Nat) :
    (derivs (defaultCfg.env s) r.re ⟨p, []⟩).length ≤ c.cnt.c * (s.size + 1) ^ c.cnt.d ∧
    work (defaultCfg.env s) r.re ⟨p, []⟩ ≤ c.work.c * (s.size + 1) ^ c.work.d := by
  have := cert_sound (defaultCfg.env s) r.re c h ⟨p, []⟩
  exact ⟨this.1, this.2.1⟩

/-- **the quoted-string rules are linear.** For every rule of the table that has the shape `q(qq|\q|[^q])*q` (the `'…'` and `"…"` rules,
which get no certificate because after a backslash both `\q` and `[^q]` apply), every input and every start position: at most `|s| + 1`
derivations and a backtracking search tree of at most `12·(|s| + 1) + 4` nodes.  (After a backslash followed by a run of quotes only one
of the two readings can get past the run — parity — so the alternatives never multiply; `SqlProofs/StrTemplate.lean`.)
Together with `rules_poly_or_template` and `rule_work_poly`, every rule of the table has a polynomial bound. -/
theorem string_rules_poly (s : Array Cp) (r : Rule) (_hr : r ∈ defaultCfg.rules) (h : isStrTemplate r.re = true) (p : Nat) :
    (derivs (defaultCfg.env s) r.re ⟨p, []⟩).length ≤ s.size + 1 ∧
    work (defaultCfg.env s) r.re ⟨p, []⟩ ≤ 12 * (s.size + 1) + 4 :=
  isStrTemplate_linear (defaultCfg.env s) r.re h ⟨p, []⟩

/-- every rule of the table has a polynomial bound on its number of derivations and on its search tree, for every input and position -/
theorem every_rule_poly (s : Array Cp) (r : Rule) (hr : r ∈ defaultCfg.rules) (p : Nat) :
    ∃ c d : Nat, (derivs (defaultCfg.env s) r.re ⟨p, []⟩).length ≤ c * (s.size + 1) ^ d ∧
      work (defaultCfg.env s) r.re ⟨p, []⟩ ≤ c * (s.size + 1) ^ d := by
  have hall := rules_poly_or_template
  simp only [List.all_eq_true, Bool.or_eq_true] at hall
  have hN : 1 ≤ s.size + 1 := by omega
  rcases hall r hr with hc | ht
  · obtain ⟨c, hc⟩ := Option.isSome_iff_exists.mp hc
    obtain ⟨h1, h2⟩ := rule_work_poly s r c hc p
    refine ⟨c.cnt.c + c.work.c, max c.cnt.d c.work.d, ?_, ?_⟩
    · calc _ ≤ c.cnt.c * (s.size + 1) ^ c.cnt.d := h1
        _ ≤ c.cnt.c * (s.size + 1) ^ max c.cnt.d c.work.d :=
          Nat.mul_le_mul_left _ (Nat.pow_le_pow_right hN (Nat.le_max_left _ _))
        _ ≤ _ := Nat.mul_le_mul_right _ (Nat.le_add_right _ _)
    · calc _ ≤ c.work.c * (s.size + 1) ^ c.work.d := h2
        _ ≤ c.work.c * (s.size + 1) ^ max c.cnt.d c.work.d :=
          Nat.mul_le_mul_left _ (Nat.pow_le_pow_right hN (Nat.le_max_right _ _))
        _ ≤ _ := Nat.mul_le_mul_right _ (Nat.le_add_left _ _)
  · obtain ⟨h1, h2⟩ := string_rules_poly s r hr ht p
    refine ⟨16, 1, ?_, ?_⟩ <;> simp only [Nat.pow_one] <;> omega

/-! ## the whole lexer

`lexWork cfg s` (SqlModel/LexCost.lean): total size of the backtracking search trees of ALL match attempts the scan loop makes on `s` — at
every scan position the rules tried in table order up to and including the first that matches (all of them when none matches), each
attempt measured by `work` exactly as in `rule_work_poly`.  `lexPB rules` is computed from the table: coefficient = sum of the per-rule
work coefficients (certificate, or 16·N for the two quoted-string templates), degree = maximal per-rule work degree + 1 (one factor for
the at most `|s|` scan steps; every step advances because a token is at least one character long). -/

/-- **tokenizing work is polynomial in the input length**: for every text, the total work of the scan loop is at most
`c · (|s| + 1)^d` with `c`, `d` computed from the regenerated table (`lex_degree`, `lex_coefficient`) -/
theorem lex_work_poly (s : Array Cp) :
    lexWork defaultCfg s ≤ (lexPB defaultCfg.rules).c * (s.size + 1) ^ (lexPB defaultCfg.rules).d :=
  lexWork_le defaultCfg rules_poly_or_template s

/-- the existential form, with the constants spelled out -/
theorem lex_work_poly_exists : ∃ c d : Nat, ∀ s : Array Cp, lexWork defaultCfg s ≤ c * (s.size + 1) ^ d :=
  ⟨_, _, lex_work_poly⟩

/-- the bound's degree is one more than the largest certified work degree of a rule — stated relative to the table (the numbers for the
current table, degree 6 and coefficient 183 998, are printed by the driver command `lexbound` into the evidence; they are NOT theorems, so that
a harmless table edit that changes them does not break an obligation) -/
theorem lex_degree_is_step_degree_plus_one : (lexPB defaultCfg.rules).d = (stepPB defaultCfg.rules).d + 1 := rfl

/-- the certificate is not vacuous and not trivially permissive: `(a|a)*`, `(a*)*` and the historical overlapping string body get none;
`(``|[^`])*` (disjoint first sets) gets one -/
example :
    let a : Re := .set ⟨[(97, 97)]⟩
    let q : Re := .set ⟨[(39, 39)]⟩
    let bs : Re := .set ⟨[(92, 92)]⟩
    let nq : Re := .set ⟨[(0, 38), (40, 1114111)]⟩
    let bq : Re := .set ⟨[(96, 96)]⟩
    let nbq : Re := .set ⟨[(0, 95), (97, 1114111)]⟩
    ((cert (.rep 0 none true (.alt a a))).isNone && (cert (.rep 0 none true (.rep 0 none true a))).isNone &&
     (cert (.rep 0 none true (.alt (.cat bs bs) (.alt (.cat bs q) (.alt (.cat q q) nq))))).isNone &&
     (cert (.rep 0 none true (.alt (.cat bq bq) nbq))).isSome) = true := by decide

end Sql.C16
