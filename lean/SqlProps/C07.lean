import SqlProofs.FilterTotal
import SqlModel.Options
import SqlModel.Generated.ControlRun
import SqlProofs.OptionsTotal
import SqlProofs.AccessorSpec
import SqlModel.Pipeline
import SqlProofs.SplitNonWs
import SqlProofs.GroupTotal
import SqlProofs.DelimChild.Filters
import SqlProofs.DelimChild.Reindent.Reindent
/-!
# C07 — totality: any text and any valid option set gives a result or SQLParseError

Theorems: (i) `validate_options` over every option dictionary of Python values (None/bool/int/str/float incl. inf and nan/list) returns a
dictionary or raises SQLParseError — given that every integer stanza of the regenerated option table catches all three exceptions `int()` can
raise — and `format` validates before any pipeline step; (ii) accessor totality facts on every tree; (iii) RecursionError is C15.
Not theorems yet (explored by the oracle on the real code, which is what found the defects listed in known_findings.json): absence of
IndexError/… in the 25 grouping passes and in the statement filters (the model reproduces those raised by the real filters on odd trees).
-/
namespace Sql.C07
open Sql.Acc

/-- table obligation: every integer option stanza (`truncate_strings`, `indent_width`, `wrap_after`, `right_margin`) catches ValueError,
TypeError *and* OverflowError (`int(float('inf'))`) -/
theorem int_options_catch_all : (Gen.optRules.all OptRule.catchesAll) = true := by decide

/-- **option validation is total**: for every option dictionary, `validate_options` returns or raises SQLParseError — never anything else -/
theorem validate_total (d : PyDict) (e : PyErr) (h : validateDict d = .error e) : e = .sqlParseError :=
  runOptRules_err Gen.optRules d int_options_catch_all e h

/-- table obligation: `format()` calls `validate_options` before the filter stack runs -/
theorem validate_before_format : Gen.formatValidatesFirst = true := by decide

/-- accessor totality on every tree: `get_cases` never raises; the name accessors raise only on trees containing an empty-text node (none
that `parse` returns); `get_parameters` raises exactly without a Parenthesis child; `get_window` returns None without an Over child and raises only on an empty Over group -/
theorem get_cases_total : type_of% @getCases_total := @getCases_total
theorem names_total : type_of% @Sql.Acc.names_total := @Sql.Acc.names_total
theorem get_parameters_error_iff : type_of% @getParameters_error_iff := @getParameters_error_iff
theorem get_window_error_iff : type_of% @getWindow_error_iff := @getWindow_error_iff

/-- **lexer ∘ splitter is total**: for every text, tokenizing and statement splitting return (the flat statements `split()` and `parse()`
start from).  The lexer never raises (C01); the splitter's only raising expression is `value.split()[0]` on a Keyword-typed token, which
needs a non-space character in the value — and every token of a non-Whitespace type starts with one. -/
theorem lexSplit_total (s : Array Cp) : ∃ sts, lexSplit s = .ok sts := lexSplit_ok s

/-- hence `sqlparse.split(text)` returns for every text -/
theorem split_total (s : Array Cp) : ∃ ps, split s = .ok ps := by
  obtain ⟨sts, h⟩ := lexSplit_ok s
  exact ⟨sts.map (pyStrip ∘ stmtText), by simp [split, h, Except.map]⟩

/-- **grouping is total**: on every flat statement the 25 passes return a tree or fail with RecursionError (fuel) — no IndexError, TypeError, … from any index computation; with enough
recursion depth they return, and more depth never changes the result -/
theorem grouping_total : type_of% @groupStatement_total := @groupStatement_total
theorem grouping_total_wf : type_of% @group_total := @group_total
theorem grouping_fuel_enough : type_of% @group_fuel_enough := @group_fuel_enough
theorem grouping_fuel_monotone : type_of% @group_mono := @group_mono

/-- **statement filters, totality on their domains** (`FilterSafe.*`, decidable, evaluated by the driver command `filtersafe`; each conjunct
has a witness on the real code where its failure raises): `strip_comments` and `use_space_around_operators` raise nothing but RecursionError on
every tree; `strip_whitespace`, `reindent_aligned` and `reindent` on their domains.  `strip_ws_parenthesis_fails` is the converse for
`_stripws_parenthesis` (known finding KF-C07-1 as a theorem pair); a Case without a direct END child is KF-C07-2. -/
theorem strip_comments_total : type_of% @Sql.stripComments_total := @Sql.stripComments_total
theorem spaces_total : type_of% @Sql.spaces_total := @Sql.spaces_total
theorem strip_whitespace_total : type_of% @Sql.stripWhitespace_total := @Sql.stripWhitespace_total
theorem strip_ws_parenthesis_fails : type_of% @Sql.stripwsParenthesis_fails := @Sql.stripwsParenthesis_fails
theorem aligned_total : type_of% @Sql.aligned_total := @Sql.aligned_total
theorem reindent_total : type_of% @Sql.reindent_total := @Sql.reindent_total
/-- a whole stack of statement filters: if every stage receives a tree of its domain, the stage raises only RecursionError (→ SQLParseError) -/
theorem statement_filter_stack_total : type_of% @Sql.runStmtObjs_total := @Sql.runStmtObjs_total

/-- **the bridge from grouping to the filter domains** (SqlProofs/DelimChild): the tree `groupStatement` returns for a flat statement
satisfying the decidable `DelimSafe` lies in the domain of `strip_whitespace` and of `reindent_aligned`, so on such statements these two
filters raise nothing but RecursionError — the domain hypothesis of `strip_whitespace_total` / `aligned_total` is discharged by a hypothesis
on the TOKENS, not on the tree -/
theorem stripws_domain_of_delimSafe : type_of% @Sql.stripws_domain_of_delimSafe := @Sql.stripws_domain_of_delimSafe
theorem strip_whitespace_total_of_delimSafe : type_of% @Sql.stripWhitespace_total_of_delimSafe := @Sql.stripWhitespace_total_of_delimSafe
theorem aligned_domain_of_delimSafe : type_of% @Sql.aligned_domain_of_delimSafe := @Sql.aligned_domain_of_delimSafe
theorem aligned_total_of_delimSafe : type_of% @Sql.aligned_total_of_delimSafe := @Sql.aligned_total_of_delimSafe
/-- the third filter: `reindent`.  `ReindentSafe` = `DelimSafe` + every token value non-empty and "," only as Punctuation + no Case whose first
child after CASE is a CASE/THEN/ELSE/END keyword (decided on the tree after the matching passes); on lexer-produced statements it coincided with
`DelimSafe` in the differential run (driver command `reindentsafe`, 23 050 statements in the domain) -/
theorem reindent_domain_of_reindentSafe : type_of% @Sql.reindent_domain_of_reindentSafe := @Sql.reindent_domain_of_reindentSafe
theorem reindent_total_of_reindentSafe : type_of% @Sql.reindent_total_of_reindentSafe := @Sql.reindent_total_of_reindentSafe
theorem delimSafe_of_reindentSafe : type_of% @Sql.delimSafe_of_reindentSafe := @Sql.delimSafe_of_reindentSafe

end Sql.C07
