import SqlProofs.AccessorSpec
import SqlProofs.IdentShape.Context
import SqlProofs.IdentShape.Names
/-!
# C12 — Identifier accessors return the written name, qualifier and alias

Theorems over every Identifier/Function of *canonical shape* `[qual .]? name (ws+ [AS ws+]? alias)?` where `qual`, `name`, `alias`
are arbitrary Name / quoted (`"…"` String.Symbol, `` `…` `` Name) tokens and `ws+` any non-empty whitespace run
(statements are in `SqlProofs/AccessorSpec.lean`, section f; restated here by `type_of%` so that they cannot drift).
That the grouping engine delivers this shape in context is proved by *parametricity + a finite table*: grouping commutes with every
admissible re-spelling of names, keyword case and whitespace values (`respell_group_names`, all 25 passes), so the tree of any spelling is the
re-spelling of the tree of a placeholder skeleton; `accessors_of_skelCheck` turns a skeleton whose check evaluates to `true` into the accessor
facts for every spelling.  The table of 19 contexts × 30 reference forms is decided by the kernel in `SqlPropsSlow/C12Table.lean`
(thorough tier: ≈ 30 min CPU) and evaluated by the compiled driver in the quick tier (`skelcheck`).  Contexts outside the table are checked
on the real code by the oracle (expectations come from the generator's AST) and by streams S-TREE/S-ACC.
-/
namespace Sql.C12
open Sql.Acc

/-- `remove_quotes`: a value wrapped in matching `"`, `'` or `` ` `` loses exactly those two characters; any other value is returned unchanged -/
theorem remove_quotes_quoted : type_of% @removeQuotes_quoted := @removeQuotes_quoted
theorem remove_quotes_plain : type_of% @removeQuotes_plain := @removeQuotes_plain
theorem remove_quotes_cases : type_of% @removeQuotes_cases := @removeQuotes_cases

/-- `get_real_name()` = the written name, quotes removed -/
theorem get_real_name_canonical : type_of% @getRealName_identShape := @getRealName_identShape
/-- `get_parent_name()` = the written qualifier (None without one), quotes removed -/
theorem get_parent_name_canonical : type_of% @getParentName_identShape := @getParentName_identShape
/-- `get_alias()` = the written alias (None without one), with or without AS, whatever whitespace surrounds it -/
theorem get_alias_canonical : type_of% @getAlias_identShape := @getAlias_identShape
/-- `get_name()` = alias-or-name -/
theorem get_name_canonical : type_of% @getName_identShape := @getName_identShape
/-- `has_alias()` = alias presence -/
theorem has_alias_canonical : type_of% @hasAlias_identShape := @hasAlias_identShape

/-- the name accessors can raise nothing but IndexError, and never raise on a tree whose nodes all have non-empty text
(every tree `parse()` returns: C01 non-empty tokens + grouping preserves leaves) -/
theorem names_only_index_error : type_of% @names_only_indexError := @names_only_indexError
theorem names_total_on_nonempty : type_of% @names_total := @names_total

/-- grouping commutes with re-spelling names (values of `Name`/`String.Symbol` leaves), keyword case and whitespace values -/
theorem respell_group_names : type_of% @Sql.respell_group_names := @Sql.respell_group_names
/-- **from one checked skeleton to every spelling**: if `skelCheck sk` evaluates to `true` (lexer → grouping → canonical-shape parser on the
placeholder text), then for every admissible re-spelling and every sufficient fuel the grouped tree of the re-spelled tokens contains an
Identifier on which the five accessors return the re-spelled written parts -/
theorem accessors_of_checked_skeleton : type_of% @accessors_of_skelCheck := @accessors_of_skelCheck
/-- renamings whose names avoid the pieces of CREATE/TABLE/AS (`NameOk`) are admissible -/
theorem admissible_renaming : type_of% @Sql.admissible_renameRespell := @Sql.admissible_renameRespell

end Sql.C12
