import SqlProofs.AccessorSpec
/-!
# C12 — Identifier accessors return the written name, qualifier and alias

Theorems over every Identifier/Function of *canonical shape* `[qual .]? name (ws+ [AS ws+]? alias)?` where `qual`, `name`, `alias`
are arbitrary Name / quoted (`"…"` String.Symbol, `` `…` `` Name) tokens and `ws+` any non-empty whitespace run
(statements are in `SqlProofs/AccessorSpec.lean`, section f; restated here by `type_of%` so that they cannot drift).
That the grouping engine delivers exactly this shape for a reference written in a select list, FROM list, JOIN, UPDATE/INSERT target
or subquery is *not* a theorem: it is checked on the real code by the oracle (expectations come from the generator's AST) and by
stream S-TREE/S-ACC on the same inputs.
-/
namespace Sql.C12
open Sql.Acc

/-- `remove_quotes`: a value wrapped in matching `"`, `'` or `` ` `` loses exactly those two characters; any other value is returned unchanged -/
theorem remove_quotes_quoted : type_of% @removeQuotes_quoted := @removeQuotes_quoted
theorem remove_quotes_plain : type_of% @removeQuotes_plain := @removeQuotes_plain
theorem remove_quotes_cases : type_of% @removeQuotes_cases := @removeQuotes_cases

/-- `get_real_name()` = the written name, quotes removed -/
theorem get_real_name_canonical : type_of% @getRealName_identShape := @getRealName_identShape
/-- `get_parent_name()` = the written qualifier (None without one), quotes removed -/
theorem get_parent_name_canonical : type_of% @getParentName_identShape := @getParentName_identShape
/-- `get_alias()` = the written alias (None without one), with or without AS, whatever whitespace surrounds it -/
theorem get_alias_canonical : type_of% @getAlias_identShape := @getAlias_identShape
/-- `get_name()` = alias-or-name -/
theorem get_name_canonical : type_of% @getName_identShape := @getName_identShape
/-- `has_alias()` = alias presence -/
theorem has_alias_canonical : type_of% @hasAlias_identShape := @hasAlias_identShape

/-- the name accessors can raise nothing but IndexError, and never raise on a tree whose nodes all have non-empty text
(every tree `parse()` returns: C01 non-empty tokens + grouping preserves leaves) -/
theorem names_only_index_error : type_of% @names_only_indexError := @names_only_indexError
theorem names_total_on_nonempty : type_of% @names_total := @names_total

end Sql.C12
