import SqlModel.Pipeline
import SqlProofs.SplitPartition
import SqlProps.C01
import SqlProofs.SplitNonWs
import SqlProofs.Resplit
/-!
# C04 — split() partitions the input and agrees with parse()

Proved here: the statements returned by lexer ∘ splitter (the flat statements both `split()` and `parse()` start from)
partition the input text — in order, nothing lost or duplicated, only a whitespace-typed tail dropped, no statement empty.
`split()` and `parse()` share that stage by construction (`FilterStack.run`); the remaining link `str(parse(s)[i]) = text of statement i`
is grouping's text preservation (C02).  Pieces are non-empty after `strip()` (`pieces_nonempty`).  The re-split clause is proved at token level
(`resplit_tokens`) and, for texts, under the explicit lexical hypothesis `LexStable` (`resplit_text`); the unchanged code violates that
hypothesis for context-sensitive lexemes (known findings KF-C04-1/2), which is exactly where re-splitting a piece can differ.
-/
/-!
## Hypotheses audit (C04)

* `statements_partition_tokens/text`, `pieces_nonempty`, `nonws_token_starts_nonspace`, `resplit_tokens`, `resplit_tokens_trimmed`: no
  restriction on the input (every text, every token stream; for the token-level theorems every configuration).
* `resplit_text` / `resplit_text_cut` / `resplit_text_any`: `LexStable st` / `LexStableC st` — the piece, lexed on its own, gives the
  tokens it had in context (minus the cut whitespace).  NEEDED (KF-C04-1): `x; # ` → `split` gives `['x; #']`, but `split('x; #')` gives
  `['x;', '#']` (without the blank `#` is an operator, so the `;` now ends a statement); `GO:create begin select 1; end;` → pieces `GO`
  and `:create begin select 1; end;`, the second re-splits into two (`:create` is a placeholder only when nothing word-like precedes the
  `:`).  Both are `LexStable`-false; the driver command `lexstable` evaluates the predicate.
-/

namespace Sql.C04

/-- **token partition.** Whatever the splitter returns, concatenating the statements and a dropped tail of whitespace-typed tokens gives
back the token stream; no statement is empty. -/
theorem statements_partition_tokens (ts : List Tok) (sts : List (List Tok))
    (h : splitProcess defaultSplitCfg ts = .ok sts) :
    ∃ tail, sts.flatten ++ tail = ts ∧ tail.all Tok.isWhitespace = true ∧ ∀ s ∈ sts, s ≠ [] :=
  splitProcess_partition defaultSplitCfg ts sts h

/-- **text partition.** For every input text, if splitting succeeds, the texts of the statements, in order, followed by the text of a
dropped whitespace-typed tail, are exactly the input: pieces occur at increasing, non-overlapping positions and nothing else is lost. -/
theorem statements_partition_text (s : Array Cp) (sts : List (List Tok)) (h : lexSplit s = .ok sts) :
    ∃ tail : List Tok, (sts.map stmtText).flatten ++ stmtText tail = s.toList ∧ tail.all Tok.isWhitespace = true ∧
      ∀ st ∈ sts, st ≠ [] := by
  unfold lexSplit at h
  obtain ⟨ts, hlex, hflat, _⟩ := C01.lex_total_lossless s
  rw [hlex] at h
  obtain ⟨tail, hcat, hws, hne⟩ := splitProcess_partition defaultSplitCfg ts sts h
  refine ⟨tail, ?_, hws, hne⟩
  rw [← hflat, ← hcat]
  simp only [List.map_append, List.flatten_append, List.map_flatten, List.flatten_flatten]
  simp [List.map_map, Function.comp_def, stmtText]
  rfl

/-- **pieces are non-empty.** Every string `split()` returns is non-empty (after the `strip()` that `split()` applies): a statement the
splitter yields always contains a token that is not of a Whitespace type (the `;`/`GO` that ended it, or — for the last one — by the final
`not all(is_whitespace)` test), and the lexer gives such a token a first character that is not `str.isspace`
(whitespace characters are always taken by the Newline/Whitespace rules; `SqlProofs/LexScan.lean`, `SqlProofs/SplitNonWs.lean`). -/
theorem pieces_nonempty (s : Array Cp) (ps : List Text) (h : split s = .ok ps) : ∀ p ∈ ps, p ≠ [] := by
  unfold split at h
  cases hl : lexSplit s with
  | error e => rw [hl] at h; exact absurd h (by simp [Except.map])
  | ok sts =>
    rw [hl] at h
    simp only [Except.map] at h
    injection h with h
    subst h
    intro p hp
    simp only [List.mem_map, Function.comp] at hp
    obtain ⟨st, hst, rfl⟩ := hp
    obtain ⟨c, hc, hsp⟩ := stmt_has_nonspace s sts hl st hst
    exact pyStrip_ne_nil _ c hc hsp

/-- the lexer fact behind it: in the output of the lexer, every token whose type is not in the Whitespace hierarchy starts with a
character that is not `str.isspace` -/
theorem nonws_token_starts_nonspace (s : Array Cp) (ts : List Tok) (h : lex defaultCfg s = .ok ts) :
    ∀ t ∈ ts, t.tt.isIn T.Whitespace = false → ∃ c rest, t.val = c :: rest ∧ isSpace c = false :=
  lex_nonws_first s ts h

/-- **re-split, token level.** Splitting the tokens of a returned statement again returns that statement alone — for every token stream
and every configuration.  (The statement was started from the reset state; re-running it repeats the same transitions, no yield happens
inside it, and it contains a token that is not of a Whitespace type, so the final flush emits it.) -/
theorem resplit_tokens (cfg : SplitCfg) (ts : List Tok) (sts : List (List Tok)) (h : splitProcess cfg ts = .ok sts) :
    ∀ st ∈ sts, splitProcess cfg st = .ok [st] :=
  Sql.resplit_tokens cfg ts sts h

/-- … also after removing the whitespace-typed tokens at both ends of the statement (`trimWs`) -/
theorem resplit_tokens_trimmed (cfg : SplitCfg) (ts : List Tok) (sts : List (List Tok)) (h : splitProcess cfg ts = .ok sts) :
    ∀ st ∈ sts, splitProcess cfg (trimWs st) = .ok [trimWs st] :=
  Sql.resplit_tokens_trim cfg ts sts h

/-- **re-split, text level, under `LexStable`.** `LexStable st` says: lexing the stripped text of the statement, on its own, gives back the
statement's tokens minus the whitespace-typed tokens at both ends (`lex (strip(text st)) = trimWs st`) — i.e. no token of the piece
depended on text outside the piece, and stripping removed only whole whitespace tokens.  Under that hypothesis `split(piece) = [piece]`. -/
theorem resplit_text (s : Array Cp) (sts : List (List Tok)) (h : lexSplit s = .ok sts) (st : List Tok) (hst : st ∈ sts)
    (hstable : LexStable st) :
    split (pyStrip (stmtText st)).toArray = .ok [pyStrip (stmtText st)] :=
  Sql.resplit_text s sts h st hst hstable

/-- the hypothesis is satisfiable: both statements of `select 1; select 'a;b' ` are `LexStable` -/
example :
    (((lexSplit #[115, 101, 108, 101, 99, 116, 32, 49, 59, 32, 115, 101, 108, 101, 99, 116, 32, 39, 97, 59, 98, 39, 32]).toOption.getD []).map
      fun st => decide ((lex defaultCfg (pyStrip (stmtText st)).toArray).toOption = some (trimWs st))) = [true, true] := by
  decide +kernel

/-- **re-split, text level, under `LexStableC`**: the variant of `LexStable` that follows `strip()` character by character — re-lexing the
stripped text gives the statement's tokens with the whitespace characters cut at both ends (`cutWs`), where only Whitespace-typed tokens
vanished and only tokens of value-blind types were shortened (`cutOK`; typically the line break ending a trailing `-- comment`). -/
theorem resplit_text_cut (s : Array Cp) (sts : List (List Tok)) (h : lexSplit s = .ok sts) (st : List Tok) (hst : st ∈ sts)
    (hstable : LexStableC st) :
    split (pyStrip (stmtText st)).toArray = .ok [pyStrip (stmtText st)] :=
  Sql.resplit_text_cut s sts h st hst hstable

/-- the decidable form the driver command `lexstable` evaluates: either stability predicate suffices -/
theorem resplit_text_any (s : Array Cp) (sts : List (List Tok)) (h : lexSplit s = .ok sts) (st : List Tok) (hst : st ∈ sts)
    (hstable : (lexStableB st || lexStableCB st) = true) :
    split (pyStrip (stmtText st)).toArray = .ok [pyStrip (stmtText st)] :=
  Sql.resplit_text_any s sts h st hst hstable

/-- `select 1; -- c⏎select 2`: the first statement ends with a comment whose line break `strip()` cuts; it is `LexStableC`, not `LexStable` -/
example :
    (((lexSplit #[115, 101, 108, 101, 99, 116, 32, 49, 59, 32, 45, 45, 32, 99, 10, 115, 101, 108, 101, 99, 116, 32, 50]).toOption.getD []).map
      fun st => (lexStableB st, lexStableCB st)) = [(false, true), (true, true)] := by
  decide +kernel

end Sql.C04
