import SqlModel.Pipeline
import SqlProofs.SplitPartition
import SqlProps.C01
/-!
# C04 — split() partitions the input and agrees with parse()

Proved here: the statements returned by lexer ∘ splitter (the flat statements both `split()` and `parse()` start from)
partition the input text — in order, nothing lost or duplicated, only a whitespace-typed tail dropped, no statement empty.
`split()` and `parse()` share that stage by construction (`FilterStack.run`); the remaining link `str(parse(s)[i]) = text of statement i`
is grouping's text preservation (C02).  Not theorems yet (sampled by the oracle): pieces are non-empty after `strip()`, and the
re-split clause, which the unchanged code violates for context-sensitive lexemes (known findings KF-C04-1/2).
-/
namespace Sql.C04

/-- **token partition.** Whatever the splitter returns, concatenating the statements and a dropped tail of whitespace-typed tokens gives
back the token stream; no statement is empty. -/
theorem statements_partition_tokens (ts : List Tok) (sts : List (List Tok))
    (h : splitProcess defaultSplitCfg ts = .ok sts) :
    ∃ tail, sts.flatten ++ tail = ts ∧ tail.all Tok.isWhitespace = true ∧ ∀ s ∈ sts, s ≠ [] :=
  splitProcess_partition defaultSplitCfg ts sts h

/-- **text partition.** For every input text, if splitting succeeds, the texts of the statements, in order, followed by the text of a
dropped whitespace-typed tail, are exactly the input: pieces occur at increasing, non-overlapping positions and nothing else is lost. -/
theorem statements_partition_text (s : Array Cp) (sts : List (List Tok)) (h : lexSplit s = .ok sts) :
    ∃ tail : List Tok, (sts.map stmtText).flatten ++ stmtText tail = s.toList ∧ tail.all Tok.isWhitespace = true ∧
      ∀ st ∈ sts, st ≠ [] := by
  unfold lexSplit at h
  obtain ⟨ts, hlex, hflat, _⟩ := C01.lex_total_lossless s
  rw [hlex] at h
  obtain ⟨tail, hcat, hws, hne⟩ := splitProcess_partition defaultSplitCfg ts sts h
  refine ⟨tail, ?_, hws, hne⟩
  rw [← hflat, ← hcat]
  simp only [List.map_append, List.flatten_append, List.map_flatten, List.flatten_flatten]
  simp [List.map_map, Function.comp_def, stmtText]
  rfl

end Sql.C04
