import SqlModel.Control
import SqlModel.Generated.ControlRun
import SqlProps.C20
import SqlProps.C02
import SqlProofs.GroupTotal
/-!
# C15 — pathological nesting is reported as SQLParseError, never a crash

Modelled: every Python recursion of the pipeline takes a fuel argument whose exhaustion *is* `RecursionError` (lexing and splitting are
loops and cannot raise it); `FilterStack.run` wraps a set of stages, extracted from the source, in `try … except RecursionError: raise SQLParseError`.
Theorems: with the extracted scope no stage can let a `RecursionError` escape, whatever makes it arise (so the result does not depend on
frame counting); no other exception is converted; and a failed call leaves no poisoned singleton behind (C20.init_safe).
Not modelled (named in the evidence, observed by subprocess runs only): CPython's frame accounting, C-stack exhaustion / interpreter abort.
-/
namespace Sql.C15

/-- table obligation: every stage of `FilterStack.run` — lexing, token filters, splitting, grouping, statement filters, serializer/output
filters and the `yield` — executes inside the `try` whose handler turns `RecursionError` into `SQLParseError` -/
theorem try_covers_all_stages : (allStages.all fun st => Gen.runTryStages.contains st) = true := by decide

/-- **RecursionError never escapes**: whichever stage raises it, the caller sees `SQLParseError` -/
theorem recursion_error_never_escapes (st : Stage) :
    runMapError Gen.runTryStages st .recursionError = .sqlParseError := by
  cases st <;> decide

/-- and nothing else is disguised: every other exception passes through unchanged (so a C07 violation is not hidden by the handler) -/
theorem other_errors_unchanged (st : Stage) (e : PyErr) (h : e ≠ .recursionError) :
    runMapError Gen.runTryStages st e = e := by
  unfold runMapError
  have : (e == PyErr.recursionError) = false := by
    cases e <;> first | rfl | exact absurd rfl h
  simp [this]

/-- table obligations on the entry points: `parse` is `tuple(parsestream(…))`, `split` and `format` consume the generator inside the
same call, `format` validates its options before anything runs -/
theorem entry_points_shape :
    (Gen.parseIsTupleOfParsestream && Gen.parsestreamGroups && Gen.splitNoGrouping && Gen.formatValidatesFirst) = true := by decide

/-- **a later call still works**: no failed call — in particular one whose lexer initialisation raised — can leave behind a published,
uninitialised lexer (all thread counts, schedules and raising steps) -/
theorem later_call_gets_initialised_lexer (n : Nat) (sched : Schedule) :
    AllResultsInitialised (runSchedule Gen.initLocked Gen.initProgram (initState n) sched) :=
  C20.init_safe n sched

/-- **the only failure of the modelled `parse` is running out of recursion depth**: lexing and splitting always return (they are loops), and
the 25 grouping passes can fail with nothing but `RecursionError` — which `recursion_error_never_escapes` turns into `SQLParseError`.  So for
input nested to any depth `parse` either returns a tree (which then satisfies the text guarantee C02.parse_text) or raises SQLParseError. -/
theorem parse_fails_only_by_depth (fuel : Nat) (s : Array Cp) (e : PyErr) (h : parseTrees fuel s = .error e) : e = .recursionError := by
  rcases C02.parse_fails_only_where_split_fails_or_depth fuel s e h with h1 | ⟨sts, hls, h2⟩
  · obtain ⟨ps, hps⟩ := lexSplit_ok s
    simp [split, hps, Except.map] at h1
  · clear h hls
    induction sts generalizing e with
    | nil => simp [groupStatements] at h2
    | cons st rest ih =>
      simp only [groupStatements] at h2
      split at h2
      · rename_i e2 he
        injection h2 with h2; subst h2
        exact groupStatement_total he
      · split at h2
        · rename_i e2 he
          injection h2 with h2; subst h2
          exact ih e2 he
        · cases h2

/-- … and what the caller of `FilterStack.run` then sees is `SQLParseError`, for every stage it could come from -/
theorem parse_failure_is_sqlparse_error (fuel : Nat) (s : Array Cp) (e : PyErr) (h : parseTrees fuel s = .error e) (st : Stage) :
    runMapError Gen.runTryStages st e = .sqlParseError := by
  rw [parse_fails_only_by_depth fuel s e h]; exact recursion_error_never_escapes st

/-- depth is the only obstacle: every flat statement is grouped successfully from some recursion budget on, and a larger budget never
changes the result -/
theorem enough_depth_always_succeeds : type_of% @group_fuel_enough := @group_fuel_enough

end Sql.C15
