import SqlModel.Control
import SqlModel.Generated.ControlRun
import SqlProps.C20
/-!
# C15 — pathological nesting is reported as SQLParseError, never a crash

Modelled: every Python recursion of the pipeline takes a fuel argument whose exhaustion *is* `RecursionError` (lexing and splitting are
loops and cannot raise it); `FilterStack.run` wraps a set of stages, extracted from the source, in `try … except RecursionError: raise SQLParseError`.
Theorems: with the extracted scope no stage can let a `RecursionError` escape, whatever makes it arise (so the result does not depend on
frame counting); no other exception is converted; and a failed call leaves no poisoned singleton behind (C20.init_safe).
Not modelled (named in the evidence, observed by subprocess runs only): CPython's frame accounting, C-stack exhaustion / interpreter abort.
-/
namespace Sql.C15

/-- table obligation: every stage of `FilterStack.run` — lexing, token filters, splitting, grouping, statement filters, serializer/output
filters and the `yield` — executes inside the `try` whose handler turns `RecursionError` into `SQLParseError` -/
theorem try_covers_all_stages : (allStages.all fun st => Gen.runTryStages.contains st) = true := by decide

/-- **RecursionError never escapes**: whichever stage raises it, the caller sees `SQLParseError` -/
theorem recursion_error_never_escapes (st : Stage) :
    runMapError Gen.runTryStages st .recursionError = .sqlParseError := by
  cases st <;> decide

/-- and nothing else is disguised: every other exception passes through unchanged (so a C07 violation is not hidden by the handler) -/
theorem other_errors_unchanged (st : Stage) (e : PyErr) (h : e ≠ .recursionError) :
    runMapError Gen.runTryStages st e = e := by
  unfold runMapError
  have : (e == PyErr.recursionError) = false := by
    cases e <;> first | rfl | exact absurd rfl h
  simp [this]

/-- table obligations on the entry points: `parse` is `tuple(parsestream(…))`, `split` and `format` consume the generator inside the
same call, `format` validates its options before anything runs -/
theorem entry_points_shape :
    (Gen.parseIsTupleOfParsestream && Gen.parsestreamGroups && Gen.splitNoGrouping && Gen.formatValidatesFirst) = true := by decide

/-- **a later call still works**: no failed call — in particular one whose lexer initialisation raised — can leave behind a published,
uninitialised lexer (all thread counts, schedules and raising steps) -/
theorem later_call_gets_initialised_lexer (n : Nat) (sched : Schedule) :
    AllResultsInitialised (runSchedule Gen.initLocked Gen.initProgram (initState n) sched) :=
  C20.init_safe n sched

end Sql.C15
