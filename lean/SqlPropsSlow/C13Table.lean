import SqlProofs.ClauseShape.Main
/-!
# C13 (thorough tier) — the kernel-decided clause table and the in-context theorems

`clause_table` decides, by kernel evaluation of the whole model pipeline (regex table → lexer → splitter → 25 grouping passes → accessor),
for each of 290 statement skeletons that the clause node is there and its accessor returns the written parts — or, for the *pinned*
skeletons, that it does NOT (the open known findings KF-C13-1/2/3 are pinned as decided negative facts, so they cannot silently change).
Kinds: select / FROM lists of 2–3 items over nine item forms → one IdentifierList with `get_identifiers()` = the items; calls with 2–3
arguments (nested calls, literals, typed literals) → `get_parameters()`; CASE with one/two WHEN and optional ELSE → `get_cases()`; comparisons
(`=`, `<>`, `>=`, LIKE, NOT LIKE …) → left/right; typed literals (DATE/TIMESTAMP/INTERVAL with every M_EXTEND unit) → one TypedLiteral node;
each in 2–4 surrounding contexts.  About 22 min CPU (≈ 8 min wall, 4–6 GB per lemma): thorough tier only; the quick tier evaluates the same
`clauseCheck` on all skeletons with the compiled driver and proves the table-independent core (SqlProps/C13.lean).

Universal in the `*_in_context` theorems: every leaf value except Punctuation / Operator / Wildcard / Assignment tokens (names, literals,
builtin type names, comparison operators, placeholders, comments), keyword case and inner whitespace, whitespace values, and the fuel.
Enumerated: the skeleton shapes, list length ≤ 3, one whitespace token between lexemes.
-/
namespace Sql.C13Table
open Sql.Acc

theorem clause_table : type_of% @clauseTable_ok := @clauseTable_ok
theorem table_entries_canonical : type_of% @canonical_of_table := @canonical_of_table
/-- the pinned shapes (known findings) are decided NOT to be canonical -/
theorem pinned_entries_not_canonical : type_of% @pinned_not_canonical := @pinned_not_canonical
theorem identifier_list_in_context : type_of% @clause_identList_in_context := @clause_identList_in_context
theorem parameters_in_context : type_of% @clause_parameters_in_context := @clause_parameters_in_context
theorem cases_in_context : type_of% @clause_cases_in_context := @clause_cases_in_context
theorem comparison_in_context : type_of% @clause_comparison_in_context := @clause_comparison_in_context
theorem typed_literal_in_context : type_of% @clause_typedLiteral_in_context := @clause_typedLiteral_in_context

end Sql.C13Table
