import SqlProofs.IdentShape.Main
/-!
# C12 (thorough tier) — the kernel-decided skeleton table and the in-context theorem

`table_ok` decides, by kernel evaluation of the *whole* model pipeline (the real regex table → lexer → splitter → 25 grouping passes →
`parseIdent`), that in each of the 19 contexts × 30 reference spellings = 570 statement skeletons the reference is an Identifier of
canonical shape.  It costs about half an hour of CPU (≈ 10 min wall, ≈ 4 GB per lemma), which is why it is built by the thorough tier only;
the quick tier evaluates the same `skelCheck` on all 570 skeletons with the compiled driver (`skelcheck`, execution, not proof) and proves the
table-independent core `accessors_of_skelCheck` (SqlProps/C12.lean).

Quantified universally in `identifier_accessors_in_context`: the value of every `Name` / `String.Symbol` leaf (the reference's parts, its
neighbours, the table names), keyword letter case and inner whitespace, the values of whitespace tokens, and the recursion budget.
Enumerated: the contexts, list length ≤ 3, the reference forms, the type (Name or String.Symbol) of each part, one whitespace token between lexemes.
-/
namespace Sql.C12Table
open Sql.Acc

/-- every skeleton of the table groups into a tree that contains the reference as a canonical Identifier -/
theorem skeleton_table : type_of% @table_ok := @table_ok

/-- **identifier accessors in context**: every context × spelling of the table, every admissible re-spelling of names / keyword case /
whitespace values, every sufficient fuel: the grouped tree of the re-spelled tokens contains an Identifier on which the five accessors
return the (re-spelled) written parts -/
theorem identifier_accessors_in_context : type_of% @Sql.Acc.identifier_accessors_in_context := @Sql.Acc.identifier_accessors_in_context

/-- the same with the values spelled out for a renaming σ of the names -/
theorem identifier_accessors_renamed : type_of% @Sql.Acc.identifier_accessors_renamed := @Sql.Acc.identifier_accessors_renamed

end Sql.C12Table
