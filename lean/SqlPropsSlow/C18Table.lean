import SqlProofs.CteShape.Main
/-!
# C18 (thorough tier) — the kernel-decided WITH-statement table and the CTE clause of get_type() in context

`cteTable_ok` decides, by kernel evaluation of the whole model pipeline (regex table → lexer → 25 grouping passes → `getType`), that
`Statement.get_type()` is the DML keyword following the CTE definitions on 192 WITH statements (1–3 definitions, column lists,
WITH RECURSIVE, comments between the definitions and before the DML keyword, AS MATERIALIZED, seven DML verbs, three statements without a
DML keyword → UNKNOWN) and is NOT on the 4 pinned `AS NOT MATERIALIZED` statements.  About 40 min CPU (40 lemmas of five statements, about 5 GB
each, three import lanes), thorough tier only; the quick tier evaluates the same table with the compiled driver (`ctecheck`) and proves the
table-independent core `getType_respell` / `cte_get_type_of_check` (SqlProofs/CteShape/Core.lean).
-/
namespace Sql.C18Table
open Sql.Acc

theorem cte_table : type_of% @cteTable_ok := @cteTable_ok

/-- every WITH statement of the table × every admissible re-spelling (names, literals, comment texts, keyword case and inner whitespace,
whitespace values) × every sufficient fuel: get_type() is the DML keyword after the CTE definitions -/
theorem cte_get_type_in_context : type_of% @Sql.Acc.cte_get_type_in_context := @Sql.Acc.cte_get_type_in_context

/-- AS NOT MATERIALIZED: decided not to be typed by the DML keyword after the definitions -/
theorem cte_pinned_not_canonical : type_of% @Sql.Acc.cte_pinned_not_canonical := @Sql.Acc.cte_pinned_not_canonical

end Sql.C18Table
