import SqlProofs.IdentShape.Main2
/-!
# C12 (thorough tier) — second context list of the kernel-decided skeleton table

`table2_ok`: 7 contexts × 30 reference spellings = 210 skeletons — the reference inside a subquery or CTE body that an earlier pass has already
wrapped into an Identifier (`(select R from v) AS y` in FROM / JOIN / select list, `WITH y AS (select R from v) …`, and `R` in the FROM list
of such a subquery / CTE body).  Same universal part as `SqlPropsSlow/C12Table.lean`; the quick tier evaluates the table with the compiled
driver (`skelcheck2`, `skeltexts2`).
-/
namespace Sql.C12Table2
open Sql.Acc

theorem skeleton_table2 : type_of% @table2_ok := @table2_ok

theorem identifier_accessors_in_context2 : type_of% @Sql.Acc.identifier_accessors_in_context2 := @Sql.Acc.identifier_accessors_in_context2

end Sql.C12Table2
